//! Text inputs for C16 (fault set (e)): fixture-like seeds, line alphabets and the token replacement set.

use super::spaces::P;

pub const LONG: usize = 64 * 1024;

fn long(c: u8, n: usize) -> Vec<u8> {
	vec![c; n]
}

fn cat(parts: &[&[u8]]) -> Vec<u8> {
	parts.concat()
}

/// the header line each sequence is (optionally) prefixed with; None = the format has no header
pub fn header(p: P) -> Option<&'static [u8]> {
	match p {
		P::Tiny2 => Some(b"tiny\t2\t0\ta\tb"),
		P::Tiny3 => Some(b"tiny\t2\t0\ta\tb\tc"),
		P::TinyDiff => Some(b"tiny\t2\t0"),
		_ => None,
	}
}

/// The line alphabet of a text parser: well-formed lines of every kind at every depth, plus the
/// malformed shapes the statement names (deep indentation jumps, empty cells, non-numeric indices,
/// non-UTF-8 bytes, very long fields).
pub fn line_alphabet(p: P) -> Vec<Vec<u8>> {
	let l = |s: &str| s.as_bytes().to_vec();
	match p {
		P::Tiny2 | P::Tiny3 => {
			let x = if p == P::Tiny3 { "\tz" } else { "" };
			vec![
				header(p).map(|h| h.to_vec()).unwrap_or_default(),
				l(&format!("c\tA\tB{x}")),
				l(&format!("\tf\tI\tx\ty{x}")),
				l(&format!("\tm\t(I)V\tm\tn{x}")),
				l(&format!("\t\tp\t0\t\tq{x}")),
				l("\t\tc\tcomment \\n \\\\ \\x \\"),
				l("\tc\tclass comment"),
				l("\t\t\tc\tparameter comment"),
				l("\t\t\t\t\t\t\tc\tindentation jump"),
				l(""),
				l(&format!("c\t\t{}", if p == P::Tiny3 { "\t" } else { "" })),
				l(&format!("\t\tp\tx\t\tq{x}")),
				l(&format!("\t\tp\t-1\t\tq{x}")),
				l(&format!("\t\tp\t99999999999999999999\t\tq{x}")),
				cat(&[b"c\t\xff\xfe\tB", x.as_bytes()]),
				cat(&[b"c\t", &long(b'a', LONG), b"\tB", x.as_bytes()]),
				l("c\tA"),
				l(&format!("c\tA\tB\tC\tD{x}")),
				l(&format!("\tm\t(\tm\tn{x}")),
				l(&format!("\tf\t[\tx\ty{x}")),
				// every escape of the format, non-ASCII text and a backslash before a multi-byte character
				l("\t\tc\t\\r\\t\\0\\\\ é€\u{1F600} \\é\\"),
				l(&format!("c\tÉ/é\t€{}", if p == P::Tiny3 { "\t\u{1F600}" } else { "" })),
				l(&format!("\u{85}c\tA\tB{x}")),
			]
		},
		P::TinyDiff => vec![
			l("tiny\t2\t0"),
			l("c\tA\tA\tB"),
			l("c\tA\t\tB"),
			l("c\tA\tB\t"),
			l("\tf\tI\tx\tx\ty"),
			l("\tm\t(I)V\tm\tm\tn"),
			l("\t\tp\t0\t\t\tq"),
			l("\t\tp\t0\tsrc\t\tq"),
			l("\t\tc\told \\n\tnew \\\\"),
			l("\tc\t\tadded"),
			l("\t\t\tc\ta\tb"),
			l("\t\t\t\t\t\t\tc\ta\tb"),
			l(""),
			l("c\t\t\t"),
			l("\t\tp\tx\t\t\tq"),
			l("\t\tp\t-1\t\t\tq"),
			cat(&[b"c\t\xff\xfe\tA\tB"]),
			cat(&[b"c\tA\t", &long(b'a', LONG), b"\tB"]),
			l("c"),
			l("c\tA\tA\tB\tC"),
			l("\tm\t(\tm\tm\tn"),
			l("tiny\t2\t0\textra"),
			l("\t\tc\t\\r\\t\\0 é\\\t€\u{1F600}\\é\\"),
			l("c\tÉ/é\t€\t\u{1F600}"),
			l("\u{85}c\tA\tA\tB"),
		],
		P::Enigma => vec![
			l("CLASS A B"),
			l("CLASS A"),
			l("\tFIELD x y I"),
			l("\tMETHOD m n (I)V"),
			l("\t\tARG 0 q"),
			l("\t\tCOMMENT text # more"),
			l("\tCOMMENT class comment"),
			l("\tCLASS In Inner"),
			l("\t\tCLASS Deeper"),
			l("\t\t\t\t\t\tCOMMENT indentation jump"),
			l("# comment only"),
			l(""),
			l("CLASS"),
			l("\t\tARG x q"),
			l("\t\tARG -1 q"),
			l("\t\tARG 99999999999999999999 q"),
			cat(&[b"CLASS \xff\xfe B"]),
			cat(&[b"CLASS ", &long(b'a', LONG), b" B"]),
			l("CLASS A B ACC:PUBLIC extra"),
			l("FIELD x I"),
			l("\tMETHOD m ("),
			l("\tFIELD x y z ACC:PRIVATE"),
			l("CLASS A$B C$D"),
			l("CLASS É/é €\u{1F600}"),
			l("\tCOMMENT # é € \u{1F600} #"),
			l("\u{85}CLASS\u{3000}A\u{a0}B\u{2028}"),
			l("CLASS  A  B"),
			l("\tMETHOD m n (I)V ACC:é"),
		],
		P::Nests => vec![
			l("a/B$1\ta/B\tm\t()V\t1\t0x0008"),
			l("a/B$C\ta/B\t\t\tC\t8"),
			l("a/B$1L\ta/B\tm\t(I)V\t1L\t0b101"),
			l(""),
			l("a/B$C\ta/B\t\t\tC"),
			l("a/B$C\ta/B\t\t\tC\t8\textra"),
			l("\ta/B\t\t\tC\t8"),
			l("a/B$C\t\t\t\tC\t8"),
			l("a/B$C\ta/B\t\t\t\t8"),
			l("a/B$C\ta/B\t\t\tC\tx"),
			l("a/B$C\ta/B\t\t\tC\t0x10000"),
			l("a/B$C\ta/B\t\t\tC\t-1"),
			l("a/B$C\ta/B\t\t\tC\t0x"),
			l("a/B$C\ta/B\t\t\tC\t0b2"),
			l("a/B$C\ta/B\tm\t(\tC\t8"),
			l("a/B$C\ta/B\t<bad>\t()V\tC\t8"),
			cat(&[b"a/B$C\t\xff\xfe\t\t\tC\t8"]),
			cat(&[b"a/B$C\t", &long(b'a', LONG), b"\t\t\tC\t8"]),
			l("a.b\ta/B\t\t\tC\t8"),
			l("a/B$C\ta/B\t\t\t[C\t65535"),
			// the access flags in every shape a number parser can meet: upper-case prefixes, signs, blanks, multi-byte
			// characters at every byte offset of the prefix
			l("a/B$C\ta/B\t\t\tC\t0X10"),
			l("a/B$C\ta/B\t\t\tC\t0B1"),
			l("a/B$C\ta/B\t\t\tC\t+8"),
			l("a/B$C\ta/B\t\t\tC\t0x+8"),
			l("a/B$C\ta/B\t\t\tC\t 8"),
			l("a/B$C\ta/B\t\t\tC\t1é"),
			l("a/B$C\ta/B\t\t\tC\t€"),
			l("a/B$C\ta/B\t\t\tC\t0\u{1F600}"),
			l("a/B$C\ta/B\t\t\tC\t0xé"),
			l("É/é$€\tÉ/é\tµ\t(Lé;)V\t€\t8"),
			l("a/B$1é\ta/B\t\t\t1é\t8"),
		],
		_ => Vec::new(),
	}
}

/// fixture-like seed texts (a small, fully populated mapping set per format)
pub fn seeds(p: P) -> Vec<Vec<u8>> {
	let l = |s: &str| s.as_bytes().to_vec();
	match p {
		P::Tiny2 => vec![l("tiny\t2\t0\tofficial\tnamed\nc\ta\tpkg/Alpha\n\tc\tA class.\\nSecond line with \\\\ backslash.\n\tf\tI\ta\tcount\n\t\tc\tfield comment\n\tf\tLa;\tb\tself\n\tm\t(ILa;)V\ta\trun\n\t\tc\tmethod comment\n\t\tp\t1\t\tamount\n\t\t\tc\tparameter comment\n\t\tp\t2\t\tother\n\tm\t()V\t<init>\t<init>\nc\ta$b\tpkg/Alpha$Inner\n\tf\t[[J\tc\t\nc\td\t\n"), l("tiny\t2\t0\tofficiél\tnamed€\nc\té\tpkg/Élpha\u{1F600}\n\tc\tEvery escape: \\n \\r \\t \\0 \\\\ unknown \\q \\é, € and \u{1F600}; ends in one \\\n\tf\tLé;\t€\tcôunt\n\t\tc\t\\\n\tm\t(L€;[Lé;)Lé;\t\u{1F600}\trün\n\t\tp\t65535\t\tπ\n\t\t\tc\té\\\nc\té$€\tpkg/Élpha\u{1F600}$Ïnner\n")],
		P::Tiny3 => vec![l("tiny\t2\t0\tofficial\tintermediary\tnamed\nc\ta\tnet/C_1\tpkg/Alpha\n\tc\tA class.\n\tf\tI\ta\tf_1\tcount\n\tm\t(ILa;)V\ta\tm_1\trun\n\t\tp\t1\t\tp_1\tamount\n\t\t\tc\tparameter comment\nc\tb\t\tpkg/Beta\n\tm\t()La;\tb\t\tmake\n"), l("tiny\t2\t0\toffi€ial\tintermédiary\tnamed\u{1F600}\nc\té\tnet/C_é\tpkg/Élpha\n\tc\t\\t\\r\\0é€\u{1F600}\\\n\tf\tLé;\t€\tf_€\tcôunt\n\tm\t(L€;)V\t\u{1F600}\tm_é\t\n\t\tp\t0\t\t\tπ\n\t\t\tc\t€\\n\n")],
		P::TinyDiff => vec![l("tiny\t2\t0\nc\ta\tpkg/Alpha\tpkg/Alpha2\n\tc\told class comment\tnew class comment\n\tf\tI\ta\tcount\tcounter\n\t\tc\t\tadded comment\n\tf\tLa;\tb\tself\t\n\tm\t(ILa;)V\ta\trun\trun\n\t\tc\tremoved\t\n\t\tp\t1\t\tamount\tqty\n\t\t\tc\told \\n\tnew \\\\\n\t\tp\t2\t\t\tadded\nc\tb\t\tpkg/Added\nc\tc\tpkg/Removed\t\n"), l("tiny\t2\t0\nc\té\tpkg/Élpha\tpkg/Élpha€\n\tc\told é\\\tnew € \\r\\t\\0\n\tf\tLé;\t€\tcôunt\t\u{1F600}\n\t\tc\t\t\\\n\tm\t(L€;)V\t\u{1F600}\trün\trün\n\t\tp\t65535\t\tπ\tρ\n\t\t\tc\té\\\t\nc\t€\t\tpkg/Ädded\n")],
		P::Enigma => vec![l("CLASS a pkg/Alpha\n\tCOMMENT A class.\n\tCOMMENT Second line with # hash\n\tFIELD a count I\n\t\tCOMMENT field comment\n\tFIELD b La;\n\tMETHOD a run (ILa;)V\n\t\tCOMMENT method comment\n\t\tARG 1 amount\n\t\t\tCOMMENT parameter comment\n\t\tARG 2 other\n\tMETHOD <init> ()V\n\tCLASS b Inner ACC:PUBLIC\n\t\tFIELD c [[J # trailing comment\n\t\tCLASS c\n\t\t\tMETHOD m ()V\nCLASS d\n"), l("CLASS é pkg/Élpha\u{1F600}\n\tCOMMENT é € \u{1F600} # \\\n\tFIELD € côunt Lé;\n\t\tCOMMENT \u{3000}ideographic space\n\tMETHOD \u{1F600} rün (L€;[Lé;)Lé;\n\t\tARG 65535 π\n\t\t\tCOMMENT é\n\tCLASS € Ïnner ACC:PÜBLIC\n\t\tFIELD ö [[Lé; # trailing € comment\nCLASS ü\u{a0}\n")],
		P::Nests => vec![l("a/B$1\ta/B\trun\t(I)V\t1\t0x0008\na/B$C\ta/B\t\t\tC\t9\na/B$1Local\ta/B\tm\t()V\t1Local\t0b1010\nx/Y$Z$W\tx/Y$Z\t\t\tW\t65535\n"), l("é/B$1\té/B\trün\t(Lé;)V\t1\t0x0008\né/B$€\té/B\t\t\t€\t9\né/B$1Löcal\té/B\tm\t()V\t1Löcal\t0b1010\n\u{1F600}/Y$Z$W\t\u{1F600}/Y$Z\t\t\tW\t65535\n")],
		_ => Vec::new(),
	}
}

/// the strings every token (cell) of a seed is replaced with, one at a time
pub fn replacements() -> Vec<Vec<u8>> {
	let l = |s: &str| s.as_bytes().to_vec();
	let mut brackets = vec![b'['; 100_000];
	brackets.push(b'I');
	vec![
		l(""),
		l("\t"),
		l("\t\t\t\t\t\t"),
		l(" "),
		l("0"),
		l("-1"),
		l("x"),
		l("99999999999999999999"),
		l("18446744073709551615"),
		l("0x10000"),
		b"\xff\xfe".to_vec(),
		b"\xed\xa0\x80".to_vec(),
		vec![b'a'; 1 << 20],
		brackets,
		l("("),
		l("()"),
		l("(I"),
		l("L;"),
		l("La;"),
		l("a/"),
		l("/a"),
		l("a//b"),
		l("a.b"),
		l("a$"),
		l("$"),
		l("[a"),
		l("<init>"),
		l("<x>"),
		l("\\"),
		l("\\n"),
		l("c"),
		l("tiny"),
		l("CLASS"),
		l("#"),
		l("ACC:"),
		l("\r"),
		l("\u{0}"),
		l("é\u{10000}"),
	]
}

/// The cells of a seed text: (start, end) byte ranges of every separator-delimited token and of every
/// line's indentation (possibly empty), in file order.
pub fn cells(p: P, text: &[u8]) -> Vec<(usize, usize)> {
	let seps: &[u8] = if p == P::Enigma { b"\t " } else { b"\t" };
	let mut out = Vec::new();
	let mut pos = 0;
	for line in text.split(|b| *b == b'\n') {
		let ind = line.iter().take_while(|b| **b == b'\t').count();
		out.push((pos, pos + ind));
		let mut start = ind;
		for i in ind..=line.len() {
			if i == line.len() || seps.contains(&line[i]) {
				if !(i == line.len() && start == i && line.len() == ind) {
					out.push((pos + start, pos + i));
				}
				start = i + 1;
			}
		}
		pos += line.len() + 1;
	}
	out
}

/// The character alphabet of the "short strings in every cell" spaces: the characters the parsers treat
/// specially (radix prefixes and digits of the nests access flags, descriptor and class name punctuation, the
/// escape character, Enigma's separators) and characters of every UTF-8 width (2, 3 and 4 bytes), two of them
/// Unicode white space. `core` = the reduced set used one length deeper.
pub fn char_alphabet(core: bool) -> Vec<Vec<u8>> {
	let full: &[&str] = &["0", "x", "b", "1", "a", "L", "/", "$", ";", "[", "(", ")", "<", ".", "-", "+", "\\", "n", "#", " ", ":", "\t", "é", "€", "\u{1F600}", "\u{85}", "\u{3000}"];
	let reduced: &[&str] = &["0", "x", "1", "a", "/", "$", ";", "\\", " ", "\t", "é", "€", "\u{85}"];
	(if core { reduced } else { full }).iter().map(|s| s.as_bytes().to_vec()).collect()
}

/// The byte strings of the single-edit space over text seeds: at every byte position each of them is inserted, and put
/// in place of the byte there (and the byte is deleted). Separators, the escape character, lone UTF-8 lead and
/// continuation bytes (the result is not UTF-8) and whole characters of every width (the result is UTF-8 with a
/// multi-byte character at that offset).
pub fn edit_symbols() -> Vec<Vec<u8>> {
	let mut v: Vec<Vec<u8>> = ["\t", "\n", "\r", " ", "\\", "#", "0", "é", "€", "\u{1F600}", "\u{85}"].iter().map(|s| s.as_bytes().to_vec()).collect();
	v.extend([vec![0x80u8], vec![0xc3], vec![0xe2, 0x82], vec![0xf0], vec![0xff], vec![0]]);
	v
}

/// the line alphabet without the very long lines (used one line deeper than the full alphabet)
pub fn short_line_alphabet(p: P) -> Vec<Vec<u8>> {
	line_alphabet(p).into_iter().filter(|l| l.len() < 1024).collect()
}

// ---------------------------------------------------------------------------------------------
// long texts with one multi-byte character at every byte offset (fault set (h))

/// longest run of ASCII padding (error messages and reports tend to be cut at 40/60/80/100/120 bytes)
pub const PAD_MAX: usize = 140;

/// The padded texts: `k` ASCII letters and one character of 1, 2, 3 or 4 UTF-8 bytes, the character last (a cut counted
/// from the start of the text meets it) and first (a cut counted from the end meets it), for every k in 0..=PAD_MAX.
/// `class_file` = in the encoding of class files (the 4-byte character as a surrogate pair, and a lone surrogate too).
pub fn pad_strings(class_file: bool) -> Vec<Vec<u8>> {
	let mut chars: Vec<Vec<u8>> = vec![b"b".to_vec(), "é".as_bytes().to_vec(), "€".as_bytes().to_vec()];
	if class_file {
		chars.push(vec![0xed, 0xa0, 0xbd, 0xed, 0xb8, 0x80]);
		chars.push(vec![0xed, 0xa0, 0x80]);
	} else {
		chars.push("\u{1F600}".as_bytes().to_vec());
	}
	let mut v = Vec::with_capacity(2 * chars.len() * (PAD_MAX + 1));
	for c in &chars {
		for k in 0..=PAD_MAX {
			let mut a = vec![b'a'; k];
			a.extend_from_slice(c);
			v.push(a);
			if k > 0 {
				let mut b = c.clone();
				b.extend(vec![b'a'; k]);
				v.push(b);
			}
		}
	}
	v
}

/// Files with a slot `{}` (every occurrence gets the same text) in which the text of the slot is quoted by an error, or kept
/// in the value: duplicates of every kind of entry, too many / too few fields, bad descriptors and indices, indentation
/// jumps, bad headers; `~` stands for the extra column of the three-namespace flavour.
pub fn templates(p: P) -> Vec<Vec<u8>> {
	let tiny: &[&str] = &[
		"H\nc\t{}\tB~\n",
		"H\nc\tA\t{}~\n",
		"H\nc\tA\tB~\n\tc\t{}\n",
		"H\nc\tA\tB~\n\tc\t{}\n\tc\t{}\n",
		"H\nc\tA\tB~\n\tf\tI\tx\ty~\n\t\tc\t{}\n\t\tc\t{}x\n",
		"H\nc\tA\tB~\n\tm\t()V\tx\ty~\n\t\tc\t{}\n\t\tc\tx{}\n",
		"H\nc\tA\tB~\n\tm\t(I)V\tx\ty~\n\t\tp\t0\t\tq~\n\t\t\tc\t{}\n\t\t\tc\t{}\n",
		"H\nc\t{}\tB~\nc\t{}\tC~\n",
		"H\nc\tA\tB~\n\tf\tI\t{}\ty~\n\tf\tI\t{}\tz~\n",
		"H\nc\tA\tB~\n\tm\t()V\t{}\ty~\n\tm\t()V\t{}\tz~\n",
		"H\nc\tA\tB~\n\tm\t(I)V\tx\ty~\n\t\tp\t0\t\t{}~\n\t\tp\t0\t\t{}~\n",
		"H\nc\t{}\tB\tC\tD~\n",
		"H\nc\t{}\n",
		"H\nc\tA\tB~\n\tf\t{}\tx\ty~\n",
		"H\nc\tA\tB~\n\tf\tL{};;\tx\ty~\n",
		"H\nc\tA\tB~\n\tf\tL{};\tx\ty~\n",
		"H\nc\tA\tB~\n\tm\t({}\tx\ty~\n",
		"H\nc\tA\tB~\n\tm\t(L{};)\tx\ty~\n",
		"H\nc\tA\tB~\n\tm\t()V\tx\ty~\n\t\tp\t{}\t\tq~\n",
		"H\nc\tA\tB~\n\tm\t()V\tx\ty~\n\t\tp\t0\t{}\tq~\n",
		"H\nc\tA\tB~\n\t\t\t\t\tc\t{}\n",
		"H\n\t\t\tc\t{}\tB~\n",
		"tiny\t2\t1\t{}\tb~\n",
		"tiny\t2\t0\t{}\n",
		"tiny\t2\t0\t{}\t{}~\n",
		"tiny\t2\t0\t{}\tb\tc\td\n",
		"{}\t2\t0\ta\tb~\n",
		"tiny\t{}\t0\ta\tb~\n",
		"H\nc\t{}/\tB~\n",
		"H\nc\tA\t{};~\n",
		"H\nc\tA\tB~\n\tf\tI\t{};\ty~\n",
		"H\nc\tA\tB~\n\tm\t()V\t<{}>\ty~\n",
		"H\nc\tA\tB~\n\tc\t{}\\\n",
		"H\nc\tA\tB~\n\tc\t\\{}\\n\\\\\n",
		"H\nc\tA\tB~\n\t{}\tI\tx\ty~\n",
	];
	let diff: &[&str] = &[
		"H\nc\t{}\tA\tB\n",
		"H\nc\tK\t{}\tB\n",
		"H\nc\tK\tA\t{}\n",
		"H\nc\tK\t{}\t{}\n",
		"H\nc\t{}\tA\tB\nc\t{}\tA\tC\n",
		"H\nc\tK\tA\tB\n\tc\t{}\tx\n\tc\ty\t{}\n",
		"H\nc\tK\tA\tB\n\tc\t{}\\\t\\{}\n",
		"H\nc\tK\tA\tB\n\tf\tI\t{}\ta\tb\n\tf\tI\t{}\ta\tc\n",
		"H\nc\tK\tA\tB\n\tm\t()V\t{}\ta\tb\n\tm\t()V\t{}\ta\tc\n",
		"H\nc\tK\tA\tB\n\tm\t(I)V\tm\ta\tb\n\t\tp\t0\t\t{}\tq\n\t\tp\t0\t\t{}\tr\n",
		"H\nc\tK\tA\tB\n\tm\t(I)V\tm\ta\tb\n\t\tp\t0\t{}\ta\tb\n",
		"H\nc\tK\tA\tB\n\tm\t(I)V\tm\ta\tb\n\t\tp\t{}\t\ta\tb\n",
		"H\nc\tK\tA\tB\n\tm\t(I)V\tm\ta\tb\n\t\tp\t0\t\ta\tb\n\t\t\tc\t{}\t\n\t\t\tc\t\t{}\n",
		"H\nc\tK\tA\tB\n\tf\t{}\tn\ta\tb\n",
		"H\nc\tK\tA\tB\n\tf\tI\t{}\ta\tb\tc\n",
		"H\nc\tK\tA\tB\n\tm\t({}\tn\ta\tb\n",
		"H\nc\tK\tA\tB\n\tm\t()V\t<{}>\ta\tb\n",
		"H\nc\tK\tA\tB\t{}\n",
		"H\nc\t{}\n",
		"H\nc\tK\tA\tB\n\t\t\t\tc\t{}\tb\n",
		"tiny\t2\t0\t{}\n",
		"tiny\t2\t{}\n",
		"{}\t2\t0\n",
		"H\nc\t{}/\tA\tB\n",
		"H\nc\tK\tA\tB\n\t{}\tI\tx\ty\tz\n",
	];
	let enigma: &[&str] = &[
		"CLASS {} B\n",
		"CLASS A {}\n",
		"CLASS A B ACC:{}\n",
		"CLASS A ACC:{}\n",
		"CLASS A B C {}\n",
		"CLASS {} B\nCLASS {} C\n",
		"CLASS A B\n\tFIELD {} y I\n\tFIELD {} z I\n",
		"CLASS A B\n\tMETHOD {} y ()V\n\tMETHOD {} z ()V\n",
		"CLASS A B\n\tMETHOD m n (I)V\n\t\tARG 0 {}\n\t\tARG 0 {}\n",
		"CLASS A B\n\tMETHOD m n (I)V\n\t\tARG {} q\n",
		"CLASS A B\n\tMETHOD m n (I)V\n\t\tARG 0 q {}\n",
		"CLASS A B\n\tFIELD x {}\n",
		"CLASS A B\n\tFIELD x y L{};\n",
		"CLASS A B\n\tMETHOD m ({}\n",
		"CLASS A B\n\tMETHOD m n (L{};)V ACC:{}\n",
		"CLASS A B\n\tFIELD a b c d {}\n",
		"CLASS A B\n\tFIELD {}\n",
		"{} x\n",
		"CLASS A B\n\t{} x\n",
		"CLASS A B\n\tFIELD x y I\n\t\t{} x\n",
		"CLASS A B\n\tMETHOD m n (I)V\n\t\t{} x\n",
		"CLASS A B\n\tMETHOD m n (I)V\n\t\tARG 0 q\n\t\t\t{} x\n",
		"CLASS A B\n\t\t\t\tCOMMENT {}\n",
		"CLASS A B\n\tCOMMENT {}\n\tCOMMENT {} # {}\n",
		"CLASS A B # {}\n",
		"CLASS A B\n\tFIELD x y I #{}\n",
		"CLASS A B\n\tCLASS {} D\n\tCLASS {} E\n",
		"CLASS A B\n\tCLASS {}/x D\n",
		"CLASS A {}\n\tCLASS C {}\n\t\tCLASS E {}\n",
	];
	let nests: &[&str] = &[
		"{}\ta/B\t\t\tC\t8\n",
		"a/B$C\t{}\t\t\tC\t8\n",
		"a/B$C\ta/B\t{}\t()V\tC\t8\n",
		"a/B$C\ta/B\t<{}>\t()V\tC\t8\n",
		"a/B$C\ta/B\tm\t{}\tC\t8\n",
		"a/B$C\ta/B\tm\t({}\tC\t8\n",
		"a/B$C\ta/B\tm\t(L{};)V\tC\t8\n",
		"a/B$C\ta/B\t\t\t{}\t8\n",
		"a/B$C\ta/B\t\t\t1{}\t8\n",
		"a/B$C\ta/B\t\t\tC\t{}\n",
		"a/B$C\ta/B\t\t\tC\t0x{}\n",
		"a/B$C\ta/B\t\t\tC\t0b{}\n",
		"a/B$C\ta/B\t\t\tC\t8{}\n",
		"a/B$C\ta/B\t\t\tC\t8\t{}\n",
		"{}\n",
		"a/B$C\t{}\n",
		"{}/\ta/B\t\t\tC\t8\n",
		"{}\ta/B\t\t\tC\t8\n{}\ta/B\t\t\tD\t9\n",
		"a/B$C\ta/B\t\t\tC\t8\n{}\n",
	];
	let desc_field: &[&str] = &["{}", "L{};", "L{}", "[{}", "[[L{};", "I{}", "L{};{}", "L{}/;"];
	let desc_method: &[&str] = &["{}", "({}", "({})V", "(L{};)V", "(L{};", "(){}", "()L{};", "()L{}", "(I{})V", "()V{}", "([[L{};J)[L{};"];
	let (list, header): (&[&str], &str) = match p {
		P::Tiny2 => (tiny, "tiny\t2\t0\ta\tb"),
		P::Tiny3 => (tiny, "tiny\t2\t0\ta\tb\tc"),
		P::TinyDiff => (diff, "tiny\t2\t0"),
		P::Enigma => (enigma, ""),
		P::Nests => (nests, ""),
		P::DescField => (desc_field, ""),
		P::DescMethod => (desc_method, ""),
		P::DescReturn => (desc_field, ""),
		P::Class => (&[], ""),
	};
	let third = if p == P::Tiny3 { "\tzz" } else { "" };
	list.iter().map(|t| {
		let t = if header.is_empty() { (*t).to_owned() } else { t.replacen('H', header, 1) };
		t.replace('~', third).into_bytes()
	}).collect()
}

/// `template` with every `{}` replaced by `text`
pub fn fill(template: &[u8], text: &[u8]) -> Vec<u8> {
	let mut out = Vec::with_capacity(template.len() + 3 * text.len());
	let mut i = 0;
	while i < template.len() {
		if template[i] == b'{' && template.get(i + 1) == Some(&b'}') {
			out.extend_from_slice(text);
			i += 2;
		} else {
			out.push(template[i]);
			i += 1;
		}
	}
	out
}
