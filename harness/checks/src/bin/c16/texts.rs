//! Text inputs for C16 (fault set (e)): fixture-like seeds, line alphabets and the token replacement set.

use super::spaces::P;

pub const LONG: usize = 64 * 1024;

fn long(c: u8, n: usize) -> Vec<u8> {
	vec![c; n]
}

fn cat(parts: &[&[u8]]) -> Vec<u8> {
	parts.concat()
}

/// the header line each sequence is (optionally) prefixed with; None = the format has no header
pub fn header(p: P) -> Option<&'static [u8]> {
	match p {
		P::Tiny2 => Some(b"tiny\t2\t0\ta\tb"),
		P::Tiny3 => Some(b"tiny\t2\t0\ta\tb\tc"),
		P::TinyDiff => Some(b"tiny\t2\t0"),
		_ => None,
	}
}

/// The line alphabet of a text parser: well-formed lines of every kind at every depth, plus the
/// malformed shapes the statement names (deep indentation jumps, empty cells, non-numeric indices,
/// non-UTF-8 bytes, very long fields).
pub fn line_alphabet(p: P) -> Vec<Vec<u8>> {
	let l = |s: &str| s.as_bytes().to_vec();
	match p {
		P::Tiny2 | P::Tiny3 => {
			let x = if p == P::Tiny3 { "\tz" } else { "" };
			vec![
				header(p).map(|h| h.to_vec()).unwrap_or_default(),
				l(&format!("c\tA\tB{x}")),
				l(&format!("\tf\tI\tx\ty{x}")),
				l(&format!("\tm\t(I)V\tm\tn{x}")),
				l(&format!("\t\tp\t0\t\tq{x}")),
				l("\t\tc\tcomment \\n \\\\ \\x \\"),
				l("\tc\tclass comment"),
				l("\t\t\tc\tparameter comment"),
				l("\t\t\t\t\t\t\tc\tindentation jump"),
				l(""),
				l(&format!("c\t\t{}", if p == P::Tiny3 { "\t" } else { "" })),
				l(&format!("\t\tp\tx\t\tq{x}")),
				l(&format!("\t\tp\t-1\t\tq{x}")),
				l(&format!("\t\tp\t99999999999999999999\t\tq{x}")),
				cat(&[b"c\t\xff\xfe\tB", x.as_bytes()]),
				cat(&[b"c\t", &long(b'a', LONG), b"\tB", x.as_bytes()]),
				l("c\tA"),
				l(&format!("c\tA\tB\tC\tD{x}")),
				l(&format!("\tm\t(\tm\tn{x}")),
				l(&format!("\tf\t[\tx\ty{x}")),
				// every escape of the format, non-ASCII text and a backslash before a multi-byte character
				l("\t\tc\t\\r\\t\\0\\\\ é€\u{1F600} \\é\\"),
				l(&format!("c\tÉ/é\t€{}", if p == P::Tiny3 { "\t\u{1F600}" } else { "" })),
				l(&format!("\u{85}c\tA\tB{x}")),
			]
		},
		P::TinyDiff => vec![
			l("tiny\t2\t0"),
			l("c\tA\tA\tB"),
			l("c\tA\t\tB"),
			l("c\tA\tB\t"),
			l("\tf\tI\tx\tx\ty"),
			l("\tm\t(I)V\tm\tm\tn"),
			l("\t\tp\t0\t\t\tq"),
			l("\t\tp\t0\tsrc\t\tq"),
			l("\t\tc\told \\n\tnew \\\\"),
			l("\tc\t\tadded"),
			l("\t\t\tc\ta\tb"),
			l("\t\t\t\t\t\t\tc\ta\tb"),
			l(""),
			l("c\t\t\t"),
			l("\t\tp\tx\t\t\tq"),
			l("\t\tp\t-1\t\t\tq"),
			cat(&[b"c\t\xff\xfe\tA\tB"]),
			cat(&[b"c\tA\t", &long(b'a', LONG), b"\tB"]),
			l("c"),
			l("c\tA\tA\tB\tC"),
			l("\tm\t(\tm\tm\tn"),
			l("tiny\t2\t0\textra"),
			l("\t\tc\t\\r\\t\\0 é\\\t€\u{1F600}\\é\\"),
			l("c\tÉ/é\t€\t\u{1F600}"),
			l("\u{85}c\tA\tA\tB"),
		],
		P::Enigma => vec![
			l("CLASS A B"),
			l("CLASS A"),
			l("\tFIELD x y I"),
			l("\tMETHOD m n (I)V"),
			l("\t\tARG 0 q"),
			l("\t\tCOMMENT text # more"),
			l("\tCOMMENT class comment"),
			l("\tCLASS In Inner"),
			l("\t\tCLASS Deeper"),
			l("\t\t\t\t\t\tCOMMENT indentation jump"),
			l("# comment only"),
			l(""),
			l("CLASS"),
			l("\t\tARG x q"),
			l("\t\tARG -1 q"),
			l("\t\tARG 99999999999999999999 q"),
			cat(&[b"CLASS \xff\xfe B"]),
			cat(&[b"CLASS ", &long(b'a', LONG), b" B"]),
			l("CLASS A B ACC:PUBLIC extra"),
			l("FIELD x I"),
			l("\tMETHOD m ("),
			l("\tFIELD x y z ACC:PRIVATE"),
			l("CLASS A$B C$D"),
			l("CLASS É/é €\u{1F600}"),
			l("\tCOMMENT # é € \u{1F600} #"),
			l("\u{85}CLASS\u{3000}A\u{a0}B\u{2028}"),
			l("CLASS  A  B"),
			l("\tMETHOD m n (I)V ACC:é"),
		],
		P::Nests => vec![
			l("a/B$1\ta/B\tm\t()V\t1\t0x0008"),
			l("a/B$C\ta/B\t\t\tC\t8"),
			l("a/B$1L\ta/B\tm\t(I)V\t1L\t0b101"),
			l(""),
			l("a/B$C\ta/B\t\t\tC"),
			l("a/B$C\ta/B\t\t\tC\t8\textra"),
			l("\ta/B\t\t\tC\t8"),
			l("a/B$C\t\t\t\tC\t8"),
			l("a/B$C\ta/B\t\t\t\t8"),
			l("a/B$C\ta/B\t\t\tC\tx"),
			l("a/B$C\ta/B\t\t\tC\t0x10000"),
			l("a/B$C\ta/B\t\t\tC\t-1"),
			l("a/B$C\ta/B\t\t\tC\t0x"),
			l("a/B$C\ta/B\t\t\tC\t0b2"),
			l("a/B$C\ta/B\tm\t(\tC\t8"),
			l("a/B$C\ta/B\t<bad>\t()V\tC\t8"),
			cat(&[b"a/B$C\t\xff\xfe\t\t\tC\t8"]),
			cat(&[b"a/B$C\t", &long(b'a', LONG), b"\t\t\tC\t8"]),
			l("a.b\ta/B\t\t\tC\t8"),
			l("a/B$C\ta/B\t\t\t[C\t65535"),
			// the access flags in every shape a number parser can meet: upper-case prefixes, signs, blanks, multi-byte
			// characters at every byte offset of the prefix
			l("a/B$C\ta/B\t\t\tC\t0X10"),
			l("a/B$C\ta/B\t\t\tC\t0B1"),
			l("a/B$C\ta/B\t\t\tC\t+8"),
			l("a/B$C\ta/B\t\t\tC\t0x+8"),
			l("a/B$C\ta/B\t\t\tC\t 8"),
			l("a/B$C\ta/B\t\t\tC\t1é"),
			l("a/B$C\ta/B\t\t\tC\t€"),
			l("a/B$C\ta/B\t\t\tC\t0\u{1F600}"),
			l("a/B$C\ta/B\t\t\tC\t0xé"),
			l("É/é$€\tÉ/é\tµ\t(Lé;)V\t€\t8"),
			l("a/B$1é\ta/B\t\t\t1é\t8"),
		],
		_ => Vec::new(),
	}
}

/// fixture-like seed texts (a small, fully populated mapping set per format)
pub fn seeds(p: P) -> Vec<Vec<u8>> {
	let l = |s: &str| s.as_bytes().to_vec();
	match p {
		P::Tiny2 => vec![l("tiny\t2\t0\tofficial\tnamed\nc\ta\tpkg/Alpha\n\tc\tA class.\\nSecond line with \\\\ backslash.\n\tf\tI\ta\tcount\n\t\tc\tfield comment\n\tf\tLa;\tb\tself\n\tm\t(ILa;)V\ta\trun\n\t\tc\tmethod comment\n\t\tp\t1\t\tamount\n\t\t\tc\tparameter comment\n\t\tp\t2\t\tother\n\tm\t()V\t<init>\t<init>\nc\ta$b\tpkg/Alpha$Inner\n\tf\t[[J\tc\t\nc\td\t\n"), l("tiny\t2\t0\tofficiél\tnamed€\nc\té\tpkg/Élpha\u{1F600}\n\tc\tEvery escape: \\n \\r \\t \\0 \\\\ unknown \\q \\é, € and \u{1F600}; ends in one \\\n\tf\tLé;\t€\tcôunt\n\t\tc\t\\\n\tm\t(L€;[Lé;)Lé;\t\u{1F600}\trün\n\t\tp\t65535\t\tπ\n\t\t\tc\té\\\nc\té$€\tpkg/Élpha\u{1F600}$Ïnner\n")],
		P::Tiny3 => vec![l("tiny\t2\t0\tofficial\tintermediary\tnamed\nc\ta\tnet/C_1\tpkg/Alpha\n\tc\tA class.\n\tf\tI\ta\tf_1\tcount\n\tm\t(ILa;)V\ta\tm_1\trun\n\t\tp\t1\t\tp_1\tamount\n\t\t\tc\tparameter comment\nc\tb\t\tpkg/Beta\n\tm\t()La;\tb\t\tmake\n"), l("tiny\t2\t0\toffi€ial\tintermédiary\tnamed\u{1F600}\nc\té\tnet/C_é\tpkg/Élpha\n\tc\t\\t\\r\\0é€\u{1F600}\\\n\tf\tLé;\t€\tf_€\tcôunt\n\tm\t(L€;)V\t\u{1F600}\tm_é\t\n\t\tp\t0\t\t\tπ\n\t\t\tc\t€\\n\n")],
		P::TinyDiff => vec![l("tiny\t2\t0\nc\ta\tpkg/Alpha\tpkg/Alpha2\n\tc\told class comment\tnew class comment\n\tf\tI\ta\tcount\tcounter\n\t\tc\t\tadded comment\n\tf\tLa;\tb\tself\t\n\tm\t(ILa;)V\ta\trun\trun\n\t\tc\tremoved\t\n\t\tp\t1\t\tamount\tqty\n\t\t\tc\told \\n\tnew \\\\\n\t\tp\t2\t\t\tadded\nc\tb\t\tpkg/Added\nc\tc\tpkg/Removed\t\n"), l("tiny\t2\t0\nc\té\tpkg/Élpha\tpkg/Élpha€\n\tc\told é\\\tnew € \\r\\t\\0\n\tf\tLé;\t€\tcôunt\t\u{1F600}\n\t\tc\t\t\\\n\tm\t(L€;)V\t\u{1F600}\trün\trün\n\t\tp\t65535\t\tπ\tρ\n\t\t\tc\té\\\t\nc\t€\t\tpkg/Ädded\n")],
		P::Enigma => vec![l("CLASS a pkg/Alpha\n\tCOMMENT A class.\n\tCOMMENT Second line with # hash\n\tFIELD a count I\n\t\tCOMMENT field comment\n\tFIELD b La;\n\tMETHOD a run (ILa;)V\n\t\tCOMMENT method comment\n\t\tARG 1 amount\n\t\t\tCOMMENT parameter comment\n\t\tARG 2 other\n\tMETHOD <init> ()V\n\tCLASS b Inner ACC:PUBLIC\n\t\tFIELD c [[J # trailing comment\n\t\tCLASS c\n\t\t\tMETHOD m ()V\nCLASS d\n"), l("CLASS é pkg/Élpha\u{1F600}\n\tCOMMENT é € \u{1F600} # \\\n\tFIELD € côunt Lé;\n\t\tCOMMENT \u{3000}ideographic space\n\tMETHOD \u{1F600} rün (L€;[Lé;)Lé;\n\t\tARG 65535 π\n\t\t\tCOMMENT é\n\tCLASS € Ïnner ACC:PÜBLIC\n\t\tFIELD ö [[Lé; # trailing € comment\nCLASS ü\u{a0}\n")],
		P::Nests => vec![l("a/B$1\ta/B\trun\t(I)V\t1\t0x0008\na/B$C\ta/B\t\t\tC\t9\na/B$1Local\ta/B\tm\t()V\t1Local\t0b1010\nx/Y$Z$W\tx/Y$Z\t\t\tW\t65535\n"), l("é/B$1\té/B\trün\t(Lé;)V\t1\t0x0008\né/B$€\té/B\t\t\t€\t9\né/B$1Löcal\té/B\tm\t()V\t1Löcal\t0b1010\n\u{1F600}/Y$Z$W\t\u{1F600}/Y$Z\t\t\tW\t65535\n")],
		_ => Vec::new(),
	}
}

/// the strings every token (cell) of a seed is replaced with, one at a time
pub fn replacements() -> Vec<Vec<u8>> {
	let l = |s: &str| s.as_bytes().to_vec();
	let mut brackets = vec![b'['; 100_000];
	brackets.push(b'I');
	vec![
		l(""),
		l("\t"),
		l("\t\t\t\t\t\t"),
		l(" "),
		l("0"),
		l("-1"),
		l("x"),
		l("99999999999999999999"),
		l("18446744073709551615"),
		l("0x10000"),
		b"\xff\xfe".to_vec(),
		b"\xed\xa0\x80".to_vec(),
		vec![b'a'; 1 << 20],
		brackets,
		l("("),
		l("()"),
		l("(I"),
		l("L;"),
		l("La;"),
		l("a/"),
		l("/a"),
		l("a//b"),
		l("a.b"),
		l("a$"),
		l("$"),
		l("[a"),
		l("<init>"),
		l("<x>"),
		l("\\"),
		l("\\n"),
		l("c"),
		l("tiny"),
		l("CLASS"),
		l("#"),
		l("ACC:"),
		l("\r"),
		l("\u{0}"),
		l("é\u{10000}"),
	]
}

/// The cells of a seed text: (start, end) byte ranges of every separator-delimited token and of every
/// line's indentation (possibly empty), in file order.
pub fn cells(p: P, text: &[u8]) -> Vec<(usize, usize)> {
	let seps: &[u8] = if p == P::Enigma { b"\t " } else { b"\t" };
	let mut out = Vec::new();
	let mut pos = 0;
	for line in text.split(|b| *b == b'\n') {
		let ind = line.iter().take_while(|b| **b == b'\t').count();
		out.push((pos, pos + ind));
		let mut start = ind;
		for i in ind..=line.len() {
			if i == line.len() || seps.contains(&line[i]) {
				if !(i == line.len() && start == i && line.len() == ind) {
					out.push((pos + start, pos + i));
				}
				start = i + 1;
			}
		}
		pos += line.len() + 1;
	}
	out
}

/// The character alphabet of the "short strings in every cell" spaces: the characters the parsers treat
/// specially (radix prefixes and digits of the nests access flags, descriptor and class name punctuation, the
/// escape character, Enigma's separators) and characters of every UTF-8 width (2, 3 and 4 bytes), two of them
/// Unicode white space. `core` = the reduced set used one length deeper.
pub fn char_alphabet(core: bool) -> Vec<Vec<u8>> {
	let full: &[&str] = &["0", "x", "b", "1", "a", "L", "/", "$", ";", "[", "(", ")", "<", ".", "-", "+", "\\", "n", "#", " ", ":", "\t", "é", "€", "\u{1F600}", "\u{85}", "\u{3000}"];
	let reduced: &[&str] = &["0", "x", "1", "a", "/", "$", ";", "\\", " ", "\t", "é", "€", "\u{85}"];
	(if core { reduced } else { full }).iter().map(|s| s.as_bytes().to_vec()).collect()
}

/// The byte strings of the single-edit space over text seeds: at every byte position each of them is inserted, and put
/// in place of the byte there (and the byte is deleted). Separators, the escape character, lone UTF-8 lead and
/// continuation bytes (the result is not UTF-8) and whole characters of every width (the result is UTF-8 with a
/// multi-byte character at that offset).
pub fn edit_symbols() -> Vec<Vec<u8>> {
	let mut v: Vec<Vec<u8>> = ["\t", "\n", "\r", " ", "\\", "#", "0", "é", "€", "\u{1F600}", "\u{85}"].iter().map(|s| s.as_bytes().to_vec()).collect();
	v.extend([vec![0x80u8], vec![0xc3], vec![0xe2, 0x82], vec![0xf0], vec![0xff], vec![0]]);
	v
}

/// the line alphabet without the very long lines (used one line deeper than the full alphabet)
pub fn short_line_alphabet(p: P) -> Vec<Vec<u8>> {
	line_alphabet(p).into_iter().filter(|l| l.len() < 1024).collect()
}
