//! C17 — partial and replaying visitors observe the same facts as a full read.
//!
//! Engine: explicit-state exploration (stateright BFS) of the *visitor's answers*, the real
//! `duke::read_class_multi` / `ClassFile::accept` being the transition function.
//!
//! | clause of the statement | decided by |
//! |---|---|
//! | whatever subset a visitor declares interest in … the items it receives are those of a full read, in order | graph 1: masked read == full read filtered by the answers (oracle.rs); per-member masks (visitors of one class answering differently) |
//! | declining a class / field / method / record component (or `visit_code() = None`) never disturbs the items after it | graph 1: decline deviations for every member index, alone and combined; trailing members / pairs in every generated class |
//! | a read consumes exactly the bytes of one class file whatever the visitor skips | graph 1: cursor at the end of the class after every masked read (trailing bytes follow); graph 2; space 4 |
//! | class files concatenated in one stream are delivered one per successive read | graph 2 (streams of 1..3 classes × 9 visitor kinds per read, one carried `Vec<ClassFile>`); space 4 (the same through every legal `Read + Seek`) |
//! | replaying an in-memory class delivers the same events as reading its bytes | graph 1: masked replay == filtered full read, replay == read for the same answers; the callbacks received by the class, method and code visitors are counted by kind and must agree between read and replay (a delivery made twice or split in two is merged by the tree builder and would not show in the trees; `visit_last_label` excepted: which positions carry a label is not a fact of the class) |
//! | replaying into the tree builder reproduces the class | graph 1, default answers: replay into `Vec<ClassFile>`, `Option<ClassFile>`, replay of the replay, `()`; graph 2: replay of every class of a stream into one carried `Vec<ClassFile>` |
//!
//! Graph 1 (masks): a state is (class, the deviating answers the visitor has decided on so far, in
//! canonical decision order); an action adds one more deviating answer (turn one interest flag off at one
//! of the five levels, decline the class / one field / one method / one record component, answer
//! `visit_code()` with `None` for one method, let the visitor of ONE member answer differently from its
//! siblings) or jumps to a corner (everything off, …). On every state the real reader is run with a visitor
//! that gives exactly these answers, the class is additionally replayed from the in-memory tree into the same
//! visitor, and both results are compared with the FULL read of the same bytes filtered by the answers (oracle.rs).
//!
//! The classes of graph 1:
//! * kitchen sinks (every attribute at every level) under three attribute orders, classes without any class attribute,
//!   the 357 javac classes of the vendored corpus;
//! * space 3, generated odd-but-legal classes (c17/gen.rs and the shared suite `cfmodel::suite`): element values
//!   nested to EVERY depth from 0 to two beyond the bound of the reader (256) at every place an element value can
//!   stand, in four nesting shapes (the replay must accept exactly what the reader accepts); attributes longer than
//!   65535 bytes at every level; unknown attributes named like near misses of the predefined names, like names
//!   predefined at another level, and with multi-byte names; one LineNumberTable / LocalVariableTable /
//!   LocalVariableTypeTable attribute per entry under rotations of the attribute order; the suite groups
//!   attribute-orders-and-contents (6 sinks × 24 rotations, modules, element values of every tag, frame gaps, empty
//!   tables), versions-and-utf8 (every version, preview minors, modified-UTF-8 corners in every role), cldc-stack-map
//!   and empty-debug-tables. A generated class the FULL read refuses is outside the domain (reads with five
//!   visitors are still run for panics).
//!
//! Graph 2 (streams): a state is (stream of 1..3 concatenated class files, the visitor kind chosen for each
//! class read so far, cursor); an action reads the next class with one of nine visitor kinds; after the
//! k-th read the cursor must sit exactly on the k-th boundary and the k-th class must have been delivered.
//!
//! Space 4 (environment, c17/env.rs): streams of two classes × sequences of visitor kinds × the alphabet of legal
//! `Read + Seek` behaviours of c20/io.rs (chunked, `BufReader` capacities, Interrupted, periodic boundaries, one
//! boundary at every offset around the class boundary and on a grid): same deliveries and same positions as
//! through a cursor.

use std::io::Cursor;
use std::sync::atomic::{AtomicU64, Ordering};
use std::sync::Mutex;
use cfmodel::asm::{assemble, AttrOrder, Encoding};
use cfmodel::model::SClass;
use duke::tree::class::ClassFile;
use duke::visitor::MultiClassVisitor;
use rayon::prelude::*;
use stateright::{Checker, Model, Property};
use vcore::{json, Ctx, Stats, Value};

#[path = "c17/visitors.rs"]
mod visitors;
#[path = "c17/oracle.rs"]
mod oracle;
#[path = "c17/gen.rs"]
mod gen;
#[path = "c17/env.rs"]
mod env;
#[path = "c20/io.rs"]
#[allow(dead_code)]
mod io;

use visitors::{Multi, Plan, SimpleMulti, CLASS, FLAGS, LEVEL_NAMES, RECORD};

/// bytes appended after the last class of every stream: a read must not touch them
const TAIL: [u8; 5] = [0xCA, 0xFE, 0xD0, 0x0D, 0x00];

// ---------------------------------------------------------------------------------------------
// deviations

#[derive(Clone, Copy, Debug, PartialEq, Eq)]
enum Dev {
	Flag(usize, usize),
	DeclineClass,
	DeclineField(u16),
	DeclineMethod(u16),
	DeclineRecord(u16),
	NoCode(u16),
	/// the visitor handed out for ONE member (level FIELD / METHOD / RECORD, or CODE = the code visitor of method #i)
	/// reports no interest at all, every other visitor of the class reports every interest
	MemberOff(usize, u16),
	/// the reverse: every visitor of that level reports no interest, only the one of member #i reports every interest
	OnlyMember(usize, u16),
}

impl Dev {
	fn apply(self, p: &mut Plan) {
		match self {
			Dev::Flag(l, i) => p.off[l] |= 1 << i,
			Dev::DeclineClass => p.decline_class = true,
			Dev::DeclineField(i) => p.decline_fields.push(i),
			Dev::DeclineMethod(i) => p.decline_methods.push(i),
			Dev::DeclineRecord(i) => p.decline_records.push(i),
			Dev::NoCode(i) => p.no_code.push(i),
			Dev::MemberOff(l, i) => p.member_masks.push((l as u8, i, Plan::all_mask(l))),
			Dev::OnlyMember(l, i) => {
				p.off[l] = Plan::all_mask(l);
				p.member_masks.push((l as u8, i, 0));
			},
		}
	}
	fn kind(self) -> &'static str {
		match self {
			Dev::Flag(l, _) => ["flag-off:class", "flag-off:field", "flag-off:method", "flag-off:code", "flag-off:record"][l],
			Dev::DeclineClass => "decline-class",
			Dev::DeclineField(_) => "decline-field",
			Dev::DeclineMethod(_) => "decline-method",
			Dev::DeclineRecord(_) => "decline-record-component",
			Dev::NoCode(_) => "visit_code-none",
			Dev::MemberOff(l, _) => ["", "one-field-visitor-uninterested", "one-method-visitor-uninterested", "one-code-visitor-uninterested", "one-record-component-visitor-uninterested"][l],
			Dev::OnlyMember(l, _) => ["", "only-one-field-visitor-interested", "only-one-method-visitor-interested", "only-one-code-visitor-interested", "only-one-record-component-visitor-interested"][l],
		}
	}
}

/// outcomes counted per family of classes as well
const FAMILY_COUNTERS: [&str; 7] = [
	"masked-read:as-full-read-filtered",
	"masked-replay:as-full-read-filtered",
	"simple-read:as-full-read-filtered",
	"replay-vs-read:equal",
	"replay-into-Vec<ClassFile>:reproduces-the-class",
	"masked-read:uninterested-items-delivered-correctly",
	"replay-vs-read:same-events",
];

const CORNER_BASE: u16 = 60000;
const CORNERS: [&str; 9] = [
	"every interest off at every level",
	"every class-level interest off",
	"every field-level interest off",
	"every method-level interest off",
	"every code-level interest off",
	"every record-component-level interest off",
	"every field, method and record component declined",
	"every interest off and every member declined",
	"visit_code()=None for every method",
];

struct ClassCase {
	label: String,
	/// which space the class comes from (prefix of the per-family outcome counters)
	family: String,
	bytes: Vec<u8>,
	/// hex of `bytes` (for replay files and the watchdog's case description)
	hex: String,
	/// bytes + TAIL
	stream: Vec<u8>,
	/// the full read by the real reader (`duke::read_class`), kept for replays
	tree: ClassFile,
	/// its projection: the reference every partial result is compared with
	full: SClass,
	/// deviations in canonical order; the first `effective` ones name something the class file contains
	alphabet: Vec<Dev>,
	effective: usize,
	/// deviation bound for this class
	max_dev: usize,
}

/// which interest flags name an attribute that occurs in the class (read off the INDEPENDENT parser's model)
fn present_flags(r: &SClass) -> [Vec<bool>; 5] {
	let ann = |a: &cfmodel::model::SAnnotations| [!a.visible.is_empty(), !a.invisible.is_empty(), !a.visible_type.is_empty(), !a.invisible_type.is_empty()];
	let ca = ann(&r.annotations);
	let class = vec![
		r.inner_classes.is_some(), r.enclosing_method.is_some(), r.signature.is_some(), r.source_file.is_some(), r.source_debug_extension.is_some(),
		ca[0], ca[1], ca[2], ca[3], r.module.is_some(), r.module_packages.is_some(), r.module_main_class.is_some(), r.nest_host.is_some(),
		r.nest_members.is_some(), r.permitted_subclasses.is_some(), r.record.is_some(), !r.unknown.is_empty(), !r.fields.is_empty(), !r.methods.is_empty(),
	];
	let any = |n: usize, it: &mut dyn Iterator<Item = Vec<bool>>| it.fold(vec![false; n], |mut acc, v| {
		for (a, b) in acc.iter_mut().zip(v) {
			*a |= b;
		}
		acc
	});
	let field = any(7, &mut r.fields.iter().map(|f| {
		let a = ann(&f.annotations);
		vec![f.constant_value.is_some(), f.signature.is_some(), a[0], a[1], a[2], a[3], !f.unknown.is_empty()]
	}));
	let method = any(12, &mut r.methods.iter().map(|m| {
		let a = ann(&m.annotations);
		vec![m.code.is_some(), m.exceptions.is_some(), m.signature.is_some(), a[0], a[1], a[2], a[3], m.visible_param_annotations.is_some(),
			m.invisible_param_annotations.is_some(), m.annotation_default.is_some(), m.parameters.is_some(), !m.unknown.is_empty()]
	}));
	let code = any(7, &mut r.methods.iter().filter_map(|m| m.code.as_ref()).map(|c| {
		vec![!c.frames.is_empty(), !c.line_numbers.is_empty(), !c.local_vars.is_empty(), !c.local_var_types.is_empty(), !c.visible_type.is_empty(),
			!c.invisible_type.is_empty(), !c.unknown.is_empty()]
	}));
	let record = any(6, &mut r.record.iter().flatten().map(|c| {
		let a = ann(&c.annotations);
		vec![c.signature.is_some(), a[0], a[1], a[2], a[3], !c.unknown.is_empty()]
	}));
	[class, field, method, code, record]
}

fn build_case(label: &str, bytes: Vec<u8>, max_dev: usize) -> Result<ClassCase, String> {
	build_case_with(label, "corpus", bytes, max_dev, None, false)
}

/// `model`: what the class states, when the caller assembled it from a model (else the independent parser says it);
/// it only decides which deviations are worth combining. `lenient` (replays): a class the reference parser cannot
/// read (element values nested deeper than its own limit) is described by its full read instead.
fn build_case_with(label: &str, family: &str, bytes: Vec<u8>, max_dev: usize, model: Option<&SClass>, lenient: bool) -> Result<ClassCase, String> {
	let reference = match model {
		Some(m) => Some(m.clone()),
		None => match cfmodel::parse(&bytes) {
			Ok(p) => Some(p.class),
			Err(_) if lenient => None,
			Err(e) => vcore::machinery_fail(&format!("{label}: the reference parser rejects a class of the test set: {e}")),
		},
	};
	let tree = match vcore::guard(|| duke::read_class(&mut Cursor::new(&bytes))) {
		Ok(Ok(t)) => t,
		Ok(Err(e)) => return Err(format!("full read refused: {e:#}")),
		Err(p) => return Err(format!("full read panicked at {}", p.site)),
	};
	let full = cfmodel::duke_proj::project(&tree).map_err(|e| format!("full read gives an inconsistent tree: {e}"))?;
	let reference = reference.unwrap_or_else(|| full.clone());
	let present = present_flags(&reference);
	let mut effective = Vec::new();
	let mut rest = Vec::new();
	for (l, flags) in FLAGS.iter().enumerate() {
		for i in 0..flags.len() {
			if present[l][i] { effective.push(Dev::Flag(l, i)) } else { rest.push(Dev::Flag(l, i)) }
		}
	}
	effective.push(Dev::DeclineClass);
	for i in 0..reference.fields.len() {
		effective.push(Dev::DeclineField(i as u16));
	}
	for (i, m) in reference.methods.iter().enumerate() {
		effective.push(Dev::DeclineMethod(i as u16));
		if m.code.is_some() { effective.push(Dev::NoCode(i as u16)) } else { rest.push(Dev::NoCode(i as u16)) }
	}
	for i in 0..reference.record.as_ref().map_or(0, |r| r.len()) {
		effective.push(Dev::DeclineRecord(i as u16));
	}
	// visitors of one class that answer interests() differently (only where there are at least two of them)
	let per_member = |level: usize, n: usize, has: &dyn Fn(usize) -> bool, out: &mut Vec<Dev>| {
		if (0..n).filter(|i| has(*i)).count() >= 2 {
			for i in (0..n).filter(|i| has(*i)) {
				out.push(Dev::MemberOff(level, i as u16));
				out.push(Dev::OnlyMember(level, i as u16));
			}
		}
	};
	per_member(visitors::FIELD, reference.fields.len(), &|_| true, &mut effective);
	per_member(visitors::METHOD, reference.methods.len(), &|_| true, &mut effective);
	per_member(visitors::CODE, reference.methods.len(), &|i| reference.methods[i].code.is_some(), &mut effective);
	per_member(RECORD, reference.record.as_ref().map_or(0, |r| r.len()), &|_| true, &mut effective);
	let n = effective.len();
	effective.extend(rest);
	if effective.len() >= CORNER_BASE as usize {
		vcore::machinery_fail("deviation alphabet too large");
	}
	let mut stream = bytes.clone();
	stream.extend_from_slice(&TAIL);
	Ok(ClassCase { label: label.to_owned(), family: family.to_owned(), hex: vcore::hex(&bytes), bytes, stream, tree, full, alphabet: effective, effective: n, max_dev })
}

impl ClassCase {
	fn plan_of(&self, devs: &[u16]) -> Plan {
		let mut p = Plan::default();
		for d in devs {
			if *d >= CORNER_BASE {
				let all_members = |p: &mut Plan| {
					p.decline_fields = (0..self.full.fields.len() as u16).collect();
					p.decline_methods = (0..self.full.methods.len() as u16).collect();
					p.decline_records = (0..self.full.record.as_ref().map_or(0, |r| r.len()) as u16).collect();
				};
				match d - CORNER_BASE {
					0 => p = Plan::all_off(),
					k @ 1..=5 => p.off[(k - 1) as usize] = Plan::all_off().off[(k - 1) as usize],
					6 => all_members(&mut p),
					7 => {
						p = Plan::all_off();
						all_members(&mut p);
					},
					_ => p.no_code = (0..self.full.methods.len() as u16).collect(),
				}
			} else {
				self.alphabet[*d as usize].apply(&mut p);
			}
		}
		p
	}
}

// ---------------------------------------------------------------------------------------------
// running the real code

fn read_at<V: MultiClassVisitor>(stream: &[u8], start: u64, visitor: V) -> Result<(anyhow::Result<V>, u64), vcore::Panic> {
	vcore::guard(|| {
		let mut cursor = Cursor::new(stream);
		cursor.set_position(start);
		let r = duke::read_class_multi(&mut cursor, visitor);
		(r, cursor.position())
	})
}

fn short(e: &anyhow::Error) -> String {
	let s = format!("{e:#}");
	let cut = s.char_indices().take_while(|(i, _)| *i < 300).last().map(|(i, c)| i + c.len_utf8()).unwrap_or(0);
	s[..cut].to_owned()
}

struct Counters {
	/// executions of real repository code (read_class_multi / accept calls)
	executions: AtomicU64,
	/// states / transitions whose observations were judged by the oracle
	judged: AtomicU64,
	/// answers given by the visitors (interests(), accept/decline, visit_code)
	decisions: AtomicU64,
	stats: Mutex<Stats>,
}

struct Judge<'a> {
	ctx: &'static Ctx,
	case: &'a ClassCase,
	plan: &'a Plan,
	st: &'a mut Stats,
	/// how this case is replayed
	replay: &'a dyn Fn() -> String,
	/// key prefix isolating the runs in which `visit_code()` answered `None` for code of interest
	nocode: bool,
}

impl Judge<'_> {
	fn diff(&mut self, origin: &str, key: &str, what: &str) {
		self.st.outcome(&format!("{origin}:differs"));
		let what = format!("{origin}:{key}: {} [{}] visitor answers: {}", what, self.case.label, self.plan.describe());
		// Every difference observed while READING with a visitor that answered `visit_code() = None` for
		// code it had declared interest in is one site: the reader does not skip the declined Code body.
		let key = if self.nocode && !origin.contains("replay") && !key.starts_with("panic@") {
			"visit_code-none:reader-does-not-skip-the-code".to_owned()
		} else {
			format!("{origin}:{key}")
		};
		self.ctx.diff(&key, &what, self.replay);
	}

	/// compares what a plan-driven visitor received with the filtered full read; returns the projection
	fn delivered(&mut self, origin: &str, simple: bool, out: &[ClassFile]) -> Option<(SClass, bool)> {
		if self.plan.decline_class {
			if out.is_empty() {
				self.st.outcome(&format!("{origin}:class-declined-nothing-delivered"));
			} else {
				self.diff(origin, "declined-class-delivered", "the visitor declined the class and still received one");
			}
			return None;
		}
		if out.len() != 1 {
			self.diff(origin, "class-not-delivered", &format!("expected exactly one class, the visitor holds {}", out.len()));
			return None;
		}
		let actual = match cfmodel::duke_proj::project(&out[0]) {
			Ok(a) => a,
			Err(e) => {
				self.diff(origin, "inconsistent-tree", &format!("the delivered items refer to a position that does not exist: {e}"));
				return None;
			},
		};
		let mut surplus = 0;
		let target = oracle::target(&self.case.full, self.plan, simple, Some(&actual), &mut surplus).unwrap_or_default();
		if surplus > 0 {
			self.st.outcome_n(&format!("{origin}:uninterested-items-delivered-correctly"), surplus);
		}
		let as_expected = target == actual;
		if as_expected {
			self.st.outcome(&format!("{origin}:as-full-read-filtered"));
		} else {
			for (k, d) in cfmodel::sdiff::diff(&target, &actual).0 {
				self.diff(origin, &k, &d);
			}
		}
		Some((actual, as_expected))
	}
}

/// One plan against one class: masked read (+ cursor), masked replay, the two compared; the same with
/// the harness's `SimpleClassVisitor` when the plan only deviates below the class level.
fn check_plan(ctx: &'static Ctx, cnt: &Counters, case: &ClassCase, plan: &Plan, st: &mut Stats) {
	let replay = || format!("case=mask\nlabel={}\nplan={}\nanswers: {}\nclass file bytes (hex):\n{}", case.label, plan.to_text(), plan.describe(), case.hex);
	let nocode = oracle::declines_code_of_interest(&case.full, plan);
	let mut j = Judge { ctx, case, plan, st, replay: &replay, nocode };
	let mut executions = 0u64;
	let mut decisions = 0u64;
	let mut distinct: Vec<u64> = Vec::new();

	let simple_applies = plan.off[CLASS] == 0 && plan.off[RECORD] == 0 && plan.decline_records.is_empty() && !plan.member_masks.iter().any(|(l, _, _)| *l as usize == RECORD);
	for simple in [false, true] {
		if simple && !simple_applies {
			continue;
		}
		let (read_origin, replay_origin) = if simple { ("simple-read", "simple-replay") } else { ("masked-read", "masked-replay") };
		// --- reading the bytes
		executions += 1;
		let observed = if simple {
			read_at(&case.stream, 0, SimpleMulti::new(plan)).map(|(r, pos)| (r.map(|v| (v.out, v.decisions, v.events)), pos))
		} else {
			read_at(&case.stream, 0, Multi::new(plan)).map(|(r, pos)| (r.map(|v| (v.out, v.decisions, v.events)), pos))
		};
		let mut from_read = None;
		let mut events_read = None;
		let mut events_replay = None;
		match observed {
			Err(p) => j.diff(read_origin, &format!("panic@{}", p.file()), &format!("the reader panicked at {}: {}", p.site, p.msg)),
			Ok((Err(e), _)) => j.diff(read_origin, "refused", &format!("reading a valid class fails with this visitor: {}", short(&e))),
			Ok((Ok((out, d, ev)), pos)) => {
				decisions += d;
				events_read = Some(ev);
				if pos != case.bytes.len() as u64 {
					j.diff(read_origin, "cursor-not-at-end-of-class", &format!("after the read the cursor is at {pos}, the class file ends at {}", case.bytes.len()));
				}
				from_read = j.delivered(read_origin, simple, &out);
			},
		}
		// --- replaying the in-memory tree
		executions += 1;
		let tree = case.tree.clone();
		let replayed = vcore::guard(|| if simple {
			tree.accept(SimpleMulti::new(plan)).map(|v| (v.out, v.decisions, v.events))
		} else {
			tree.accept(Multi::new(plan)).map(|v| (v.out, v.decisions, v.events))
		});
		let mut from_replay = None;
		match replayed {
			Err(p) => j.diff(replay_origin, &format!("panic@{}", p.file()), &format!("accept() panicked at {}: {}", p.site, p.msg)),
			Ok(Err(e)) => j.diff(replay_origin, "refused", &format!("replaying the tree fails with this visitor: {}", short(&e))),
			Ok(Ok((out, d, ev))) => {
				decisions += d;
				events_replay = Some(ev);
				from_replay = j.delivered(replay_origin, simple, &out);
			},
		}
		// --- the same answers must lead to the same deliveries
		// (compared when each side is, by itself, what the oracle allows: what can still differ is which
		// uninterested items were delivered)
		if let (Some((a, true)), Some((b, true))) = (&from_read, &from_replay) {
			let origin = "replay-vs-read";
			if a == b {
				j.st.outcome(&format!("{origin}:equal"));
			} else {
				// duke's tree holds one merged list for LocalVariableTable and LocalVariableTypeTable: when that list is empty
				// it cannot say which of the two attributes was the empty one, so with exactly one of the two interests on a
				// replay cannot know whether the reader would have met a table of interest. Not charged (information only).
				let which_empty_table_unknown = case.full.methods.iter().enumerate().any(|(i, m)| plan.on_m(visitors::CODE, i as u16, 2) != plan.on_m(visitors::CODE, i as u16, 3) && m.code.as_ref().is_some_and(|c| c.empty_local_table));
				for (k, d) in cfmodel::sdiff::diff(a, b).0 {
					if which_empty_table_unknown && k.starts_with("method.code.local_variables.empty_table") {
						j.st.outcome(&format!("{origin}:empty-local-table-of-unknown-kind:not-charged"));
						continue;
					}
					j.diff(origin, &k, &format!("reading the bytes (expected) and replaying the tree (got) deliver different items to the same visitor: {d}"));
				}
			}
		}
		// --- "the same events": the callbacks the class, method and code visitors received, by kind and number (the
		// tree builder merges or overwrites what it is told twice, so the trees alone would not show a repeated or a
		// split delivery); compared when both deliveries are, by themselves, what the oracle allows
		if let (Some((_, true)), Some((_, true)), Some(er), Some(ep)) = (&from_read, &from_replay, &events_read, &events_replay) {
			let which_empty_table_unknown = case.full.methods.iter().enumerate().any(|(i, m)| plan.on_m(visitors::CODE, i as u16, 2) != plan.on_m(visitors::CODE, i as u16, 3) && m.code.as_ref().is_some_and(|c| c.empty_local_table));
			let mut same = true;
			for (i, name) in visitors::EVENT_NAMES.iter().enumerate() {
				// not compared: visit_last_label. A label is a name for a position; which positions carry one depends on the
				// tables that were read (the end of the code is named only if an entry of interest ends there), while a
				// replay hands over every label the tree has. The positions themselves are compared through the projection.
				if i == visitors::EV_LAST_LABEL {
					continue;
				}
				if er[i] != ep[i] && !(which_empty_table_unknown && i == visitors::EV_LOCAL_VARIABLES) {
					same = false;
					j.diff("replay-vs-read", &format!("events:{name}"), &format!("reading the bytes makes {} calls of {name}, replaying the tree makes {} (same visitor answers)", er[i], ep[i]));
				}
			}
			if same {
				j.st.outcome("replay-vs-read:same-events");
			}
		}
		if let Some((a, _)) = &from_read {
			if *a != case.full {
				distinct.push(vcore::hash64(&(&case.label, simple, a)));
			}
		}
	}
	for h in distinct {
		j.st.distinct.add_hash(h);
	}
	j.st.evaluations += executions;
	cnt.executions.fetch_add(executions, Ordering::Relaxed);
	cnt.decisions.fetch_add(decisions, Ordering::Relaxed);
	cnt.judged.fetch_add(1, Ordering::Relaxed);
}

/// The default plan additionally: replaying into the repository's own tree builders reproduces the class,
/// and the `()` visitor walks the whole class (read and replay).
fn check_full_replay(ctx: &'static Ctx, cnt: &Counters, case: &ClassCase, st: &mut Stats) {
	let replay = || format!("case=mask\nlabel={}\nplan={}\nclass file bytes (hex):\n{}", case.label, Plan::default().to_text(), case.hex);
	let mut judge = |origin: &str, got: Result<anyhow::Result<Option<ClassFile>>, vcore::Panic>| {
		cnt.executions.fetch_add(1, Ordering::Relaxed);
		st.evaluations += 1;
		match got {
			Err(p) => ctx.diff(&format!("{origin}:panic@{}", p.file()), &format!("panicked at {}: {}", p.site, p.msg), replay),
			Ok(Err(e)) => ctx.diff(&format!("{origin}:refused"), &format!("[{}] {}", case.label, short(&e)), replay),
			Ok(Ok(None)) => ctx.diff(&format!("{origin}:class-not-delivered"), &format!("[{}] the tree builder holds no class", case.label), replay),
			Ok(Ok(Some(c))) => match cfmodel::duke_proj::project(&c) {
				Err(e) => ctx.diff(&format!("{origin}:inconsistent-tree"), &format!("[{}] {e}", case.label), replay),
				Ok(p) if p == case.full => st.outcome(&format!("{origin}:reproduces-the-class")),
				Ok(p) => {
					st.outcome(&format!("{origin}:differs"));
					for (k, d) in cfmodel::sdiff::diff(&case.full, &p).0 {
						ctx.diff(&format!("{origin}:{k}"), &format!("[{}] {d}", case.label), replay);
					}
				},
			},
		}
	};
	let t = case.tree.clone();
	judge("replay-into-Vec<ClassFile>", vcore::guard(|| t.accept(Vec::<ClassFile>::new()).map(|mut v| if v.len() == 1 { v.pop() } else { None })));
	let t = case.tree.clone();
	judge("replay-into-Option<ClassFile>", vcore::guard(|| t.accept(None::<ClassFile>)));
	// replaying a replayed tree once more (accept consumes the tree: the copy must be as good as the original)
	let t = case.tree.clone();
	judge("replay-of-replay", vcore::guard(|| t.accept(None::<ClassFile>).and_then(|c| match c {
		Some(c) => c.accept(None::<ClassFile>),
		None => Ok(None),
	})));
	// the unit visitor: every callback is made, nothing is kept; the read must end on the class boundary
	cnt.executions.fetch_add(2, Ordering::Relaxed);
	st.evaluations += 2;
	match read_at(&case.stream, 0, ()) {
		Err(p) => ctx.diff(&format!("unit-read:panic@{}", p.file()), &format!("panicked at {}: {}", p.site, p.msg), replay),
		Ok((Err(e), _)) => ctx.diff("unit-read:refused", &format!("[{}] {}", case.label, short(&e)), replay),
		Ok((Ok(()), pos)) if pos != case.bytes.len() as u64 => ctx.diff("unit-read:cursor-not-at-end-of-class", &format!("[{}] cursor at {pos}, class ends at {}", case.label, case.bytes.len()), replay),
		Ok((Ok(()), _)) => st.outcome("unit-read:ok"),
	}
	let t = case.tree.clone();
	match vcore::guard(|| t.accept(())) {
		Err(p) => ctx.diff(&format!("unit-replay:panic@{}", p.file()), &format!("panicked at {}: {}", p.site, p.msg), replay),
		Ok(Err(e)) => ctx.diff("unit-replay:refused", &format!("[{}] {}", case.label, short(&e)), replay),
		Ok(Ok(())) => st.outcome("unit-replay:ok"),
	}
}

// ---------------------------------------------------------------------------------------------
// graph 1: masks

struct MaskModel {
	ctx: &'static Ctx,
	cnt: &'static Counters,
	classes: &'static Vec<ClassCase>,
}

type MaskState = (u16, Vec<u16>);

impl MaskModel {
	fn check_state(&self, s: &MaskState) {
		let case = &self.classes[s.0 as usize];
		let plan = case.plan_of(&s.1);
		let mut st = Stats::new();
		vcore::watched(
			|| format!("case=mask\nlabel={}\nplan={}\nclass file bytes (hex):\n{}", case.label, plan.to_text(), case.hex),
			|| {
				check_plan(self.ctx, self.cnt, case, &plan, &mut st);
				if s.1.is_empty() {
					check_full_replay(self.ctx, self.cnt, case, &mut st);
				}
			},
		);
		for d in &s.1 {
			if *d >= CORNER_BASE {
				st.outcome("deviation:corner");
			} else {
				st.outcome(&format!("deviation:{}", case.alphabet[*d as usize].kind()));
			}
		}
		st.outcome(&format!("states-with-{}-deviations", if s.1.last().is_some_and(|d| *d >= CORNER_BASE) { "corner".to_owned() } else { s.1.len().to_string() }));
		// the same counters per family of classes (vacuity floors of the generated spaces)
		st.outcome(&format!("{}|states", case.family));
		for k in FAMILY_COUNTERS {
			let n = st.get(k);
			if n > 0 {
				st.outcome_n(&format!("{}|{k}", case.family), n);
			}
		}
		// samples: a fixed set of states of the first class (the set does not depend on scheduling)
		if s.0 == 0 && s.1.len() == 2 && s.1[1] == s.1[0] + 7 && s.1[0] % 16 == 3 {
			let text = plan.describe();
			st.sample(&format!("mask/{}", s.1[0]), || json!({"kind": "mask", "class": case.label, "class_file_bytes": case.bytes.len(), "visitor_answers": text, "plan": plan.to_text()}));
		}
		let mut g = self.cnt.stats.lock().unwrap_or_else(|e| e.into_inner());
		let merged = std::mem::take(&mut *g).merge(st);
		*g = merged;
	}
}

impl Model for MaskModel {
	type State = MaskState;
	type Action = u16;

	fn init_states(&self) -> Vec<MaskState> {
		(0..self.classes.len()).map(|c| (c as u16, Vec::new())).collect()
	}

	fn actions(&self, state: &MaskState, actions: &mut Vec<u16>) {
		let case = &self.classes[state.0 as usize];
		let devs = &state.1;
		if devs.last().is_some_and(|d| *d >= CORNER_BASE) {
			return;
		}
		if devs.is_empty() {
			actions.extend((0..CORNERS.len() as u16).map(|k| CORNER_BASE + k));
		}
		if devs.len() >= case.max_dev {
			return;
		}
		// deviations are added in canonical order, so every set is reached exactly once; flags naming an
		// attribute the class does not contain are explored as single deviations only
		let start = devs.last().map_or(0, |d| *d as usize + 1);
		let end = if devs.is_empty() { case.alphabet.len() } else { case.effective };
		actions.extend((start..end.max(start)).map(|d| d as u16));
	}

	fn next_state(&self, last: &MaskState, action: u16) -> Option<MaskState> {
		let mut devs = last.1.clone();
		devs.push(action);
		Some((last.0, devs))
	}

	fn properties(&self) -> Vec<Property<Self>> {
		// the oracle runs as a side effect on every state and reports every difference through the Ctx
		vec![Property::always("oracle evaluated", |m: &MaskModel, s: &MaskState| {
			m.check_state(s);
			true
		})]
	}
}

// ---------------------------------------------------------------------------------------------
// graph 2: streams

const KINDS: [&str; 9] = [
	"full:Vec<ClassFile>",
	"full:Option<ClassFile>",
	"unit:()",
	"decline-class",
	"masked:every-interest-off",
	"masked:mixed",
	"masked:every-member-declined",
	"simple-class-visitor",
	"masked:visit_code-none",
];

fn kind_plan(kind: u8, case: &ClassCase) -> Plan {
	match kind {
		3 => Plan { decline_class: true, ..Default::default() },
		4 => Plan::all_off(),
		5 => Plan {
			off: [0x15555, 0b101_0101, 0b1010_1010_1010, 0b010_1010, 0b10_1010],
			decline_fields: vec![0, 3],
			decline_methods: vec![1],
			decline_records: vec![0],
			..Default::default()
		},
		6 => case.plan_of(&[CORNER_BASE + 6]),
		7 => Plan { decline_fields: vec![1], decline_methods: vec![0], off: [0, 0b1, 0b10, 0b100, 0], ..Default::default() },
		8 => case.plan_of(&[CORNER_BASE + 8]),
		_ => Plan::default(),
	}
}

struct StreamCase {
	/// indices into the pool
	classes: Vec<usize>,
	bytes: Vec<u8>,
	/// boundaries[k] = offset at which class k starts; boundaries[n] = end of the last class
	boundaries: Vec<u64>,
}

struct StreamModel {
	ctx: &'static Ctx,
	cnt: &'static Counters,
	pool: &'static Vec<ClassCase>,
	streams: &'static Vec<StreamCase>,
}

#[derive(Clone, Debug, PartialEq, Eq, Hash)]
struct StreamState {
	stream: u32,
	/// the visitor kind used for each class read so far
	kinds: Vec<u8>,
	cursor: u64,
	/// a read failed or left the cursor off the boundary: nothing sensible can follow
	dead: bool,
}

fn stream_replay_text(pool: &[ClassCase], sc: &StreamCase, kinds: &[u8]) -> String {
	let mut s = format!("case=stream\nkinds={}\nvisitors: {}\nclasses={}\n", kinds.iter().map(|k| k.to_string()).collect::<Vec<_>>().join(","), kinds.iter().map(|k| KINDS[*k as usize]).collect::<Vec<_>>().join(" | "), sc.classes.len());
	for (i, c) in sc.classes.iter().enumerate() {
		s.push_str(&format!("class {i} [{}] bytes (hex):\n{}\n", pool[*c].label, pool[*c].hex));
	}
	s
}

/// one transition: the real reader reads class `k` of the stream from `cursor` with a visitor of `kind`
fn stream_step(ctx: &'static Ctx, cnt: &Counters, pool: &[ClassCase], sc: &StreamCase, kinds_so_far: &[u8], cursor: u64, kind: u8, st: &mut Stats) -> (u64, bool) {
	let k = kinds_so_far.len();
	let case = &pool[sc.classes[k]];
	let mut kinds = kinds_so_far.to_vec();
	kinds.push(kind);
	let replay = || stream_replay_text(pool, sc, &kinds);
	let plan = kind_plan(kind, case);
	let nocode = oracle::declines_code_of_interest(&case.full, &plan);
	let origin = format!("stream[{}]", KINDS[kind as usize]);
	let mut j = Judge { ctx, case, plan: &plan, st, replay: &replay, nocode };
	cnt.executions.fetch_add(1, Ordering::Relaxed);
	j.st.evaluations += 1;
	// (result, position) — the delivered classes are judged per kind
	let full_check = |j: &mut Judge, c: Option<ClassFile>| match c.as_ref().map(cfmodel::duke_proj::project) {
		None => j.diff(&origin, "class-not-delivered", &format!("class {k} of the stream was not delivered")),
		Some(Err(e)) => j.diff(&origin, "inconsistent-tree", &e),
		Some(Ok(p)) if p == j.case.full => j.st.outcome(&format!("{origin}:class-delivered")),
		Some(Ok(p)) => {
			for (key, d) in cfmodel::sdiff::diff(&j.case.full, &p).0 {
				j.diff(&origin, &key, &format!("class {k} of the stream differs from its single read: {d}"));
			}
		},
	};
	let observed: Result<(Result<(), String>, u64), vcore::Panic> = match kind {
		0 => read_at(&sc.bytes, cursor, Vec::<ClassFile>::new()).map(|(r, pos)| (r.map(|mut v| {
			let n = v.len();
			let c = if n == 1 { v.pop() } else { None };
			full_check(&mut j, c)
		}).map_err(|e| short(&e)), pos)),
		1 => read_at(&sc.bytes, cursor, None::<ClassFile>).map(|(r, pos)| (r.map(|c| full_check(&mut j, c)).map_err(|e| short(&e)), pos)),
		2 => read_at(&sc.bytes, cursor, ()).map(|(r, pos)| (r.map(|()| j.st.outcome(&format!("{origin}:walked"))).map_err(|e| short(&e)), pos)),
		7 => read_at(&sc.bytes, cursor, SimpleMulti::new(&plan)).map(|(r, pos)| (r.map(|v| {
			cnt.decisions.fetch_add(v.decisions, Ordering::Relaxed);
			j.delivered(&origin, true, &v.out);
		}).map_err(|e| short(&e)), pos)),
		_ => read_at(&sc.bytes, cursor, Multi::new(&plan)).map(|(r, pos)| (r.map(|v| {
			cnt.decisions.fetch_add(v.decisions, Ordering::Relaxed);
			j.delivered(&origin, false, &v.out);
		}).map_err(|e| short(&e)), pos)),
	};
	cnt.judged.fetch_add(1, Ordering::Relaxed);
	match observed {
		Err(p) => {
			j.diff(&origin, &format!("panic@{}", p.file()), &format!("reading class {k} of the stream panicked at {}: {}", p.site, p.msg));
			(cursor, true)
		},
		Ok((Err(e), _)) => {
			j.diff(&origin, "refused", &format!("reading class {k} of a stream of {} valid classes fails: {e}", sc.classes.len()));
			(cursor, true)
		},
		Ok((Ok(()), pos)) => {
			let want = sc.boundaries[k + 1];
			if pos == want {
				j.st.outcome(&format!("cursor-on-boundary-after-read-{}", k + 1));
				(pos, false)
			} else {
				j.diff(&origin, "cursor-not-at-boundary", &format!("after read {} the cursor is at {pos}, the class ends at {want}", k + 1));
				(pos, true)
			}
		},
	}
}

impl Model for StreamModel {
	type State = StreamState;
	type Action = u8;

	fn init_states(&self) -> Vec<StreamState> {
		(0..self.streams.len()).map(|s| StreamState { stream: s as u32, kinds: Vec::new(), cursor: 0, dead: false }).collect()
	}

	fn actions(&self, state: &StreamState, actions: &mut Vec<u8>) {
		if !state.dead && state.kinds.len() < self.streams[state.stream as usize].classes.len() {
			actions.extend(0..KINDS.len() as u8);
		}
	}

	fn next_state(&self, last: &StreamState, action: u8) -> Option<StreamState> {
		let sc = &self.streams[last.stream as usize];
		let mut st = Stats::new();
		let (cursor, dead) = vcore::watched(
			|| {
				let mut kinds = last.kinds.clone();
				kinds.push(action);
				stream_replay_text(self.pool, sc, &kinds)
			},
			|| stream_step(self.ctx, self.cnt, self.pool, sc, &last.kinds, last.cursor, action, &mut st),
		);
		let mut kinds = last.kinds.clone();
		kinds.push(action);
		if sc.classes == [0, 2, 4] && [[0u8, 3, 5], [2, 7, 4], [4, 6, 1]].contains(&[kinds[0], *kinds.get(1).unwrap_or(&99), *kinds.get(2).unwrap_or(&99)]) {
			st.sample(&format!("stream/{kinds:?}"), || json!({"kind": "stream", "classes": sc.classes.iter().map(|c| self.pool[*c].label.clone()).collect::<Vec<_>>(), "boundaries": sc.boundaries, "visitors": kinds.iter().map(|k| KINDS[*k as usize]).collect::<Vec<_>>(), "cursor_after_last_read": cursor}));
		}
		{
			let mut g = self.cnt.stats.lock().unwrap_or_else(|e| e.into_inner());
			let merged = std::mem::take(&mut *g).merge(st);
			*g = merged;
		}
		Some(StreamState { stream: last.stream, kinds, cursor, dead })
	}

	fn properties(&self) -> Vec<Property<Self>> {
		vec![Property::always("every transition judged", |_: &StreamModel, _: &StreamState| true)]
	}
}

/// one `Vec<ClassFile>` carried through all reads of a stream: after the k-th read it holds k classes
fn stream_carry(ctx: &'static Ctx, cnt: &Counters, pool: &[ClassCase], sc: &StreamCase, st: &mut Stats) {
	let kinds = vec![0u8; sc.classes.len()];
	let replay = || stream_replay_text(pool, sc, &kinds);
	let mut cursor = Cursor::new(&sc.bytes[..]);
	let mut acc: Vec<ClassFile> = Vec::new();
	for k in 0..sc.classes.len() {
		cnt.executions.fetch_add(1, Ordering::Relaxed);
		st.evaluations += 1;
		let taken = std::mem::take(&mut acc);
		match vcore::guard(|| duke::read_class_multi(&mut cursor, taken)) {
			Ok(Ok(v)) => acc = v,
			Ok(Err(e)) => {
				ctx.diff("stream[carried Vec<ClassFile>]:refused", &short(&e), replay);
				return;
			},
			Err(p) => {
				ctx.diff(&format!("stream[carried Vec<ClassFile>]:panic@{}", p.file()), &p.msg, replay);
				return;
			},
		}
		if acc.len() != k + 1 || cursor.position() != sc.boundaries[k + 1] {
			ctx.diff("stream[carried Vec<ClassFile>]:one-class-per-read", &format!("after read {} the builder holds {} classes and the cursor is at {} (boundary {})", k + 1, acc.len(), cursor.position(), sc.boundaries[k + 1]), replay);
			return;
		}
	}
	for (k, c) in acc.iter().enumerate() {
		match cfmodel::duke_proj::project(c) {
			Ok(p) if p == pool[sc.classes[k]].full => st.outcome("stream[carried Vec<ClassFile>]:class-delivered"),
			_ => ctx.diff("stream[carried Vec<ClassFile>]:class-differs", &format!("class {k} of the stream differs from its single read"), replay),
		}
	}
	// the same by replay: every class of the stream replayed into ONE tree builder that already holds the classes before it
	cnt.executions.fetch_add(acc.len() as u64, Ordering::Relaxed);
	st.evaluations += acc.len() as u64;
	let trees = acc.clone();
	match vcore::guard(|| trees.into_iter().try_fold(Vec::<ClassFile>::new(), |carried, c| c.accept(carried))) {
		Err(p) => ctx.diff(&format!("stream[carried Vec<ClassFile>]:replay:panic@{}", p.file()), &p.msg, replay),
		Ok(Err(e)) => ctx.diff("stream[carried Vec<ClassFile>]:replay:refused", &short(&e), replay),
		Ok(Ok(carried)) => {
			let same = carried.len() == acc.len() && carried.iter().zip(sc.classes.iter()).all(|(c, i)| cfmodel::duke_proj::project(c).is_ok_and(|p| p == pool[*i].full));
			if same {
				st.outcome("stream[carried Vec<ClassFile>]:replayed-into-one-carried-Vec");
			} else {
				ctx.diff("stream[carried Vec<ClassFile>]:replay:one-class-per-accept", &format!("replaying the {} classes of the stream into one tree builder leaves it with {} classes, or with other classes", acc.len(), carried.len()), replay);
			}
		},
	}
}

// ---------------------------------------------------------------------------------------------

fn sink(variant: usize, order: AttrOrder, label: &str, max_dev: usize) -> ClassCase {
	let mut m = cfmodel::gen::kitchen_sink(variant);
	cfmodel::gen::normalize(&mut m);
	let enc = Encoding { attr_order: order, ..Default::default() };
	let bytes = match assemble(&m, &enc) {
		Ok(b) => b,
		Err(e) => vcore::machinery_fail(&format!("{label}: assembler: {e:?}")),
	};
	match cfmodel::parse(&bytes) {
		Ok(p) if p.class == m => {},
		_ => vcore::machinery_fail(&format!("{label}: assembler and reference parser disagree")),
	}
	build_case_with(label, "sink", bytes, max_dev, Some(&m), false).unwrap_or_else(|e| vcore::machinery_fail(&format!("{label}: {e}")))
}

/// Generated corner cases the corpus cannot contain: classes WITHOUT ANY class-level attribute (javac always
/// writes SourceFile). For them the last thing a declining read does is read `attributes_count`, not skip an
/// attribute, which is a different end-of-class path of the reader.
fn bare_classes(max_dev: usize) -> Vec<ClassCase> {
	use cfmodel::gen::{class_with_method, js, skeleton, RETURN};
	let bare = skeleton("p/Bare");
	let mut members = class_with_method("p/BareWithMembers", vec![RETURN]);
	members.fields.push(cfmodel::SField { access: 0x0002, name: js("f"), desc: js("I"), ..Default::default() });
	[("bare/no-members-no-attributes", bare), ("bare/members-but-no-class-attributes", members)].into_iter().map(|(label, mut m)| {
		cfmodel::gen::normalize(&mut m);
		let bytes = assemble(&m, &Encoding::default()).unwrap_or_else(|e| vcore::machinery_fail(&format!("{label}: assembler: {e:?}")));
		match cfmodel::parse(&bytes) {
			Ok(p) if p.class == m => {},
			_ => vcore::machinery_fail(&format!("{label}: assembler and reference parser disagree")),
		}
		build_case_with(label, "bare", bytes, max_dev, Some(&m), false).unwrap_or_else(|e| vcore::machinery_fail(&format!("{label}: {e}")))
	}).collect()
}

/// the generated classes by label (a replay file may name one instead of carrying its bytes)
const SINKS: [(&str, usize, AttrOrder); 6] = [
	("sink2/attrs-default", 2, AttrOrder::Default),
	("sink2/attrs-reversed", 2, AttrOrder::Reversed),
	("sink2/attrs-rotated5", 2, AttrOrder::Rotated(5)),
	("sink1/attrs-rotated3", 1, AttrOrder::Rotated(3)),
	("sink0/attrs-reversed", 0, AttrOrder::Reversed),
	("sink5/attrs-rotated11", 5, AttrOrder::Rotated(11)),
];

/// corpus classes explored one deviation deeper (chosen for what they contain, see the bounds in the evidence)
const SELECTION: [&str; 16] = [
	"mod/module-info.class",
	"openmod/module-info.class",
	"main/corpus/anno/AnnoUse.class",
	"main/corpus/anno/Annos$All.class",
	"main/corpus/anno/package-info.class",
	"main/corpus/rec/Records$Annotated.class",
	"main/corpus/rec/Records$Empty.class",
	"main/corpus/rec/Shape.class",
	"main/corpus/lambda/Lambdas$Sub.class",
	"main/corpus/nest/Outer$Inner$Deeper$Deepest.class",
	"main/corpus/nest/Planet$Kind.class",
	"main/corpus/misc/Misc$PrivIface.class",
	"main/corpus/flow/TryCatch$Res.class",
	"main/corpus/generics/Generics$Derived.class",
	"main8/corpus/anno/AnnoUse$E.class",
	"main11/corpus/nest/Iface8.class",
];

/// thorough tier: corpus classes with at most this many deviations naming something present are explored to 3 deviations
const SMALL_ALPHABET: usize = 40;

const STREAM_POOL: [&str; 5] = [
	"mod/module-info.class",
	"main/corpus/rec/Records$Annotated.class",
	"main/corpus/misc/Misc$PrivIface.class",
	"main/corpus/lambda/Lambdas$Sub.class",
	"main/corpus/anno/AnnoUse.class",
];


// ---------------------------------------------------------------------------------------------
// space 3: generated classes

/// suite groups of `cfmodel::suite` explored by the mask graph (the other groups vary instruction encodings and pool
/// layouts, which no skipping path looks at: C01's business)
const SUITE_GROUPS: [&str; 4] = ["attribute-orders-and-contents", "versions-and-utf8", "cldc-stack-map", "empty-debug-tables"];

struct Space3 {
	cases: Vec<ClassCase>,
	/// generated classes the FULL read refuses: outside the domain of the statement (label, family, bytes)
	refused: Vec<(String, String, Vec<u8>)>,
	/// classes beyond the reach of the reference parser / of which the full read states exactly the generated model
	beyond_parser: u64,
	beyond_parser_confirmed: u64,
	unencodable: u64,
	listed: u64,
}

enum Built {
	Case(Box<ClassCase>, bool, bool),
	Refused(String, String, Vec<u8>),
	Unencodable,
}

fn space3(ctx: &'static Ctx) -> Space3 {
	let quick = ctx.quick();
	let mut listed: Vec<gen::Generated> = Vec::new();
	let depths: Vec<usize> = (0..=gen::READER_DEPTH + 2).collect();
	listed.extend(gen::nesting(&depths));
	listed.extend(gen::big());
	listed.extend(gen::names());
	let rotations: Vec<usize> = if quick { vec![0, 1, 2, 3, 5, 7, 11, 13] } else { (0..24).collect() };
	listed.extend(gen::split(&rotations));
	for (group, cases) in cfmodel::suite::listed_groups(quick) {
		let Some(family) = SUITE_GROUPS.iter().find(|g| **g == group) else { continue };
		let family: &'static str = Box::leak(format!("suite/{family}").into_boxed_str());
		for (label, model, enc) in cases {
			listed.push(gen::Generated { label: format!("suite/{label}"), family, model, enc, max_dev: (1, 1), beyond_parser: false });
		}
	}
	let n_listed = listed.len() as u64;
	let built: Vec<Built> = listed.par_iter().map(|g| {
		let bytes = match assemble(&g.model, &g.enc) {
			Ok(b) => b,
			Err(cfmodel::asm::AsmError::Unencodable(_)) => return Built::Unencodable,
			Err(e) => vcore::machinery_fail(&format!("{}: assembler: {e:?}", g.label)),
		};
		// self-check of the assembler; element values nested deeper than the reference parser reads (its own limit) cannot
		// be read back: for those the floor on `project(full read) == model` stands in
		let beyond_parser = match cfmodel::parse(&bytes) {
			Ok(p) if p.class == g.model => false,
			Ok(_) => vcore::machinery_fail(&format!("{}: assembler and reference parser disagree", g.label)),
			Err(e) if g.beyond_parser && format!("{e}").contains("element values nest deeper") => true,
			Err(e) => vcore::machinery_fail(&format!("{}: the reference parser rejects a generated class: {e}", g.label)),
		};
		match build_case_with(&g.label, g.family, bytes.clone(), ctx.tier.pick(g.max_dev.0, g.max_dev.1), Some(&g.model), false) {
			Ok(mut c) => {
				// thorough: a suite class with a small alphabet is explored one deviation deeper
				if !quick && g.family.starts_with("suite/") && c.effective <= SMALL_ALPHABET {
					c.max_dev = 2;
				}
				let confirmed = c.full == g.model;
				Built::Case(Box::new(c), beyond_parser, confirmed)
			},
			Err(_) => Built::Refused(g.label.clone(), g.family.to_owned(), bytes),
		}
	}).collect();
	let mut out = Space3 { cases: Vec::new(), refused: Vec::new(), beyond_parser: 0, beyond_parser_confirmed: 0, unencodable: 0, listed: n_listed };
	for b in built {
		match b {
			Built::Case(c, beyond, confirmed) => {
				out.beyond_parser += beyond as u64;
				out.beyond_parser_confirmed += (beyond && confirmed) as u64;
				out.cases.push(*c);
			},
			Built::Refused(l, f, b) => out.refused.push((l, f, b)),
			Built::Unencodable => out.unencodable += 1,
		}
	}
	out
}

/// A class the full read refuses is outside the domain of the statement: whatever a partial read makes of it is
/// accepted, except a panic (or a hang: the watchdog).
fn check_refused(ctx: &'static Ctx, cnt: &Counters, label: &str, family: &str, bytes: &[u8], st: &mut Stats) {
	let replay = || format!("case=mask\nlabel={label}\nplan={}\nclass file bytes (hex):\n{}", Plan::default().to_text(), vcore::hex(bytes));
	let mut stream = bytes.to_vec();
	stream.extend_from_slice(&TAIL);
	let all_off = Plan::all_off();
	let default = Plan::default();
	let decline = Plan { decline_class: true, ..Default::default() };
	let mut judge = |what: &str, r: Result<bool, vcore::Panic>| {
		cnt.executions.fetch_add(1, Ordering::Relaxed);
		st.evaluations += 1;
		match r {
			Err(p) => ctx.diff(&format!("outside-the-domain:{what}:panic@{}", p.file()), &format!("[{label}] the full read refuses this class; reading it with {what} panicked at {}: {}", p.site, p.msg), replay),
			Ok(ok) => st.outcome(&format!("{family}|refused-by-the-full-read:{what}:{}", if ok { "read" } else { "refused" })),
		}
	};
	judge("every-interest-off", read_at(&stream, 0, Multi::new(&all_off)).map(|(r, _)| r.is_ok()));
	judge("every-interest-on", read_at(&stream, 0, Multi::new(&default)).map(|(r, _)| r.is_ok()));
	judge("decline-class", read_at(&stream, 0, Multi::new(&decline)).map(|(r, _)| r.is_ok()));
	judge("simple-class-visitor", read_at(&stream, 0, SimpleMulti::new(&default)).map(|(r, _)| r.is_ok()));
	judge("unit", read_at(&stream, 0, ()).map(|(r, _)| r.is_ok()));
}

macro_rules! run_checker {
	($model:expr) => {{
		let checker = $model.checker().threads(rayon::current_num_threads().max(1)).spawn_bfs().join();
		if !checker.is_done() {
			vcore::machinery_fail("stateright did not finish the state space");
		}
		(checker.unique_state_count() as u64, checker.state_count() as u64, checker.max_depth())
	}};
}

fn new_counters() -> &'static Counters {
	Box::leak(Box::new(Counters { executions: AtomicU64::new(0), judged: AtomicU64::new(0), decisions: AtomicU64::new(0), stats: Mutex::new(Stats::new()) }))
}

fn main() {
	let ctx: &'static Ctx = Box::leak(Box::new(Ctx::new("C17", "model_checking")));
	if let Some(path) = ctx.replay.clone() {
		replay(ctx, &path);
	}
	let quick = ctx.quick();
	let deep = ctx.tier.pick(2, 3);

	// ---- the classes
	let mut classes: Vec<ClassCase> = Vec::new();
	let mut skipped: Vec<String> = Vec::new();
	let sink_orders = &SINKS[..3];
	for (label, variant, order) in sink_orders.iter().cloned() {
		classes.push(sink(variant, order, label, deep));
	}
	if !quick {
		for (label, variant, order) in SINKS[3..].iter().cloned() {
			classes.push(sink(variant, order, label, 2));
		}
	}
	classes.extend(bare_classes(deep));
	let corpus = cfmodel::corpus::vendored(&vcore::verif_root());
	let n_corpus = corpus.len();
	let mut n_selected = 0u64;
	let mut n_small = 0u64;
	for (name, bytes) in &corpus {
		let selected = SELECTION.contains(&name.as_str());
		// quick: the selection with ≤2 deviations, every other corpus class with ≤1;
		// thorough: the selection with ≤3, every other corpus class with ≤2
		let max_dev = if selected { deep } else { deep - 1 };
		n_selected += selected as u64;
		match build_case(&format!("corpus/{name}"), bytes.clone(), max_dev) {
			Ok(mut c) => {
				// thorough: every class with a small alphabet goes as deep as the selection
				if !quick && c.effective <= SMALL_ALPHABET {
					n_small += (c.max_dev < deep) as u64;
					c.max_dev = deep;
				}
				classes.push(c)
			},
			Err(e) => skipped.push(format!("{name}: {e}")),
		}
	}
	for s in &skipped {
		ctx.note(format!("class left out (its FULL read is not usable as a reference; C01's business): {s}"));
	}
	let n_before_space3 = classes.len();
	let sp3 = space3(ctx);
	let (sp3_refused, sp3_beyond, sp3_confirmed, sp3_unencodable, sp3_listed) = (sp3.refused, sp3.beyond_parser, sp3.beyond_parser_confirmed, sp3.unencodable, sp3.listed);
	classes.extend(sp3.cases);
	if classes.len() >= u16::MAX as usize {
		vcore::machinery_fail("too many classes for the state encoding");
	}
	let mut family_classes: std::collections::BTreeMap<String, u64> = std::collections::BTreeMap::new();
	for c in &classes[n_before_space3..] {
		*family_classes.entry(c.family.clone()).or_insert(0) += 1;
	}
	let t_classes = ctx.elapsed_s();
	let classes: &'static Vec<ClassCase> = Box::leak(Box::new(classes));
	let n_classes = classes.len();
	let alphabet_sizes: Vec<usize> = classes.iter().take(3).map(|c| c.alphabet.len()).collect();
	let effective_sizes: Vec<usize> = classes.iter().take(3).map(|c| c.effective).collect();

	// ---- graph 1
	let cnt1 = new_counters();
	let (m_states, m_generated, m_depth) = run_checker!(MaskModel { ctx, cnt: cnt1, classes });
	let mut mask_stats = std::mem::take(&mut *cnt1.stats.lock().unwrap_or_else(|e| e.into_inner()));
	let mut refused_families: std::collections::BTreeMap<String, u64> = std::collections::BTreeMap::new();
	for (label, family, bytes) in &sp3_refused {
		*refused_families.entry(family.clone()).or_insert(0) += 1;
		vcore::watched(|| format!("case=mask\nlabel={label}\nplan={}\nclass file bytes (hex):\n{}", Plan::default().to_text(), vcore::hex(bytes)), || check_refused(ctx, cnt1, label, family, bytes, &mut mask_stats));
	}
	let t_masks = ctx.elapsed_s();

	// ---- graph 2
	let mut pool: Vec<ClassCase> = Vec::new();
	for (label, variant, order) in sink_orders.iter().cloned().take(if quick { 2 } else { 3 }) {
		pool.push(sink(variant, order, label, 0));
	}
	for name in STREAM_POOL.iter().take(if quick { 3 } else { 5 }) {
		let bytes = corpus.iter().find(|(n, _)| n == name).map(|(_, b)| b.clone()).unwrap_or_else(|| vcore::machinery_fail(&format!("corpus class {name} missing")));
		pool.push(build_case(&format!("corpus/{name}"), bytes, 0).unwrap_or_else(|e| vcore::machinery_fail(&format!("{name}: {e}"))));
	}
	pool.extend(bare_classes(0));
	let pool: &'static Vec<ClassCase> = Box::leak(Box::new(pool));
	let mut streams: Vec<StreamCase> = Vec::new();
	for len in 1..=3usize {
		let total = pool.len().pow(len as u32);
		for mut idx in 0..total {
			let mut cls = vec![0usize; len];
			for i in (0..len).rev() {
				cls[i] = idx % pool.len();
				idx /= pool.len();
			}
			let mut bytes = Vec::new();
			let mut boundaries = vec![0u64];
			for c in &cls {
				bytes.extend_from_slice(&pool[*c].bytes);
				boundaries.push(bytes.len() as u64);
			}
			bytes.extend_from_slice(&TAIL);
			streams.push(StreamCase { classes: cls, bytes, boundaries });
		}
	}
	let streams: &'static Vec<StreamCase> = Box::leak(Box::new(streams));
	let cnt2 = new_counters();
	let (s_states, s_generated, s_depth) = run_checker!(StreamModel { ctx, cnt: cnt2, pool, streams });
	let mut stream_stats = std::mem::take(&mut *cnt2.stats.lock().unwrap_or_else(|e| e.into_inner()));
	for sc in streams.iter() {
		stream_carry(ctx, cnt2, pool, sc, &mut stream_stats);
	}
	let t_streams = ctx.elapsed_s();

	// ---- space 4
	let env_max_class = ctx.tier.pick(4000, usize::MAX);
	let env = env::run(ctx, pool, streams, !quick, env_max_class);
	let env_stats = env.stats;

	// ---- evidence
	let states = m_states + s_states;
	let transitions = (m_generated - n_classes as u64) + (s_generated - streams.len() as u64);
	let judged = cnt1.judged.load(Ordering::Relaxed) + cnt2.judged.load(Ordering::Relaxed);
	let executions = cnt1.executions.load(Ordering::Relaxed) + cnt2.executions.load(Ordering::Relaxed) + env.executions;
	let decisions = cnt1.decisions.load(Ordering::Relaxed) + cnt2.decisions.load(Ordering::Relaxed);

	ctx.floor("classes explored", ctx.tier.pick(100, 300), n_classes as u64);
	ctx.floor("every mask state judged by the oracle", m_states, cnt1.judged.load(Ordering::Relaxed));
	ctx.floor("every stream transition judged by the oracle", s_generated - streams.len() as u64, cnt2.judged.load(Ordering::Relaxed));
	ctx.floor("masked reads equal to the filtered full read", 1000, mask_stats.get("masked-read:as-full-read-filtered"));
	ctx.floor("masked replays equal to the filtered full read", 1000, mask_stats.get("masked-replay:as-full-read-filtered"));
	ctx.floor("SimpleClassVisitor reads equal to the filtered full read", 500, mask_stats.get("simple-read:as-full-read-filtered"));
	ctx.floor("distinct partial results that differ from the full read", 1000, mask_stats.distinct.len());
	ctx.floor("declined classes that delivered nothing", 100, mask_stats.get("masked-read:class-declined-nothing-delivered"));
	for kind in ["flag-off:class", "flag-off:field", "flag-off:method", "flag-off:code", "flag-off:record", "decline-class", "decline-field", "decline-method", "decline-record-component", "visit_code-none", "corner"] {
		ctx.floor(&format!("states with deviation {kind}"), 20, mask_stats.get(&format!("deviation:{kind}")));
	}
	ctx.floor("states with two deviations", 1000, mask_stats.get("states-with-2-deviations"));
	if !quick {
		ctx.floor("states with three deviations", 10000, mask_stats.get("states-with-3-deviations"));
	}
	ctx.floor("full replays that reproduce the class", n_classes as u64, mask_stats.get("replay-into-Vec<ClassFile>:reproduces-the-class"));
	ctx.floor("stream reads ending on the boundary of class 2", 100, stream_stats.get("cursor-on-boundary-after-read-2"));
	ctx.floor("stream reads ending on the boundary of class 3", 100, stream_stats.get("cursor-on-boundary-after-read-3"));
	ctx.floor("streams read into one carried Vec<ClassFile>", streams.len() as u64, stream_stats.get("stream[carried Vec<ClassFile>]:class-delivered").min(streams.len() as u64));
	ctx.floor("streams replayed into one carried Vec<ClassFile>", streams.len() as u64, stream_stats.get("stream[carried Vec<ClassFile>]:replayed-into-one-carried-Vec"));
	// space 3
	let fam = |family: &str, counter: &str| mask_stats.get(&format!("{family}|{counter}"));
	let n_bound = (gen::NEST_SITES.len() * gen::NEST_KINDS.len()) as u64;
	let at_bound = family_classes.get("nesting/at-the-reader-bound").copied().unwrap_or(0);
	let below_bound = family_classes.get("nesting/below-the-reader-bound").copied().unwrap_or(0);
	ctx.floor("nesting: classes nested as deep as the reader accepts, read in full (every site x every shape)", n_bound, at_bound);
	ctx.floor("nesting: classes of every smaller depth, read in full", n_bound * gen::READER_DEPTH as u64, below_bound);
	ctx.floor("nesting: full reads beyond the reach of the reference parser that state exactly the generated model", sp3_beyond, sp3_confirmed);
	ctx.floor("nesting: replays into the tree builder that reproduce a class nested as deep as the reader accepts", n_bound, fam("nesting/at-the-reader-bound", "replay-into-Vec<ClassFile>:reproduces-the-class"));
	ctx.floor("nesting: masked replays of classes nested as deep as the reader accepts, equal to the filtered full read", n_bound * 10, fam("nesting/at-the-reader-bound", "masked-replay:as-full-read-filtered"));
	ctx.floor("nesting: masked reads of classes nested as deep as the reader accepts, equal to the filtered full read", n_bound * 10, fam("nesting/at-the-reader-bound", "masked-read:as-full-read-filtered"));
	ctx.floor("nesting: masked replays below the bound equal to the filtered full read", below_bound * 5, fam("nesting/below-the-reader-bound", "masked-replay:as-full-read-filtered"));
	for (family, classes_required, reads_required) in [("big", 2u64, 100u64), ("names", 16, 500), ("split", 8, 500), ("suite/attribute-orders-and-contents", 200, 5000), ("suite/versions-and-utf8", 40, 200), ("suite/cldc-stack-map", 28, 200), ("suite/empty-debug-tables", 42, 500)] {
		ctx.floor(&format!("{family}: classes read in full"), classes_required, family_classes.get(family).copied().unwrap_or(0));
		ctx.floor(&format!("{family}: masked reads equal to the filtered full read"), reads_required, fam(family, "masked-read:as-full-read-filtered"));
		ctx.floor(&format!("{family}: masked replays equal to the filtered full read"), reads_required, fam(family, "masked-replay:as-full-read-filtered"));
	}
	// space 4
	ctx.floor("environment: stream cases", ctx.tier.pick(200, 500), env.cases);
	ctx.floor("environment: reads through a reader that served requests short, equal to the reads from a cursor", ctx.tier.pick(5_000, 50_000), env_stats.get("environment:equal-with-requests-served-short"));
	ctx.floor("environment: reads with Interrupted answers, equal to the reads from a cursor", ctx.tier.pick(300, 1_000), env_stats.get("environment:equal-with-interrupts"));
	ctx.floor("environment: reads through a BufReader, equal to the reads from a cursor", ctx.tier.pick(1_000, 5_000), env_stats.get("environment:equal-through-a-BufReader"));

	let mut samples: Vec<Value> = mask_stats.samples.clone();
	samples.extend(stream_stats.samples.iter().cloned());
	samples.sort_by_key(|v| v.to_string());
	samples.push(json!({"kind": "class", "label": classes[0].label, "class_file_hex_prefix": vcore::hex(&classes[0].bytes[..classes[0].bytes.len().min(96)]), "bytes": classes[0].bytes.len(), "fields": classes[0].full.fields.len(), "methods": classes[0].full.methods.len(), "deviation_alphabet": classes[0].alphabet.len(), "of_which_name_something_present": classes[0].effective}));
	let mut outcomes = mask_stats.outcomes.clone();
	for (k, v) in stream_stats.outcomes.iter().chain(env_stats.outcomes.iter()) {
		*outcomes.entry(k.clone()).or_insert(0) += v;
	}
	let generated_json = json!({
				"listed": sp3_listed,
				"explored_per_family": family_classes,
				"refused_by_the_full_read_per_family (outside the domain; read with 5 visitors for panics only)": refused_families,
				"unencodable (skipped)": sp3_unencodable,
				"nesting": {
					"depths": format!("every depth 0..={}", gen::READER_DEPTH + 2),
					"shapes": gen::NEST_KINDS,
					"sites": gen::NEST_SITES,
					"max_deviations": format!("depths {:?}: {}; every other depth: {} (plus the corners)", gen::NEST_BOUNDARY_DEPTHS, ctx.tier.pick(1, 2), ctx.tier.pick(0, 1)),
					"beyond_the_reference_parser": sp3_beyond,
				},
				"big": "attribute_length > 65535 at class / field / method / code / record-component level (unknown attributes of 65535, 65536, 65537, 66000, 70000 bytes; SourceDebugExtension, NestMembers, Exceptions, LineNumberTable, LocalVariableTable, an annotation and a Code attribute beyond 64 KiB); 2 attribute orders",
				"names": "unknown attributes at all five levels: every predefined name at every level where it is not predefined; six near-miss spellings of every predefined name; multi-byte names; 2 attribute orders",
				"split": format!("kitchen sinks 2 and 1 with one table attribute per entry, attribute rotations {rotations:?}, frames extended or not", rotations = if quick { vec![0usize, 1, 2, 3, 5, 7, 11, 13] } else { (0..24).collect::<Vec<_>>() }),
				"suite_groups": SUITE_GROUPS,
				"max_deviations_generated": {"big": [1, ctx.tier.pick(1, 2)], "names": ctx.tier.pick(1, 2), "split": 1, "suite": format!("1{}", if quick { "" } else { "; 2 for classes with at most 40 deviations naming something present" })},
			});
	let environment_json = json!({
				"streams": "every ordered pair of classes of the stream pool (quick: classes up to 4000 bytes)",
				"visitor_kind_sequences": env::kind_sequences().iter().map(|s| format!("{} | {}", KINDS[s[0] as usize], KINDS[s[1] as usize])).collect::<Vec<_>>(),
				"readers": format!("{:?} + one boundary at each of the 22 offsets around the class boundary + {}", env::alphabet(0, 0, !quick), if quick { "a grid of 41 offsets" } else { "one boundary at every offset (streams up to 1500 bytes; a grid of 211 offsets beyond)" }),
	});
	let coverage = json!({
		"states": states,
		"transitions": transitions,
		"traces_validated_against_impl": judged,
		"max_depth": m_depth.max(s_depth),
		"evaluations": executions,
		"distinct_nontrivial": mask_stats.distinct.len(),
		"rule": "mask graph: a state is (class, set of deviating visitor answers added in canonical decision order); on every state the real duke::read_class_multi runs with a visitor giving exactly these answers (and ClassFile::accept replays the tree into the same visitor) and the delivered items are compared with the full read of the same bytes filtered by the answers; stream graph: a state is (stream, visitor kind per class read so far, cursor), every transition is one real read_class_multi on the shared cursor. evaluations = calls of read_class_multi / accept; distinct_nontrivial = distinct (class, delivered result) pairs that differ from the full read",
		"exhaustive": true,
		"samples": samples,
		"outcomes": outcomes,
		"visitor_answers_given": decisions,
		"graphs": {
			"masks": {"states": m_states, "generated": m_generated, "max_depth": m_depth, "real_code_executions": cnt1.executions.load(Ordering::Relaxed), "wall_s": (t_masks * 10.0).round() / 10.0},
			"streams": {"states": s_states, "generated": s_generated, "max_depth": s_depth, "real_code_executions": cnt2.executions.load(Ordering::Relaxed), "streams": streams.len(), "wall_s": ((t_streams - t_masks) * 10.0).round() / 10.0},
			"environment": {"stream_cases": env.cases, "readers_per_case_min_max": [env.readers_per_case.0, env.readers_per_case.1], "real_code_executions": env.executions, "wall_s": ((ctx.elapsed_s() - t_streams) * 10.0).round() / 10.0},
		},
		"building_the_classes_wall_s": (t_classes * 10.0).round() / 10.0,
		"bounds": {
			"interest_flags": FLAGS.iter().map(|f| f.len()).sum::<usize>(),
			"flags_per_level": LEVEL_NAMES.iter().zip(FLAGS.iter()).map(|(n, f)| format!("{n}:{}", f.len())).collect::<Vec<_>>(),
			"deviation_kinds": ["one interest flag off (for every member of that level)", "decline the class", "decline one field", "decline one method", "decline one record component", "visit_code()=None for one method"],
			"corners": CORNERS,
			"max_deviations": {"kitchen sink (3 attribute orders)": deep, "corpus selection": deep, "every other corpus class": deep - 1, "further sinks (thorough)": 2},
			"pairs_and_triples": "built from the deviations that name something the class file contains (per the independent parser); an interest flag for an attribute the class does not contain is explored as a single deviation only",
			"sink_alphabets": alphabet_sizes,
			"sink_effective_alphabets": effective_sizes,
			"classes": n_classes,
			"corpus_classes": n_corpus,
			"corpus_selection": n_selected,
			"corpus_classes_with_small_alphabet_explored_as_deep_as_the_selection": n_small,
			"small_alphabet": SMALL_ALPHABET,
			"stream_pool": pool.iter().map(|c| c.label.clone()).collect::<Vec<_>>(),
			"stream_lengths": [1, 2, 3],
			"stream_visitor_kinds": KINDS,
			"trailing_bytes_after_every_stream": TAIL.len(),
			"generated_classes": generated_json,
			"environment": environment_json,
		},
	});
	ctx.finish(coverage, &[
		"the reference for every partial result is the FULL read of the same bytes by the same reader (reader losses are C01's business)",
		"an item the visitor declared no interest in may or may not be delivered; if it is, it must be the full read's item",
		"order is compared where the tree keeps it (members, annotations, instructions, table entries); the relative order of different attribute kinds is not an observable of the tree builders",
		"stateright's BFS visits every reachable state (its exhaustiveness is trusted)",
		"a generated class that the full read refuses (element values nested deeper than the reader's bound) is outside the domain: partial reads of it are run for panics only",
		"a class file is the same class file through every legal std::io::Read + Seek: requests served short and Interrupted (retry) are legal answers of the environment; the scripted readers are self-tested before use; the stream position is what Seek::stream_position reports",
		"javac-17 output is covered through the vendored corpus only",
	]);
}

fn replay(ctx: &'static Ctx, path: &std::path::Path) -> ! {
	let body = vcore::replay_body(path);
	let cnt = new_counters();
	let line = |k: &str| body.lines().find_map(|l| l.strip_prefix(k)).map(|s| s.to_owned());
	let hex_after = |marker: &str| -> Vec<u8> {
		let hex: String = body.lines().skip_while(|l| !l.starts_with(marker)).skip(1).take(1).collect();
		vcore::unhex(&hex).unwrap_or_else(|| vcore::machinery_fail("replay: bad hex"))
	};
	let mut st = Stats::new();
	// the case is observed twice; the two observations must agree (else the harness is at fault)
	let mut observations: Vec<std::collections::BTreeMap<String, u64>> = Vec::new();
	if body.starts_with("case=mask") {
		let plan = Plan::from_text(&line("plan=").unwrap_or_else(|| vcore::machinery_fail("replay: no plan"))).unwrap_or_else(|| vcore::machinery_fail("replay: bad plan"));
		let label = line("label=").unwrap_or_default();
		let case = match SINKS.iter().find(|(l, ..)| *l == label && !body.contains("class file bytes")) {
			Some((l, variant, order)) => sink(*variant, order.clone(), l, 0),
			None => build_case_with(&label, "replay", hex_after("class file bytes"), 0, None, true).unwrap_or_else(|e| vcore::machinery_fail(&e)),
		};
		println!("visitor answers: {}", plan.describe());
		for _ in 0..2 {
			let mut one = Stats::new();
			check_plan(ctx, cnt, &case, &plan, &mut one);
			if plan == Plan::default() {
				check_full_replay(ctx, cnt, &case, &mut one);
			}
			observations.push(one.outcomes.clone());
			st = st.merge(one);
		}
	} else if body.starts_with("case=env") || body.starts_with("case=stream") && false {
		let reader = line("reader=").and_then(|r| env::parse_reader(r.trim())).unwrap_or_else(|| vcore::machinery_fail("replay: bad reader"));
		let kinds: Vec<u8> = line("kinds=").unwrap_or_default().split(',').filter_map(|s| s.trim().parse().ok()).collect();
		let n: usize = line("classes=").and_then(|s| s.trim().parse().ok()).unwrap_or(0);
		let mut pool = Vec::new();
		for i in 0..n {
			pool.push(build_case_with(&format!("replay-class-{i}"), "replay", hex_after(&format!("class {i} [")), 0, None, true).unwrap_or_else(|e| vcore::machinery_fail(&e)));
		}
		let mut bytes = Vec::new();
		let mut boundaries = vec![0u64];
		for c in &pool {
			bytes.extend_from_slice(&c.bytes);
			boundaries.push(bytes.len() as u64);
		}
		bytes.extend_from_slice(&TAIL);
		let sc = StreamCase { classes: (0..n).collect(), bytes, boundaries };
		println!("reader: {reader:?}; visitors: {}", kinds.iter().map(|k| KINDS[*k as usize]).collect::<Vec<_>>().join(" | "));
		for _ in 0..2 {
			let mut one = Stats::new();
			one.evaluations += env::one(ctx, &mut one, &pool, &sc, &kinds[..kinds.len().min(n)], &[reader]);
			observations.push(one.outcomes.clone());
			st = st.merge(one);
		}
	} else if body.starts_with("case=stream") {
		let kinds: Vec<u8> = line("kinds=").unwrap_or_default().split(',').filter_map(|s| s.trim().parse().ok()).collect();
		let n: usize = line("classes=").and_then(|s| s.trim().parse().ok()).unwrap_or(0);
		let mut pool = Vec::new();
		for i in 0..n {
			pool.push(build_case_with(&format!("replay-class-{i}"), "replay", hex_after(&format!("class {i} [")), 0, None, true).unwrap_or_else(|e| vcore::machinery_fail(&e)));
		}
		let mut bytes = Vec::new();
		let mut boundaries = vec![0u64];
		for c in &pool {
			bytes.extend_from_slice(&c.bytes);
			boundaries.push(bytes.len() as u64);
		}
		bytes.extend_from_slice(&TAIL);
		let sc = StreamCase { classes: (0..n).collect(), bytes, boundaries };
		for _ in 0..2 {
			let mut one = Stats::new();
			let mut cursor = 0;
			for k in 0..kinds.len().min(n) {
				let (c, dead) = stream_step(ctx, cnt, &pool, &sc, &kinds[..k], cursor, kinds[k], &mut one);
				println!("read {} with {}: cursor {} (boundary {}){}", k + 1, KINDS[kinds[k] as usize], c, sc.boundaries[k + 1], if dead { " — stopped" } else { "" });
				if dead {
					break;
				}
				cursor = c;
			}
			stream_carry(ctx, cnt, &pool, &sc, &mut one);
			observations.push(one.outcomes.clone());
			st = st.merge(one);
		}
	} else {
		vcore::machinery_fail("replay: unknown case kind");
	}
	if observations.len() == 2 && observations[0] != observations[1] {
		vcore::machinery_fail(&format!("replay is not deterministic: {:?} vs {:?}", observations[0], observations[1]));
	}
	println!("outcomes (two identical observations): {:?}", observations.first());
	ctx.finish(json!({"states": 1, "transitions": 1, "traces_validated_against_impl": 2, "evaluations": st.evaluations, "distinct_nontrivial": 2, "rule": "replay of one case, twice", "samples": ["replay"]}), &[]);
}
