//! Space 4 — the environment of a partial read. The reader takes any `Read + Seek`; `Read::read` may serve fewer
//! bytes than asked for (a `BufReader` at the end of its buffer, a chunked source) and may ask for a retry with
//! `ErrorKind::Interrupted`. "A read consumes exactly the bytes of one class file whatever the visitor skips" holds
//! for every such stream: two concatenated class files are read by two successive calls with every visitor kind
//! (full, unit, declining, masked, simple) through every reader of the alphabet, and the items delivered by each read
//! and the stream position after each read must be those observed through a cursor (which graph 2 judges).
//! (The full read of ONE class through these readers is C01's environment space; here the skipping paths are driven.)

use cfmodel::model::SClass;
use duke::tree::class::ClassFile;
use rayon::prelude::*;
use vcore::{Ctx, Stats};
use crate::io::{self, ReadSeek, ReaderKind};
use crate::visitors::{Multi, SimpleMulti};
use crate::{kind_plan, stream_replay_text, ClassCase, StreamCase, KINDS};

/// what one read of the sequence delivered and where it left the stream
#[derive(PartialEq, Debug)]
pub struct Step {
	/// projections of the classes the visitor holds after the read (`Err`: the read failed / the tree is inconsistent)
	delivered: Result<Vec<SClass>, &'static str>,
	pos: u64,
}

fn project_all(out: &[ClassFile]) -> Result<Vec<SClass>, &'static str> {
	out.iter().map(|c| cfmodel::duke_proj::project(c).map_err(|_| "inconsistent-tree")).collect()
}

/// the reads of `kinds` one after the other on `reader`; stops at the first failing read
fn run_stream(reader: &mut dyn ReadSeek, pool: &[ClassCase], sc: &StreamCase, kinds: &[u8], executions: &mut u64) -> Vec<Step> {
	let mut steps = Vec::new();
	let mut reader = reader;
	for (k, kind) in kinds.iter().enumerate() {
		let case = &pool[sc.classes[k]];
		let plan = kind_plan(*kind, case);
		*executions += 1;
		let delivered = match kind {
			0 => duke::read_class_multi(&mut reader, Vec::<ClassFile>::new()).map_err(|_| "refused").and_then(|v| project_all(&v)),
			1 => duke::read_class_multi(&mut reader, None::<ClassFile>).map_err(|_| "refused").and_then(|v| project_all(v.as_slice())),
			2 => duke::read_class_multi(&mut reader, ()).map_err(|_| "refused").map(|()| Vec::new()),
			7 => duke::read_class_multi(&mut reader, SimpleMulti::new(&plan)).map_err(|_| "refused").and_then(|v| project_all(&v.out)),
			_ => duke::read_class_multi(&mut reader, Multi::new(&plan)).map_err(|_| "refused").and_then(|v| project_all(&v.out)),
		};
		let pos = reader.stream_position().unwrap_or(u64::MAX);
		let failed = delivered.is_err();
		steps.push(Step { delivered, pos });
		if failed {
			break;
		}
	}
	steps
}

pub fn alphabet(len: usize, boundary: usize, full: bool) -> Vec<ReaderKind> {
	use ReaderKind as K;
	let mut v = vec![
		K::Chunk(1), K::Chunk(3), K::Chunk(7), K::Buf(1), K::Buf(2), K::Buf(5), K::Buf(16), K::Buf(8192), K::BufOverChunk3(4), K::Interrupted(1), K::Interrupted(2),
		K::Periodic { period: 2, phase: 0 }, K::Periodic { period: 7, phase: 3 }, K::Periodic { period: 61, phase: 5 },
	];
	// one boundary close to the end of the first class / the start of the second
	for p in boundary.saturating_sub(9)..=(boundary + 12).min(len) {
		v.push(K::SplitAt(p));
	}
	if full {
		v.extend([2, 5, 8, 13].map(K::Chunk));
		v.extend([3, 4, 7, 8, 64].map(K::Buf));
		v.extend([1, 16].map(K::BufOverChunk3));
		v.push(K::Interrupted(4));
		for period in [3usize, 4, 5, 8, 16] {
			for phase in 0..period.min(4) {
				v.push(K::Periodic { period, phase });
			}
		}
	}
	let step = if full { if len <= 1500 { 1 } else { len / 211 + 1 } } else { len / 41 + 1 };
	v.extend((1..len).step_by(step).map(K::SplitAt));
	v
}

pub fn replay_text(pool: &[ClassCase], sc: &StreamCase, kinds: &[u8], reader: ReaderKind) -> String {
	format!("case=env\nreader={reader:?}\n{}", stream_replay_text(pool, sc, kinds).trim_start_matches("case=stream\n"))
}

/// one stream, one sequence of visitor kinds, every reader of `readers`
pub fn one(ctx: &Ctx, st: &mut Stats, pool: &[ClassCase], sc: &StreamCase, kinds: &[u8], readers: &[ReaderKind]) -> u64 {
	let mut executions = 0u64;
	// the observation through a cursor (judged by graph 2)
	let base = match vcore::guard(|| {
		let mut c = std::io::Cursor::new(&sc.bytes[..]);
		run_stream(&mut c, pool, sc, kinds, &mut executions)
	}) {
		Ok(s) => s,
		Err(_) => {
			st.outcome("environment:not-read-from-a-cursor (judged by graph 2)");
			return executions;
		},
	};
	if base.len() != kinds.len() || base.iter().any(|s| s.delivered.is_err()) {
		st.outcome("environment:not-read-from-a-cursor (judged by graph 2)");
		return executions;
	}
	for &reader in readers {
		let fam = reader.family();
		let replay = || replay_text(pool, sc, kinds, reader);
		let visitors = || kinds.iter().map(|k| KINDS[*k as usize]).collect::<Vec<_>>().join(" | ");
		let mut n = 0u64;
		let (res, trace) = io::with_seek_reader(reader, &sc.bytes, |r| vcore::guard(|| run_stream(r, pool, sc, kinds, &mut n)));
		executions += n;
		match res {
			Err(p) => {
				st.outcome("environment:panic");
				ctx.diff(&format!("environment:through-{fam}:panic@{}", p.file()), &format!("through {reader:?} the reader panicked at {} on a stream it reads from a cursor (visitors: {}): {}", p.site, visitors(), p.msg), replay);
			},
			Ok(steps) => {
				let mut equal = true;
				for (k, (b, s)) in base.iter().zip(steps.iter()).enumerate() {
					if b.delivered != s.delivered {
						equal = false;
						st.outcome("environment:delivers-differently");
						let what = match (&b.delivered, &s.delivered) {
							(_, Err(e)) => format!("read {} ({}) fails ({e}) although it succeeds from a cursor", k + 1, KINDS[kinds[k] as usize]),
							(Ok(x), Ok(y)) => {
								let first = x.iter().zip(y.iter()).find_map(|(x, y)| cfmodel::sdiff::diff(x, y).0.into_iter().next()).map(|(key, t)| format!("{key}: {t}")).unwrap_or_else(|| format!("{} classes instead of {}", y.len(), x.len()));
								format!("read {} ({}) delivers other items than from a cursor: {first}", k + 1, KINDS[kinds[k] as usize])
							},
							_ => String::new(),
						};
						ctx.diff(&format!("environment:through-{fam}:delivers-differently"), &format!("through {reader:?}: {what}"), replay);
						break;
					}
					if b.pos != s.pos {
						equal = false;
						st.outcome("environment:position");
						ctx.diff(&format!("environment:through-{fam}:position"), &format!("through {reader:?} the stream is at byte {} after read {} ({}), the class ends at {}", s.pos, k + 1, KINDS[kinds[k] as usize], b.pos), replay);
						break;
					}
				}
				if equal && steps.len() != base.len() {
					equal = false;
					ctx.diff(&format!("environment:through-{fam}:delivers-differently"), &format!("through {reader:?}: {} reads instead of {}", steps.len(), base.len()), replay);
				}
				if equal {
					st.outcome("environment:equal");
					if trace.short_serves > 0 {
						st.outcome("environment:equal-with-requests-served-short");
					}
					if trace.interrupts > 0 {
						st.outcome("environment:equal-with-interrupts");
					}
					if matches!(reader, ReaderKind::Buf(_) | ReaderKind::BufOverChunk3(_)) {
						st.outcome("environment:equal-through-a-BufReader");
					}
				}
			},
		}
	}
	executions
}

/// the sequences of visitor kinds for a stream of two classes: every kind first, then a full read; a declined class
/// first, then every kind
pub fn kind_sequences() -> Vec<[u8; 2]> {
	let n = KINDS.len() as u8;
	let mut v: Vec<[u8; 2]> = (0..n).map(|k| [k, 0]).collect();
	v.extend((1..n).map(|k| [3, k]));
	v
}

pub struct EnvResult {
	pub stats: Stats,
	pub executions: u64,
	pub cases: u64,
	pub readers_per_case: (usize, usize),
}

pub fn run(ctx: &'static Ctx, pool: &'static [ClassCase], streams: &'static [StreamCase], full: bool, max_class: usize) -> EnvResult {
	if let Err(e) = io::self_test() {
		vcore::machinery_fail(&format!("scripted readers: {e}"));
	}
	let seqs = kind_sequences();
	let cases: Vec<(&StreamCase, [u8; 2])> = streams.iter()
		.filter(|sc| sc.classes.len() == 2 && sc.classes.iter().all(|c| pool[*c].bytes.len() <= max_class))
		.flat_map(|sc| seqs.iter().map(move |s| (sc, *s)))
		.collect();
	let mut min_max = (usize::MAX, 0usize);
	for (sc, _) in &cases {
		let n = alphabet(sc.bytes.len(), sc.boundaries[1] as usize, full).len();
		min_max = (min_max.0.min(n), min_max.1.max(n));
	}
	let (stats, executions) = cases.par_iter().fold(|| (Stats::new(), 0u64), |(mut st, mut ex), (sc, kinds)| {
		let readers = alphabet(sc.bytes.len(), sc.boundaries[1] as usize, full);
		ex += vcore::watched(|| replay_text(pool, sc, kinds, readers[0]), || one(ctx, &mut st, pool, sc, kinds, &readers));
		(st, ex)
	}).reduce(|| (Stats::new(), 0), |(a, x), (b, y)| (a.merge(b), x + y));
	EnvResult { stats, executions, cases: cases.len() as u64, readers_per_case: min_max }
}

/// `Chunk(3)`, `Periodic { period: 7, phase: 3 }` … as printed by `{:?}`
pub fn parse_reader(s: &str) -> Option<ReaderKind> {
	let nums: Vec<usize> = s.split(|c: char| !c.is_ascii_digit()).filter(|x| !x.is_empty()).filter_map(|x| x.parse().ok()).collect();
	let name = s.split(|c: char| !c.is_ascii_alphanumeric()).next()?;
	Some(match (name, nums.as_slice()) {
		("Slice", _) => ReaderKind::Slice,
		("CursorVec", _) => ReaderKind::CursorVec,
		("Chunk", [k]) => ReaderKind::Chunk(*k),
		("Buf", [k]) => ReaderKind::Buf(*k),
		// the digit of the name is the first number found
		("BufOverChunk3", [_, k]) => ReaderKind::BufOverChunk3(*k),
		("Interrupted", [k]) => ReaderKind::Interrupted(*k),
		("SplitAt", [k]) => ReaderKind::SplitAt(*k),
		("Periodic", [period, phase]) => ReaderKind::Periodic { period: *period, phase: *phase },
		_ => return None,
	})
}
