//! Generated classes for C17: odd-but-legal class files that javac does not write and that the kitchen sinks do not
//! contain, each explored by the mask graph like every other class (full read = reference; masked reads, replays).
//!
//! Families (all enumerated, nothing sampled):
//!
//! * `nesting` — element values nested `d` levels deep (annotations only / arrays only / alternating, starting with
//!   either) for EVERY d from 0 to two beyond the deepest the class reader accepts (256), at every place an element
//!   value can stand (class annotation, class type annotation, field annotation, method annotation, AnnotationDefault,
//!   record component annotation, type annotation inside Code), always followed by further pairs / members, so that
//!   a bound enforced at one site (reader) and not, or off by one, at its twin (replay) shows.
//! * `big` — attributes whose `attribute_length` does not fit 16 bits at every level (skipped by length when not of
//!   interest or when the member is declined).
//! * `names` — unknown attributes at every level whose names are near misses of the names the reader dispatches on
//!   (one character short / long, other case, non-ASCII tail), names that are known at ANOTHER level only (`Code` on
//!   a class, `Signature` inside Code, `Deprecated` on a record component …) and multi-byte names: each must travel
//!   through the "unknown attribute" arm of its level whatever the other interests say.
//! * `split` — the kitchen sink with one LineNumberTable / LocalVariableTable / LocalVariableTypeTable attribute PER
//!   ENTRY (the reader merges them) under rotations of the attribute order (interleaving the copies with the other
//!   attributes), with extended frames, and every way of stating an empty local variable table.

use cfmodel::asm::{AttrOrder, Encoding};
use cfmodel::gen::{js, kitchen_sink, method_with, normalize, skeleton, RETURN};
use cfmodel::model::*;

pub struct Generated {
	pub label: String,
	/// outcome prefix for the per-family floors
	pub family: &'static str,
	pub model: SClass,
	pub enc: Encoding,
	/// deviation bound (quick, thorough)
	pub max_dev: (usize, usize),
	/// the reference parser may be unable to read it back (its own nesting limit is 64 levels, an annotation counting
	/// twice): then the assembler self-check is replaced by a floor on `project(full read) == model`
	pub beyond_parser: bool,
}

// ---------------------------------------------------------------------------------------------
// nesting

pub const NEST_KINDS: [&str; 4] = ["annotations-only", "arrays-only", "alternating-from-annotation", "alternating-from-array"];
pub const NEST_SITES: [&str; 7] = [
	"class:RuntimeVisibleAnnotations",
	"class:RuntimeInvisibleTypeAnnotations",
	"field:RuntimeInvisibleAnnotations",
	"method:RuntimeVisibleAnnotations",
	"method:AnnotationDefault",
	"record-component:RuntimeVisibleAnnotations",
	"code:RuntimeVisibleTypeAnnotations",
];
/// the deepest nesting the class reader accepts (duke/src/class_reader.rs MAX_ELEMENT_VALUE_DEPTH); used only to name
/// the families and to place the upper end of the sweep two levels beyond it
pub const READER_DEPTH: usize = 256;
/// the reference parser reads element values nested at least up to here
pub const PARSER_DEPTH: usize = 30;

/// an int constant below `depth` levels of annotations / arrays
fn nested_value(kind: usize, depth: usize) -> SElementValue {
	let mut v = SElementValue::Const(b'I', SConst::Int(7));
	for level in (0..depth).rev() {
		let as_annotation = match kind {
			0 => true,
			1 => false,
			2 => level % 2 == 0,
			_ => level % 2 == 1,
		};
		v = if as_annotation {
			SElementValue::Annotation(SAnnotation { type_name: js("Lp/N;"), pairs: vec![(js("v"), v)] })
		} else {
			SElementValue::Array(vec![v])
		};
	}
	v
}

pub fn nesting_class(site: usize, kind: usize, depth: usize) -> SClass {
	let top = || SAnnotation { type_name: js("Lp/Top;"), pairs: vec![(js("v"), nested_value(kind, depth)), (js("w"), SElementValue::Str(js("after")))] };
	let after = || SAnnotation { type_name: js("Lp/After;"), pairs: vec![(js("x"), SElementValue::Const(b'Z', SConst::Int(1)))] };
	let mut c = skeleton("p/Nest");
	c.source_file = Some(js("Nest.java"));
	c.signature = Some(js("Ljava/lang/Object;"));
	let mut f0 = SField { access: 0x0002, name: js("f0"), desc: js("I"), ..Default::default() };
	let mut f1 = SField { access: 0x0019, name: js("f1"), desc: js("I"), constant_value: Some(SConst::Int(3)), ..Default::default() };
	f1.annotations.visible = vec![after()];
	let mut m0 = method_with("m0", "()V", vec![SInsn::New(js("p/T")), SInsn::Simple(0x57), RETURN]);
	let mut m1 = method_with("m1", "()V", vec![RETURN]);
	m1.signature = Some(js("()V"));
	m1.annotations.invisible = vec![after()];
	match site {
		0 => c.annotations.visible = vec![top(), after()],
		1 => c.annotations.invisible_type = vec![
			STypeAnnotation { target: STarget::Supertype(65535), path: vec![], annotation: top() },
			STypeAnnotation { target: STarget::Supertype(65535), path: vec![(3, 0)], annotation: after() },
		],
		2 => f0.annotations.invisible = vec![top(), after()],
		3 => m0.annotations.visible = vec![top(), after()],
		4 => {
			m0 = SMethod { access: 0x0401, name: js("m0"), desc: js("()I"), annotation_default: Some(nested_value(kind, depth)), ..Default::default() };
			m0.signature = Some(js("()I"));
		},
		5 => {
			c.access = 0x0031;
			c.super_class = Some(js("java/lang/Record"));
			let mut rc0 = SRecordComponent { name: js("rc0"), desc: js("I"), ..Default::default() };
			rc0.annotations.visible = vec![top(), after()];
			let rc1 = SRecordComponent { name: js("rc1"), desc: js("Lp/T;"), signature: Some(js("TX;")), ..Default::default() };
			c.record = Some(vec![rc0, rc1]);
		},
		_ => {
			if let Some(code) = &mut m0.code {
				code.visible_type = vec![
					STypeAnnotation { target: STarget::Offset { target_type: 0x44, at: 0 }, path: vec![], annotation: top() },
					STypeAnnotation { target: STarget::Offset { target_type: 0x44, at: 0 }, path: vec![(3, 1)], annotation: after() },
				];
				code.line_numbers = vec![(0, 1), (2, 2)];
			}
		},
	}
	c.fields = vec![f0, f1];
	c.methods = vec![m0, m1];
	normalize(&mut c);
	c
}

pub fn nesting_family(depth: usize) -> &'static str {
	if depth < READER_DEPTH {
		"nesting/below-the-reader-bound"
	} else if depth == READER_DEPTH {
		"nesting/at-the-reader-bound"
	} else {
		"nesting/beyond-the-reader-bound"
	}
}

/// depths at which every single deviation is explored too (elsewhere: the default answers and the corners)
pub const NEST_BOUNDARY_DEPTHS: [usize; 12] = [0, 1, 2, 3, 63, 64, 127, 128, 254, 255, 256, 257];

pub fn nesting(depths: &[usize]) -> Vec<Generated> {
	let mut out = Vec::new();
	for site in 0..NEST_SITES.len() {
		for kind in 0..NEST_KINDS.len() {
			for &depth in depths {
				let boundary = NEST_BOUNDARY_DEPTHS.contains(&depth);
				out.push(Generated {
					label: format!("nest/{}/{}/depth{depth}", NEST_SITES[site], NEST_KINDS[kind]),
					family: nesting_family(depth),
					model: nesting_class(site, kind, depth),
					enc: Encoding::default(),
					max_dev: if boundary { (1, 2) } else { (0, 1) },
					beyond_parser: depth > PARSER_DEPTH,
				});
			}
		}
	}
	out
}

// ---------------------------------------------------------------------------------------------
// big

fn filler(n: usize, salt: u8) -> Vec<u8> {
	(0..n).map(|i| (i % 251) as u8 ^ salt).collect()
}

/// one class whose attributes at every level are longer than 65535 bytes (and one exactly 65535 / 65536)
pub fn big() -> Vec<Generated> {
	let mut c = skeleton("p/Big");
	c.access = 0x0031;
	c.super_class = Some(js("java/lang/Record"));
	c.source_file = Some(js("Big.java"));
	c.source_debug_extension = Some(JS("x".repeat(66_000).encode_utf16().chain("é".encode_utf16()).collect()));
	c.unknown = vec![SUnknown { name: js("x.BigClass"), bytes: filler(70_000, 1) }, SUnknown { name: js("x.SmallClass"), bytes: vec![1] }];
	// a class annotation of more than 64 KiB: an array of 20000 strings
	c.annotations.visible = vec![
		SAnnotation { type_name: js("Lp/Wide;"), pairs: vec![(js("v"), SElementValue::Array((0..20_000).map(|i| SElementValue::Str(js(["a", "b", "c"][i % 3]))).collect()))] },
		SAnnotation { type_name: js("Lp/After;"), pairs: vec![] },
	];
	c.nest_members = Some((0..33_000).map(|i| js(["p/Big$A", "p/Big$B"][i % 2])).collect());
	c.fields = vec![
		SField { access: 0x0002, name: js("f0"), desc: js("I"), unknown: vec![SUnknown { name: js("x.BigField"), bytes: filler(65_536, 2) }], ..Default::default() },
		SField { access: 0x0019, name: js("f1"), desc: js("I"), constant_value: Some(SConst::Int(3)), signature: Some(js("TX;")), ..Default::default() },
	];
	let mut m0 = method_with("m0", "()V", (0..65_534).map(|_| SInsn::Simple(op::NOP)).chain([RETURN]).collect());
	if let Some(code) = &mut m0.code {
		code.line_numbers = (0..20_000u32).map(|i| (i * 3, (i % 65_536) as u16)).collect();
		code.local_vars = (0..7_000u32).map(|i| SLocalVar { start: i, end: i + 1, name: js("v"), ty: js("I"), index: (i % 300) as u16 }).collect();
		code.unknown = vec![SUnknown { name: js("x.BigCode"), bytes: filler(66_000, 3) }];
	}
	m0.exceptions = Some((0..33_000).map(|i| js(["p/E0", "p/E1"][i % 2])).collect());
	m0.unknown = vec![SUnknown { name: js("x.Exactly65535"), bytes: filler(65_535, 4) }];
	let mut m1 = method_with("m1", "()V", vec![RETURN]);
	m1.signature = Some(js("()V"));
	m1.parameters = Some(vec![]);
	c.methods = vec![m0, m1];
	c.record = Some(vec![
		SRecordComponent { name: js("rc0"), desc: js("I"), unknown: vec![SUnknown { name: js("x.BigRecord"), bytes: filler(65_537, 5) }], ..Default::default() },
		SRecordComponent { name: js("rc1"), desc: js("Lp/T;"), signature: Some(js("TX;")), ..Default::default() },
	]);
	normalize(&mut c);
	[AttrOrder::Default, AttrOrder::Reversed].into_iter().enumerate().map(|(i, attr_order)| Generated {
		label: format!("big/attributes-longer-than-65535/{}", ["attrs-default", "attrs-reversed"][i]),
		family: "big",
		model: c.clone(),
		enc: Encoding { attr_order, ..Default::default() },
		max_dev: (1, if i == 0 { 2 } else { 1 }),
		beyond_parser: false,
	}).collect()
}

// ---------------------------------------------------------------------------------------------
// names

const CLASS: usize = 0;
const FIELD: usize = 1;
const METHOD: usize = 2;
const CODE: usize = 3;
const RECORD: usize = 4;

/// JVMS table 4.7-C (plus the CLDC `StackMap`): is `name` a predefined attribute AT this level?
fn predefined_at(level: usize, name: &str) -> bool {
	match name {
		"Synthetic" | "Deprecated" => level == CLASS || level == FIELD || level == METHOD,
		"Signature" | "RuntimeVisibleAnnotations" | "RuntimeInvisibleAnnotations" => level != CODE,
		"RuntimeVisibleTypeAnnotations" | "RuntimeInvisibleTypeAnnotations" => true,
		"SourceFile" | "SourceDebugExtension" | "InnerClasses" | "EnclosingMethod" | "BootstrapMethods" | "NestHost" | "NestMembers"
			| "PermittedSubclasses" | "ModulePackages" | "ModuleMainClass" | "Module" | "Record" => level == CLASS,
		"ConstantValue" => level == FIELD,
		"Exceptions" | "RuntimeVisibleParameterAnnotations" | "RuntimeInvisibleParameterAnnotations" | "AnnotationDefault"
			| "MethodParameters" | "Code" => level == METHOD,
		"LineNumberTable" | "LocalVariableTable" | "LocalVariableTypeTable" | "StackMapTable" | "StackMap" => level == CODE,
		_ => false,
	}
}

fn predefined_names() -> Vec<&'static str> {
	let mut v: Vec<&'static str> = KNOWN_ATTRIBUTES.to_vec();
	v.push("StackMap");
	v
}

/// a class with the unknown attributes `names(level)` at every level: on the class, on the first of two fields, on the
/// first of two methods, in its code, on the first of two record components; every body is different
fn names_class(names: &dyn Fn(usize) -> Vec<JS>) -> SClass {
	let unknowns = |level: usize| -> Vec<SUnknown> {
		names(level).into_iter().enumerate().map(|(i, name)| SUnknown { name, bytes: vec![level as u8, i as u8, 0xCA, 0xFE, 0xBA, 0xBE, 0xFF][..3 + i % 5].to_vec() }).collect()
	};
	let mut c = skeleton("p/Names");
	c.access = 0x0031;
	c.super_class = Some(js("java/lang/Record"));
	c.source_file = Some(js("Names.java"));
	c.signature = Some(js("Ljava/lang/Record;"));
	c.deprecated = true;
	c.unknown = unknowns(CLASS);
	c.fields = vec![
		SField { access: 0x0002, name: js("f0"), desc: js("I"), signature: Some(js("TX;")), synthetic: true, unknown: unknowns(FIELD), ..Default::default() },
		SField { access: 0x0019, name: js("f1"), desc: js("I"), constant_value: Some(SConst::Int(3)), ..Default::default() },
	];
	let mut m0 = method_with("m0", "()V", vec![SInsn::Simple(op::NOP), RETURN]);
	m0.signature = Some(js("()V"));
	m0.deprecated = true;
	m0.exceptions = Some(vec![js("p/E")]);
	m0.unknown = unknowns(METHOD);
	if let Some(code) = &mut m0.code {
		code.line_numbers = vec![(0, 1)];
		code.local_vars = vec![SLocalVar { start: 0, end: 2, name: js("v"), ty: js("I"), index: 1 }];
		code.frames = vec![(1, SFrame::Same)];
		code.unknown = unknowns(CODE);
	}
	let mut m1 = method_with("m1", "()V", vec![RETURN]);
	m1.parameters = Some(vec![(Some(js("p")), 0)]);
	c.methods = vec![m0, m1];
	c.record = Some(vec![
		SRecordComponent { name: js("rc0"), desc: js("I"), signature: Some(js("TX;")), unknown: unknowns(RECORD), ..Default::default() },
		SRecordComponent { name: js("rc1"), desc: js("Lp/T;"), signature: Some(js("TY;")), ..Default::default() },
	]);
	normalize(&mut c);
	c
}

pub fn names() -> Vec<Generated> {
	let known = predefined_names();
	let mut out = Vec::new();
	let mut push = |label: &str, model: SClass| {
		for (i, attr_order) in [AttrOrder::Default, AttrOrder::Reversed].into_iter().enumerate() {
			out.push(Generated {
				label: format!("names/{label}/{}", ["attrs-default", "attrs-reversed"][i]),
				family: "names",
				model: model.clone(),
				enc: Encoding { attr_order, ..Default::default() },
				max_dev: (1, 2),
				beyond_parser: false,
			});
		}
	};
	// names that are predefined at another level only
	push("predefined-at-another-level", names_class(&|level| known.iter().filter(|n| !predefined_at(level, n)).map(|n| js(n)).collect()));
	// near misses of every predefined name, at every level
	let variants: [(&str, fn(&str) -> String); 6] = [
		("one-character-short", |n| n[..n.len() - 1].to_owned()),
		("one-character-long", |n| format!("{n}s")),
		("first-character-missing", |n| n[1..].to_owned()),
		("lower-case", |n| n.to_lowercase()),
		("non-ascii-tail", |n| format!("{n}\u{e9}")),
		("leading-blank", |n| format!(" {n}")),
	];
	for (what, f) in variants {
		let all: Vec<String> = known.iter().map(|n| f(n)).collect();
		// a near miss may itself be a predefined name ("StackMapTable" minus … is not, "StackMap" + "s" is not; checked anyway)
		push(what, names_class(&|level| {
			let mut v: Vec<JS> = all.iter().filter(|n| !predefined_at(level, n)).map(|n| js(n)).collect();
			v.sort();
			v.dedup();
			v
		}));
	}
	// names that are not ASCII: 2-, 3-byte characters, an encoded NUL, a surrogate pair, a lone surrogate, a long name
	push("multi-byte", names_class(&|_| vec![
		js("\u{e9}"),
		js("\u{20ac}x"),
		JS(vec![0x43, 0, 0x64, 0x65]),
		JS(vec![0xd83d, 0xde00]),
		JS(vec![0xd800, 0x43]),
		JS("Code".encode_utf16().chain(std::iter::repeat(0xe9).take(300)).collect()),
		js("x.Plain"),
	]));
	out
}

// ---------------------------------------------------------------------------------------------
// split tables under rotations

pub fn split(rotations: &[usize]) -> Vec<Generated> {
	let mut out = Vec::new();
	for variant in [2usize, 1] {
		let mut s = kitchen_sink(variant);
		normalize(&mut s);
		for &k in rotations {
			for extended in [false, true] {
				if variant == 1 && (extended || k % 2 == 1) {
					continue;
				}
				out.push(Generated {
					label: format!("split/sink{variant}/one-table-per-entry/rot{k}/frames-extended-{extended}"),
					family: "split",
					model: s.clone(),
					enc: Encoding { attr_order: AttrOrder::Rotated(k), split_tables: true, frames_extended: extended, ..Default::default() },
					max_dev: (1, 1),
					beyond_parser: false,
				});
			}
		}
	}
	out
}
