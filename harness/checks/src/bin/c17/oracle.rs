//! The C17 oracle: what a visitor following a [`Plan`] must receive, derived from the FULL read of the
//! same class (`full`, an encoding-free `SClass`).
//!
//! Rule (from the property statement): every item the visitor declared interest in and accepted must
//! arrive exactly as the full read reports it, in the same order; declined items do not arrive; an item
//! the visitor did NOT declare interest in may or may not arrive (the statement does not say), but if it
//! arrives it must be the full read's item ("surplus", counted, not a difference).

use cfmodel::model::*;
use crate::visitors::{Plan, CLASS, CODE, FIELD, METHOD, RECORD};

/// One slot: interested ⇒ the full read's value; not interested ⇒ empty, or the full read's value if
/// that is what arrived (surplus).
fn slot<T: Clone + PartialEq + Default>(interested: bool, full: &T, actual: Option<&T>, surplus: &mut u64) -> T {
	if interested {
		return full.clone();
	}
	match actual {
		Some(a) if *a != T::default() && a == full => {
			*surplus += 1;
			full.clone()
		},
		_ => T::default(),
	}
}

fn annotations(on: [bool; 4], full: &SAnnotations, actual: Option<&SAnnotations>, surplus: &mut u64) -> SAnnotations {
	SAnnotations {
		visible: slot(on[0], &full.visible, actual.map(|a| &a.visible), surplus),
		invisible: slot(on[1], &full.invisible, actual.map(|a| &a.invisible), surplus),
		visible_type: slot(on[2], &full.visible_type, actual.map(|a| &a.visible_type), surplus),
		invisible_type: slot(on[3], &full.invisible_type, actual.map(|a| &a.invisible_type), surplus),
	}
}

/// A member list: the accepted members of the full read in order; when the list as a whole is not of
/// interest it may be absent altogether.
fn members<T: Clone>(interested: bool, kept: Vec<(u16, &T)>, actual: &[T], surplus: &mut u64, build: impl Fn(u16, &T, Option<&T>, &mut u64) -> T) -> Vec<T> {
	if !interested {
		if actual.is_empty() {
			return Vec::new();
		}
		if !kept.is_empty() {
			*surplus += 1;
		}
	}
	let aligned = actual.len() == kept.len();
	kept.iter().enumerate().map(|(i, (index, f))| build(*index, f, if aligned { Some(&actual[i]) } else { None }, surplus)).collect()
}

fn field_target(p: &Plan, index: u16, f: &SField, a: Option<&SField>, s: &mut u64) -> SField {
	let on = |i| p.on_m(FIELD, index, i);
	SField {
		access: f.access,
		name: f.name.clone(),
		desc: f.desc.clone(),
		constant_value: slot(on(0), &f.constant_value, a.map(|a| &a.constant_value), s),
		synthetic: f.synthetic,
		deprecated: f.deprecated,
		signature: slot(on(1), &f.signature, a.map(|a| &a.signature), s),
		annotations: annotations([on(2), on(3), on(4), on(5)], &f.annotations, a.map(|a| &a.annotations), s),
		unknown: slot(on(6), &f.unknown, a.map(|a| &a.unknown), s),
	}
}

fn record_target(p: &Plan, index: u16, f: &SRecordComponent, a: Option<&SRecordComponent>, s: &mut u64) -> SRecordComponent {
	let on = |i| p.on_m(RECORD, index, i);
	SRecordComponent {
		name: f.name.clone(),
		desc: f.desc.clone(),
		signature: slot(on(0), &f.signature, a.map(|a| &a.signature), s),
		annotations: annotations([on(1), on(2), on(3), on(4)], &f.annotations, a.map(|a| &a.annotations), s),
		unknown: slot(on(5), &f.unknown, a.map(|a| &a.unknown), s),
	}
}

fn code_target(p: &Plan, index: u16, no_code: bool, f: &SMethod, a: Option<&SMethod>, s: &mut u64) -> Option<SCode> {
	let fc = f.code.as_ref()?;
	if no_code {
		return None; // visit_code() answered None: there is no visitor the code could be delivered to
	}
	let ac = a.and_then(|a| a.code.as_ref());
	if !p.on_m(METHOD, index, 0) {
		ac?;
		*s += 1;
	}
	let on = |i| p.on_m(CODE, index, i);
	Some(SCode {
		max_stack: fc.max_stack,
		max_locals: fc.max_locals,
		insns: fc.insns.clone(),
		exceptions: fc.exceptions.clone(),
		line_numbers: slot(on(1), &fc.line_numbers, ac.map(|c| &c.line_numbers), s),
		local_vars: slot(on(2), &fc.local_vars, ac.map(|c| &c.local_vars), s),
		local_var_types: slot(on(3), &fc.local_var_types, ac.map(|c| &c.local_var_types), s),
		frames: slot(on(0), &fc.frames, ac.map(|c| &c.frames), s),
		visible_type: slot(on(4), &fc.visible_type, ac.map(|c| &c.visible_type), s),
		invisible_type: slot(on(5), &fc.invisible_type, ac.map(|c| &c.invisible_type), s),
		unknown: slot(on(6), &fc.unknown, ac.map(|c| &c.unknown), s),
		empty_line_table: slot(on(1), &fc.empty_line_table, ac.map(|c| &c.empty_line_table), s),
		// the model does not say which of the two attributes was the empty one: demanded only when both are of interest
		empty_local_table: slot(on(2) && on(3), &fc.empty_local_table, ac.map(|c| &c.empty_local_table), s),
	})
}

fn method_target(p: &Plan, index: u16, no_code: bool, f: &SMethod, a: Option<&SMethod>, s: &mut u64) -> SMethod {
	let on = |i| p.on_m(METHOD, index, i);
	SMethod {
		access: f.access,
		name: f.name.clone(),
		desc: f.desc.clone(),
		code: code_target(p, index, no_code, f, a, s),
		exceptions: slot(on(1), &f.exceptions, a.map(|a| &a.exceptions), s),
		synthetic: f.synthetic,
		deprecated: f.deprecated,
		signature: slot(on(2), &f.signature, a.map(|a| &a.signature), s),
		annotations: annotations([on(3), on(4), on(5), on(6)], &f.annotations, a.map(|a| &a.annotations), s),
		visible_param_annotations: slot(on(7), &f.visible_param_annotations, a.map(|a| &a.visible_param_annotations), s),
		invisible_param_annotations: slot(on(8), &f.invisible_param_annotations, a.map(|a| &a.invisible_param_annotations), s),
		annotation_default: slot(on(9), &f.annotation_default, a.map(|a| &a.annotation_default), s),
		parameters: slot(on(10), &f.parameters, a.map(|a| &a.parameters), s),
		unknown: slot(on(11), &f.unknown, a.map(|a| &a.unknown), s),
	}
}

fn kept<'t, T>(all: &'t [T], declined: &[u16]) -> Vec<(u16, &'t T)> {
	all.iter().enumerate().filter(|(i, _)| !declined.contains(&(*i as u16))).map(|(i, x)| (i as u16, x)).collect()
}

/// What the visitor must have received (`None` = the class was declined: nothing). `actual` only
/// decides, slot by slot, whether an uninterested item counts as correctly delivered surplus.
/// `simple`: the visitor is a `SimpleClassVisitor` — duke's blanket impl reports no class-level interest
/// except fields and methods, declines every record component and stores no class-level item at all.
pub fn target(full: &SClass, plan: &Plan, simple: bool, actual: Option<&SClass>, surplus: &mut u64) -> Option<SClass> {
	if plan.decline_class {
		return None;
	}
	let s = surplus;
	let on = |i| !simple && plan.on(CLASS, i);
	let a = actual;
	let empty = SClass::default();
	let act = a.unwrap_or(&empty);
	let mut t = SClass {
		version: full.version,
		access: full.access,
		this_class: full.this_class.clone(),
		super_class: full.super_class.clone(),
		interfaces: full.interfaces.clone(),
		synthetic: !simple && full.synthetic,
		deprecated: !simple && full.deprecated,
		..Default::default()
	};
	t.inner_classes = slot(on(0), &full.inner_classes, a.map(|a| &a.inner_classes), s);
	t.enclosing_method = slot(on(1), &full.enclosing_method, a.map(|a| &a.enclosing_method), s);
	t.signature = slot(on(2), &full.signature, a.map(|a| &a.signature), s);
	t.source_file = slot(on(3), &full.source_file, a.map(|a| &a.source_file), s);
	t.source_debug_extension = slot(on(4), &full.source_debug_extension, a.map(|a| &a.source_debug_extension), s);
	t.annotations = annotations([on(5), on(6), on(7), on(8)], &full.annotations, a.map(|a| &a.annotations), s);
	t.module = slot(on(9), &full.module, a.map(|a| &a.module), s);
	t.module_packages = slot(on(10), &full.module_packages, a.map(|a| &a.module_packages), s);
	t.module_main_class = slot(on(11), &full.module_main_class, a.map(|a| &a.module_main_class), s);
	t.nest_host = slot(on(12), &full.nest_host, a.map(|a| &a.nest_host), s);
	t.nest_members = slot(on(13), &full.nest_members, a.map(|a| &a.nest_members), s);
	t.permitted_subclasses = slot(on(14), &full.permitted_subclasses, a.map(|a| &a.permitted_subclasses), s);
	t.unknown = slot(on(16), &full.unknown, a.map(|a| &a.unknown), s);

	// record components (a SimpleClassVisitor declines every one of them)
	let no_records: Vec<SRecordComponent> = Vec::new();
	let full_records = full.record.as_ref().unwrap_or(&no_records);
	let actual_records = act.record.as_ref().unwrap_or(&no_records);
	let kept_records = if simple { Vec::new() } else { kept(full_records, &plan.decline_records) };
	let records = members(on(15), kept_records, actual_records, s, |i, f, a, s| record_target(plan, i, f, a, s));
	t.record = if records.is_empty() { None } else { Some(records) };

	// fields and methods: a SimpleClassVisitor reports interest in both
	let fields_on = simple || plan.on(CLASS, 17);
	let methods_on = simple || plan.on(CLASS, 18);
	t.fields = members(fields_on, kept(&full.fields, &plan.decline_fields), &act.fields, s, |i, f, a, s| field_target(plan, i, f, a, s));
	t.methods = members(methods_on, kept(&full.methods, &plan.decline_methods), &act.methods, s, |i, f, a, s| {
		method_target(plan, i, plan.no_code.contains(&i), f, a, s)
	});
	Some(t)
}

/// Does the plan answer `visit_code() = None` for a method whose Code attribute the reader would have
/// delivered (class and method accepted, `interests.code` on, the method has code)?
pub fn declines_code_of_interest(full: &SClass, plan: &Plan) -> bool {
	!plan.decline_class
		&& plan.no_code.iter().any(|j| plan.on_m(METHOD, *j, 0) && !plan.decline_methods.contains(j) && full.methods.get(*j as usize).is_some_and(|m| m.code.is_some()))
}
