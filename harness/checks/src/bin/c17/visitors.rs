//! Mask-configurable visitors for C17, written against duke's public visitor traits.
//!
//! Every visitor here wraps the repository's own tree builder (`Vec<ClassFile>`, `ClassFile`, `Method`,
//! `Code`, and — through the `verif` hook — `Field` and `RecordComponent`) and forwards every call to
//! it unchanged. The wrappers only (a) answer `interests()` from a [`Plan`], (b) decline the members
//! the plan names, (c) answer `visit_code()` with `None` for the methods the plan names.

use std::ops::ControlFlow;
use anyhow::Result;
use duke::tree::class::{ClassAccess, ClassFile, ClassName, ClassSignature, EnclosingMethod, InnerClass, ObjClassName};
use duke::tree::field::{Field, FieldAccess, FieldDescriptor, FieldName};
use duke::tree::method::code::{Code, Exception, Instruction, Label, Lv};
use duke::tree::method::{Method, MethodAccess, MethodDescriptor, MethodName, MethodParameter, MethodSignature};
use duke::tree::module::{Module, PackageName};
use duke::tree::record::RecordName;
use duke::tree::version::Version;
use duke::verif::{MaskedField, MaskedRecordComponent};
use duke::visitor::class::{ClassInterests, ClassVisitor};
use duke::visitor::method::code::{CodeInterests, CodeVisitor, StackMapData};
use duke::visitor::method::{MethodInterests, MethodVisitor};
use duke::visitor::simple::class::SimpleClassVisitor;
use duke::visitor::MultiClassVisitor;
use java_string::JavaString;

pub const CLASS: usize = 0;
pub const FIELD: usize = 1;
pub const METHOD: usize = 2;
pub const CODE: usize = 3;
pub const RECORD: usize = 4;

pub const LEVEL_NAMES: [&str; 5] = ["class", "field", "method", "code", "record"];

/// interest flags per level, in the declaration order of duke's `*Interests` structs
pub const FLAGS: [&[&str]; 5] = [
	&[
		"inner_classes", "enclosing_method", "signature", "source_file", "source_debug_extension", "runtime_visible_annotations",
		"runtime_invisible_annotations", "runtime_visible_type_annotations", "runtime_invisible_type_annotations", "module",
		"module_packages", "module_main_class", "nest_host", "nest_members", "permitted_subclasses", "record", "unknown_attributes",
		"fields", "methods",
	],
	&[
		"constant_value", "signature", "runtime_visible_annotations", "runtime_invisible_annotations", "runtime_visible_type_annotations",
		"runtime_invisible_type_annotations", "unknown_attributes",
	],
	&[
		"code", "exceptions", "signature", "runtime_visible_annotations", "runtime_invisible_annotations", "runtime_visible_type_annotations",
		"runtime_invisible_type_annotations", "runtime_visible_parameter_annotations", "runtime_invisible_parameter_annotations",
		"annotation_default", "method_parameters", "unknown_attributes",
	],
	&[
		"stack_map_table", "line_number_table", "local_variable_table", "local_variable_type_table", "runtime_visible_type_annotations",
		"runtime_invisible_type_annotations", "unknown_attributes",
	],
	&[
		"signature", "runtime_visible_annotations", "runtime_invisible_annotations", "runtime_visible_type_annotations",
		"runtime_invisible_type_annotations", "unknown_attributes",
	],
];

/// Callbacks counted by the plan-driven visitors (what was delivered, not only what the tree builder kept of it):
/// index into [`Events`].
pub const EVENT_NAMES: [&str; 38] = [
	"class.visit_deprecated_and_synthetic_attribute", "class.visit_inner_classes", "class.visit_enclosing_method", "class.visit_signature",
	"class.visit_source_file", "class.visit_source_debug_extension", "class.visit_annotations(visible)", "class.visit_annotations(invisible)",
	"class.visit_type_annotations(visible)", "class.visit_type_annotations(invisible)", "class.visit_module", "class.visit_module_packages",
	"class.visit_module_main_class", "class.visit_nest_host_class", "class.visit_nest_members", "class.visit_permitted_subclasses",
	"class.visit_record_component", "class.visit_unknown_attribute", "class.visit_field", "class.visit_method",
	"method.visit_deprecated_and_synthetic_attribute", "method.visit_exceptions", "method.visit_signature", "method.visit_annotations",
	"method.visit_type_annotations", "method.visit_annotation_default", "method.visit_parameters", "method.visit_unknown_attribute", "method.visit_code",
	"code.visit_max_stack_and_max_locals", "code.visit_exception_table", "code.visit_instruction", "code.visit_last_label", "code.visit_line_numbers",
	"code.visit_local_variables", "code.visit_type_annotations", "code.visit_unknown_attribute", "method.finish_code",
];
pub const EV_LOCAL_VARIABLES: usize = 34;
pub const EV_LAST_LABEL: usize = 32;
pub type Events = [u32; 38];

fn add_events(a: &mut Events, b: &Events) {
	for (x, y) in a.iter_mut().zip(b.iter()) {
		*x += *y;
	}
}

/// The environment's answers: which interests the visitor reports and which items it declines.
/// The default plan is "every interest on, every class and member accepted".
#[derive(Clone, Debug, Default, PartialEq, Eq, Hash)]
pub struct Plan {
	pub decline_class: bool,
	/// per level, bit i set = interest flag i (order of [`FLAGS`]) is reported as `false`
	pub off: [u32; 5],
	/// indices (in file order) of the members answered with `ControlFlow::Break`
	pub decline_fields: Vec<u16>,
	pub decline_methods: Vec<u16>,
	pub decline_records: Vec<u16>,
	/// indices of the methods whose `visit_code()` answers `None`
	pub no_code: Vec<u16>,
	/// (level, member index, off mask): the visitor handed out for THIS member (field / method / the code visitor of
	/// method #index / record component) answers `interests()` from this mask instead of `off[level]` — visitors of one
	/// class need not agree on what they are interested in
	pub member_masks: Vec<(u8, u16, u32)>,
}

impl Plan {
	pub fn on(&self, level: usize, flag: usize) -> bool {
		self.off[level] & (1 << flag) == 0
	}

	/// the off mask the visitor of member #`index` at `level` answers with
	pub fn off_of(&self, level: usize, index: u16) -> u32 {
		self.member_masks.iter().find(|(l, i, _)| *l as usize == level && *i == index).map_or(self.off[level], |(_, _, m)| *m)
	}

	/// is flag `flag` of interest to the visitor of member #`index` at `level`?
	pub fn on_m(&self, level: usize, index: u16, flag: usize) -> bool {
		self.off_of(level, index) & (1 << flag) == 0
	}

	pub fn all_mask(level: usize) -> u32 {
		(1u32 << FLAGS[level].len()) - 1
	}

	pub fn all_off() -> Plan {
		let mut p = Plan::default();
		for (l, f) in FLAGS.iter().enumerate() {
			p.off[l] = (1u32 << f.len()) - 1;
		}
		p
	}

	pub fn to_text(&self) -> String {
		let list = |v: &Vec<u16>| v.iter().map(|x| x.to_string()).collect::<Vec<_>>().join(",");
		format!(
			"dc:{}|off:{}|df:{}|dm:{}|dr:{}|nc:{}|mm:{}",
			self.decline_class as u8,
			self.off.iter().map(|x| x.to_string()).collect::<Vec<_>>().join(":"),
			list(&self.decline_fields), list(&self.decline_methods), list(&self.decline_records), list(&self.no_code),
			self.member_masks.iter().map(|(l, i, m)| format!("{l}.{i}.{m}")).collect::<Vec<_>>().join(",")
		)
	}

	pub fn from_text(s: &str) -> Option<Plan> {
		let mut p = Plan::default();
		let list = |v: &str| -> Option<Vec<u16>> { v.split(',').filter(|x| !x.is_empty()).map(|x| x.parse().ok()).collect() };
		for part in s.trim().split('|') {
			let (k, v) = part.split_once(':')?;
			match k {
				"dc" => p.decline_class = v == "1",
				"off" => {
					let o: Vec<u32> = v.split(':').map(|x| x.parse().ok()).collect::<Option<_>>()?;
					if o.len() != 5 {
						return None;
					}
					p.off.copy_from_slice(&o);
				},
				"df" => p.decline_fields = list(v)?,
				"dm" => p.decline_methods = list(v)?,
				"dr" => p.decline_records = list(v)?,
				"nc" => p.no_code = list(v)?,
				"mm" => {
					for e in v.split(',').filter(|x| !x.is_empty()) {
						let n: Vec<u32> = e.split('.').map(|x| x.parse().ok()).collect::<Option<_>>()?;
						if n.len() != 3 || n[0] as usize >= FLAGS.len() {
							return None;
						}
						p.member_masks.push((n[0] as u8, n[1] as u16, n[2]));
					}
				},
				_ => return None,
			}
		}
		Some(p)
	}

	/// human-readable description for replay files and samples
	pub fn describe(&self) -> String {
		let mut out = Vec::new();
		if self.decline_class {
			out.push("decline the class".to_owned());
		}
		for (l, flags) in FLAGS.iter().enumerate() {
			for (i, f) in flags.iter().enumerate() {
				if !self.on(l, i) {
					out.push(format!("{}.{f}=off", LEVEL_NAMES[l]));
				}
			}
		}
		for (n, v) in [("field", &self.decline_fields), ("method", &self.decline_methods), ("record component", &self.decline_records)] {
			for i in v {
				out.push(format!("decline {n} #{i}"));
			}
		}
		for i in &self.no_code {
			out.push(format!("visit_code()=None for method #{i}"));
		}
		for (l, i, m) in &self.member_masks {
			let l = *l as usize;
			let what = if l == CODE { format!("the code visitor of method #{i}") } else { format!("the visitor of {} #{i}", LEVEL_NAMES[l]) };
			let off: Vec<&str> = FLAGS[l].iter().enumerate().filter(|(f, _)| m & (1 << f) != 0).map(|(_, n)| *n).collect();
			out.push(format!("{what} answers for itself: {}", if off.is_empty() { "every interest on".to_owned() } else if off.len() == FLAGS[l].len() { "every interest off".to_owned() } else { format!("off: {}", off.join(",")) }));
		}
		if out.is_empty() {
			"every interest on, everything accepted".to_owned()
		} else {
			out.join("; ")
		}
	}

	fn class_interests(&self) -> ClassInterests {
		let o = |i| self.on(CLASS, i);
		ClassInterests {
			inner_classes: o(0),
			enclosing_method: o(1),
			signature: o(2),
			source_file: o(3),
			source_debug_extension: o(4),
			runtime_visible_annotations: o(5),
			runtime_invisible_annotations: o(6),
			runtime_visible_type_annotations: o(7),
			runtime_invisible_type_annotations: o(8),
			module: o(9),
			module_packages: o(10),
			module_main_class: o(11),
			nest_host: o(12),
			nest_members: o(13),
			permitted_subclasses: o(14),
			record: o(15),
			unknown_attributes: o(16),
			fields: o(17),
			methods: o(18),
		}
	}

	fn field_interests(&self, index: u16) -> [bool; 7] {
		std::array::from_fn(|i| self.on_m(FIELD, index, i))
	}

	fn record_interests(&self, index: u16) -> [bool; 6] {
		std::array::from_fn(|i| self.on_m(RECORD, index, i))
	}

	fn method_interests(&self, index: u16) -> MethodInterests {
		let o = |i| self.on_m(METHOD, index, i);
		MethodInterests {
			code: o(0),
			exceptions: o(1),
			signature: o(2),
			runtime_visible_annotations: o(3),
			runtime_invisible_annotations: o(4),
			runtime_visible_type_annotations: o(5),
			runtime_invisible_type_annotations: o(6),
			runtime_visible_parameter_annotations: o(7),
			runtime_invisible_parameter_annotations: o(8),
			annotation_default: o(9),
			method_parameters: o(10),
			unknown_attributes: o(11),
		}
	}

	fn code_interests(&self) -> CodeInterests {
		let o = |i| self.on(CODE, i);
		CodeInterests {
			stack_map_table: o(0),
			line_number_table: o(1),
			local_variable_table: o(2),
			local_variable_type_table: o(3),
			runtime_visible_type_annotations: o(4),
			runtime_invisible_type_annotations: o(5),
			unknown_attributes: o(6),
		}
	}
}

type Tree = ClassFile;

/// running state of a class visit: which member comes next, how many decisions were answered
#[derive(Clone, Copy)]
pub struct St<'a> {
	plan: &'a Plan,
	record_i: u16,
	field_i: u16,
	method_i: u16,
	pub decisions: u64,
	pub events: Events,
}

// ---------------------------------------------------------------------------------------------
// multi-class level

/// the plan-driven visitor around the repository's `Vec<ClassFile>` tree builder
pub struct Multi<'a> {
	pub out: Vec<ClassFile>,
	plan: &'a Plan,
	/// answers given by the visitor (interests() calls, accept/decline, visit_code)
	pub decisions: u64,
	/// callbacks received by the class, method and code visitors handed out
	pub events: Events,
}

impl<'a> Multi<'a> {
	pub fn new(plan: &'a Plan) -> Multi<'a> {
		Multi { out: Vec::new(), plan, decisions: 0, events: [0; 38] }
	}
}

pub struct MultiResidual<'a> {
	inner: <Vec<ClassFile> as MultiClassVisitor>::ClassResidual,
	plan: &'a Plan,
	decisions: u64,
	events: Events,
}

impl<'a> MultiClassVisitor for Multi<'a> {
	type ClassVisitor = MClass<'a>;
	type ClassResidual = MultiResidual<'a>;

	fn visit_class(self, version: Version, access: ClassAccess, name: ObjClassName, super_class: Option<ObjClassName>, interfaces: Vec<ObjClassName>)
			-> Result<ControlFlow<Self, (Self::ClassResidual, Self::ClassVisitor)>> {
		let Multi { out, plan, decisions, events } = self;
		let decisions = decisions + 1;
		if plan.decline_class {
			return Ok(ControlFlow::Break(Multi { out, plan, decisions, events }));
		}
		Ok(match out.visit_class(version, access, name, super_class, interfaces)? {
			ControlFlow::Continue((inner, class)) => ControlFlow::Continue((
				MultiResidual { inner, plan, decisions, events },
				MClass { inner: class, st: St { plan, record_i: 0, field_i: 0, method_i: 0, decisions: 0, events: [0; 38] } },
			)),
			ControlFlow::Break(out) => ControlFlow::Break(Multi { out, plan, decisions, events }),
		})
	}

	fn finish_class(this: Self::ClassResidual, class_visitor: Self::ClassVisitor) -> Result<Self> {
		let out = <Vec<ClassFile> as MultiClassVisitor>::finish_class(this.inner, class_visitor.inner)?;
		let mut events = this.events;
		add_events(&mut events, &class_visitor.st.events);
		Ok(Multi { out, plan: this.plan, decisions: this.decisions + class_visitor.st.decisions, events })
	}
}

// ---------------------------------------------------------------------------------------------
// class level

pub struct MClass<'a> {
	inner: ClassFile,
	st: St<'a>,
}

impl<'a> ClassVisitor for MClass<'a> {
	type AnnotationsVisitor = <Tree as ClassVisitor>::AnnotationsVisitor;
	type AnnotationsResidual = (<Tree as ClassVisitor>::AnnotationsResidual, St<'a>);
	type TypeAnnotationsVisitor = <Tree as ClassVisitor>::TypeAnnotationsVisitor;
	type TypeAnnotationsResidual = (<Tree as ClassVisitor>::TypeAnnotationsResidual, St<'a>);
	type RecordComponentVisitor = MaskedRecordComponent<<Tree as ClassVisitor>::RecordComponentVisitor>;
	type RecordComponentResidual = (<Tree as ClassVisitor>::RecordComponentResidual, St<'a>);
	type FieldVisitor = MaskedField<<Tree as ClassVisitor>::FieldVisitor>;
	type FieldResidual = (<Tree as ClassVisitor>::FieldResidual, St<'a>);
	type MethodVisitor = MMethod<'a>;
	type MethodResidual = (<Tree as ClassVisitor>::MethodResidual, St<'a>);
	type UnknownAttribute = <Tree as ClassVisitor>::UnknownAttribute;

	fn interests(&self) -> ClassInterests {
		self.st.plan.class_interests()
	}

	fn visit_deprecated_and_synthetic_attribute(&mut self, deprecated: bool, synthetic: bool) -> Result<()> {
		self.st.events[0] += 1;
		self.inner.visit_deprecated_and_synthetic_attribute(deprecated, synthetic)
	}
	fn visit_inner_classes(&mut self, inner_classes: Vec<InnerClass>) -> Result<()> {
		self.st.events[1] += 1;
		self.inner.visit_inner_classes(inner_classes)
	}
	fn visit_enclosing_method(&mut self, enclosing_method: EnclosingMethod) -> Result<()> {
		self.st.events[2] += 1;
		self.inner.visit_enclosing_method(enclosing_method)
	}
	fn visit_signature(&mut self, signature: ClassSignature) -> Result<()> {
		self.st.events[3] += 1;
		self.inner.visit_signature(signature)
	}
	fn visit_source_file(&mut self, source_file: JavaString) -> Result<()> {
		self.st.events[4] += 1;
		self.inner.visit_source_file(source_file)
	}
	fn visit_source_debug_extension(&mut self, source_debug_extension: JavaString) -> Result<()> {
		self.st.events[5] += 1;
		self.inner.visit_source_debug_extension(source_debug_extension)
	}

	fn visit_annotations(mut self, visible: bool) -> Result<(Self::AnnotationsResidual, Self::AnnotationsVisitor)> {
		self.st.events[if visible { 6 } else { 7 }] += 1;
		let (residual, visitor) = self.inner.visit_annotations(visible)?;
		Ok(((residual, self.st), visitor))
	}
	fn finish_annotations((residual, st): Self::AnnotationsResidual, annotations_visitor: Self::AnnotationsVisitor) -> Result<Self> {
		Ok(MClass { inner: <Tree as ClassVisitor>::finish_annotations(residual, annotations_visitor)?, st })
	}
	fn visit_type_annotations(mut self, visible: bool) -> Result<(Self::TypeAnnotationsResidual, Self::TypeAnnotationsVisitor)> {
		self.st.events[if visible { 8 } else { 9 }] += 1;
		let (residual, visitor) = self.inner.visit_type_annotations(visible)?;
		Ok(((residual, self.st), visitor))
	}
	fn finish_type_annotations((residual, st): Self::TypeAnnotationsResidual, type_annotations_visitor: Self::TypeAnnotationsVisitor) -> Result<Self> {
		Ok(MClass { inner: <Tree as ClassVisitor>::finish_type_annotations(residual, type_annotations_visitor)?, st })
	}

	fn visit_module(&mut self, module: Module) -> Result<()> {
		self.st.events[10] += 1;
		self.inner.visit_module(module)
	}
	fn visit_module_packages(&mut self, module_packages: Vec<PackageName>) -> Result<()> {
		self.st.events[11] += 1;
		self.inner.visit_module_packages(module_packages)
	}
	fn visit_module_main_class(&mut self, module_main_class: ClassName) -> Result<()> {
		self.st.events[12] += 1;
		self.inner.visit_module_main_class(module_main_class)
	}
	fn visit_nest_host_class(&mut self, nest_host_class: ClassName) -> Result<()> {
		self.st.events[13] += 1;
		self.inner.visit_nest_host_class(nest_host_class)
	}
	fn visit_nest_members(&mut self, nest_members: Vec<ClassName>) -> Result<()> {
		self.st.events[14] += 1;
		self.inner.visit_nest_members(nest_members)
	}
	fn visit_permitted_subclasses(&mut self, permitted_subclasses: Vec<ClassName>) -> Result<()> {
		self.st.events[15] += 1;
		self.inner.visit_permitted_subclasses(permitted_subclasses)
	}

	fn visit_record_component(self, name: RecordName, descriptor: FieldDescriptor)
			-> Result<ControlFlow<Self, (Self::RecordComponentResidual, Self::RecordComponentVisitor)>> {
		let MClass { inner, mut st } = self;
		let i = st.record_i;
		st.record_i += 1;
		st.decisions += 1;
		st.events[16] += 1;
		if st.plan.decline_records.contains(&i) {
			return Ok(ControlFlow::Break(MClass { inner, st }));
		}
		Ok(match inner.visit_record_component(name, descriptor)? {
			ControlFlow::Continue((residual, visitor)) => {
				st.decisions += 1; // its interests() answer
				ControlFlow::Continue(((residual, st), MaskedRecordComponent::new(visitor, st.plan.record_interests(i))))
			},
			ControlFlow::Break(inner) => ControlFlow::Break(MClass { inner, st }),
		})
	}
	fn finish_record_component((residual, st): Self::RecordComponentResidual, record_component_visitor: Self::RecordComponentVisitor) -> Result<Self> {
		Ok(MClass { inner: <Tree as ClassVisitor>::finish_record_component(residual, record_component_visitor.into_inner())?, st })
	}

	fn visit_unknown_attribute(&mut self, unknown_attribute: Self::UnknownAttribute) -> Result<()> {
		self.st.events[17] += 1;
		self.inner.visit_unknown_attribute(unknown_attribute)
	}

	fn visit_field(self, access: FieldAccess, name: FieldName, descriptor: FieldDescriptor)
			-> Result<ControlFlow<Self, (Self::FieldResidual, Self::FieldVisitor)>> {
		let MClass { inner, mut st } = self;
		let i = st.field_i;
		st.field_i += 1;
		st.decisions += 1;
		st.events[18] += 1;
		if st.plan.decline_fields.contains(&i) {
			return Ok(ControlFlow::Break(MClass { inner, st }));
		}
		Ok(match inner.visit_field(access, name, descriptor)? {
			ControlFlow::Continue((residual, visitor)) => {
				st.decisions += 1;
				ControlFlow::Continue(((residual, st), MaskedField::new(visitor, st.plan.field_interests(i))))
			},
			ControlFlow::Break(inner) => ControlFlow::Break(MClass { inner, st }),
		})
	}
	fn finish_field((residual, st): Self::FieldResidual, field_visitor: Self::FieldVisitor) -> Result<Self> {
		Ok(MClass { inner: <Tree as ClassVisitor>::finish_field(residual, field_visitor.into_inner())?, st })
	}

	fn visit_method(self, access: MethodAccess, name: MethodName, descriptor: MethodDescriptor)
			-> Result<ControlFlow<Self, (Self::MethodResidual, Self::MethodVisitor)>> {
		let MClass { inner, mut st } = self;
		let i = st.method_i;
		st.method_i += 1;
		st.decisions += 1;
		st.events[19] += 1;
		if st.plan.decline_methods.contains(&i) {
			return Ok(ControlFlow::Break(MClass { inner, st }));
		}
		Ok(match inner.visit_method(access, name, descriptor)? {
			ControlFlow::Continue((residual, visitor)) => {
				let mv = MMethod { inner: visitor, mst: MSt { plan: st.plan, index: i, no_code: st.plan.no_code.contains(&i), decisions: 1, events: [0; 38] } };
				ControlFlow::Continue(((residual, st), mv))
			},
			ControlFlow::Break(inner) => ControlFlow::Break(MClass { inner, st }),
		})
	}
	fn finish_method((residual, mut st): Self::MethodResidual, method_visitor: Self::MethodVisitor) -> Result<Self> {
		st.decisions += method_visitor.mst.decisions;
		add_events(&mut st.events, &method_visitor.mst.events);
		Ok(MClass { inner: <Tree as ClassVisitor>::finish_method(residual, method_visitor.inner)?, st })
	}
}

// ---------------------------------------------------------------------------------------------
// method and code level

#[derive(Clone, Copy)]
pub struct MSt<'a> {
	plan: &'a Plan,
	/// index of the method in the class file
	index: u16,
	no_code: bool,
	decisions: u64,
	events: Events,
}

pub struct MMethod<'a> {
	inner: Method,
	mst: MSt<'a>,
}

impl<'a> MethodVisitor for MMethod<'a> {
	type AnnotationsVisitor = <Method as MethodVisitor>::AnnotationsVisitor;
	type AnnotationsResidual = (<Method as MethodVisitor>::AnnotationsResidual, MSt<'a>);
	type TypeAnnotationsVisitor = <Method as MethodVisitor>::TypeAnnotationsVisitor;
	type TypeAnnotationsResidual = (<Method as MethodVisitor>::TypeAnnotationsResidual, MSt<'a>);
	type AnnotationDefaultVisitor = <Method as MethodVisitor>::AnnotationDefaultVisitor;
	type AnnotationDefaultResidual = (<Method as MethodVisitor>::AnnotationDefaultResidual, MSt<'a>);
	type CodeVisitor = MCode;
	type UnknownAttribute = <Method as MethodVisitor>::UnknownAttribute;

	fn interests(&self) -> MethodInterests {
		self.mst.plan.method_interests(self.mst.index)
	}

	fn visit_deprecated_and_synthetic_attribute(&mut self, deprecated: bool, synthetic: bool) -> Result<()> {
		self.mst.events[20] += 1;
		self.inner.visit_deprecated_and_synthetic_attribute(deprecated, synthetic)
	}
	fn visit_exceptions(&mut self, exceptions: Vec<ClassName>) -> Result<()> {
		self.mst.events[21] += 1;
		self.inner.visit_exceptions(exceptions)
	}
	fn visit_signature(&mut self, signature: MethodSignature) -> Result<()> {
		self.mst.events[22] += 1;
		self.inner.visit_signature(signature)
	}

	fn visit_annotations(mut self, visible: bool) -> Result<(Self::AnnotationsResidual, Self::AnnotationsVisitor)> {
		self.mst.events[23] += 1;
		let (residual, visitor) = self.inner.visit_annotations(visible)?;
		Ok(((residual, self.mst), visitor))
	}
	fn finish_annotations((residual, mst): Self::AnnotationsResidual, annotations_visitor: Self::AnnotationsVisitor) -> Result<Self> {
		Ok(MMethod { inner: <Method as MethodVisitor>::finish_annotations(residual, annotations_visitor)?, mst })
	}
	fn visit_type_annotations(mut self, visible: bool) -> Result<(Self::TypeAnnotationsResidual, Self::TypeAnnotationsVisitor)> {
		self.mst.events[24] += 1;
		let (residual, visitor) = self.inner.visit_type_annotations(visible)?;
		Ok(((residual, self.mst), visitor))
	}
	fn finish_type_annotations((residual, mst): Self::TypeAnnotationsResidual, type_annotations_visitor: Self::TypeAnnotationsVisitor) -> Result<Self> {
		Ok(MMethod { inner: <Method as MethodVisitor>::finish_type_annotations(residual, type_annotations_visitor)?, mst })
	}
	fn visit_annotation_default(mut self) -> Result<(Self::AnnotationDefaultResidual, Self::AnnotationDefaultVisitor)> {
		self.mst.events[25] += 1;
		let (residual, visitor) = self.inner.visit_annotation_default()?;
		Ok(((residual, self.mst), visitor))
	}
	fn finish_annotation_default((residual, mst): Self::AnnotationDefaultResidual, element_value_visitor: Self::AnnotationDefaultVisitor) -> Result<Self> {
		Ok(MMethod { inner: <Method as MethodVisitor>::finish_annotation_default(residual, element_value_visitor)?, mst })
	}

	fn visit_parameters(&mut self, method_parameters: Vec<MethodParameter>) -> Result<()> {
		self.mst.events[26] += 1;
		self.inner.visit_parameters(method_parameters)
	}
	fn visit_annotable_parameter_count(&mut self) {}
	fn visit_parameter_annotation(&mut self) {}

	fn visit_unknown_attribute(&mut self, unknown_attribute: Self::UnknownAttribute) -> Result<()> {
		self.mst.events[27] += 1;
		self.inner.visit_unknown_attribute(unknown_attribute)
	}

	fn visit_code(&mut self) -> Result<Option<Self::CodeVisitor>> {
		self.mst.decisions += 1;
		self.mst.events[28] += 1;
		if self.mst.no_code {
			return Ok(None);
		}
		self.mst.decisions += 1; // the code visitor's interests() answer
		let off = self.mst.plan.off_of(CODE, self.mst.index);
		Ok(self.inner.visit_code()?.map(|inner| MCode { inner, off, events: [0; 38] }))
	}
	fn finish_code(&mut self, code_visitor: Self::CodeVisitor) -> Result<()> {
		self.mst.events[37] += 1;
		add_events(&mut self.mst.events, &code_visitor.events);
		self.inner.finish_code(code_visitor.inner)
	}
}

pub struct MCode {
	inner: Code,
	off: u32,
	events: Events,
}

impl CodeVisitor for MCode {
	type TypeAnnotationsVisitor = <Code as CodeVisitor>::TypeAnnotationsVisitor;
	type TypeAnnotationsResidual = (<Code as CodeVisitor>::TypeAnnotationsResidual, u32, Events);
	type UnknownAttribute = <Code as CodeVisitor>::UnknownAttribute;

	fn interests(&self) -> CodeInterests {
		let mut p = Plan::default();
		p.off[CODE] = self.off;
		p.code_interests()
	}

	fn visit_max_stack_and_max_locals(&mut self, max_stack: u16, max_locals: u16) -> Result<()> {
		self.events[29] += 1;
		self.inner.visit_max_stack_and_max_locals(max_stack, max_locals)
	}
	fn visit_exception_table(&mut self, exception_table: Vec<Exception>) -> Result<()> {
		self.events[30] += 1;
		self.inner.visit_exception_table(exception_table)
	}
	fn visit_instruction(&mut self, label: Option<Label>, frame: Option<StackMapData>, instruction: Instruction) -> Result<()> {
		self.events[31] += 1;
		self.inner.visit_instruction(label, frame, instruction)
	}
	fn visit_last_label(&mut self, last_label: Label) -> Result<()> {
		self.events[32] += 1;
		self.inner.visit_last_label(last_label)
	}
	fn visit_line_numbers(&mut self, line_number_table: Vec<(Label, u16)>) -> Result<()> {
		self.events[33] += 1;
		self.inner.visit_line_numbers(line_number_table)
	}
	fn visit_local_variables(&mut self, local_variables: Vec<Lv>) -> Result<()> {
		self.events[34] += 1;
		self.inner.visit_local_variables(local_variables)
	}
	fn visit_type_annotations(mut self, visible: bool) -> Result<(Self::TypeAnnotationsResidual, Self::TypeAnnotationsVisitor)> {
		self.events[35] += 1;
		let (residual, visitor) = self.inner.visit_type_annotations(visible)?;
		Ok(((residual, self.off, self.events), visitor))
	}
	fn finish_type_annotations((residual, off, events): Self::TypeAnnotationsResidual, type_annotations_visitor: Self::TypeAnnotationsVisitor) -> Result<Self> {
		Ok(MCode { inner: <Code as CodeVisitor>::finish_type_annotations(residual, type_annotations_visitor)?, off, events })
	}
	fn visit_unknown_attribute(&mut self, unknown_attribute: Self::UnknownAttribute) -> Result<()> {
		self.events[36] += 1;
		self.inner.visit_unknown_attribute(unknown_attribute)
	}
}

// ---------------------------------------------------------------------------------------------
// a `SimpleClassVisitor` implemented in the harness (the trait the repository's own partial visitor uses)

/// collects the fields and methods it accepts into an otherwise empty `ClassFile` shell
pub struct SimpleMulti<'a> {
	pub out: Vec<ClassFile>,
	plan: &'a Plan,
	pub decisions: u64,
	/// callbacks received by the method and code visitors handed out (the class level is duke's blanket impl)
	pub events: Events,
}

impl<'a> SimpleMulti<'a> {
	pub fn new(plan: &'a Plan) -> SimpleMulti<'a> {
		SimpleMulti { out: Vec::new(), plan, decisions: 0, events: [0; 38] }
	}
}

pub struct Simple<'a> {
	shell: ClassFile,
	st: St<'a>,
}

impl<'a> MultiClassVisitor for SimpleMulti<'a> {
	type ClassVisitor = Simple<'a>;
	type ClassResidual = SimpleMulti<'a>;

	fn visit_class(mut self, version: Version, access: ClassAccess, name: ObjClassName, super_class: Option<ObjClassName>, interfaces: Vec<ObjClassName>)
			-> Result<ControlFlow<Self, (Self::ClassResidual, Self::ClassVisitor)>> {
		self.decisions += 1;
		if self.plan.decline_class {
			return Ok(ControlFlow::Break(self));
		}
		let st = St { plan: self.plan, record_i: 0, field_i: 0, method_i: 0, decisions: 1, events: [0; 38] };
		Ok(ControlFlow::Continue((self, Simple { shell: ClassFile::new(version, access, name, super_class, interfaces), st })))
	}

	fn finish_class(mut this: Self::ClassResidual, class_visitor: Self::ClassVisitor) -> Result<Self> {
		this.decisions += class_visitor.st.decisions;
		add_events(&mut this.events, &class_visitor.st.events);
		this.out.push(class_visitor.shell);
		Ok(this)
	}
}

impl<'a> SimpleClassVisitor for Simple<'a> {
	type FieldVisitor = MaskedField<Field>;
	type MethodVisitor = MMethod<'a>;

	fn visit_field(&mut self, access: FieldAccess, name: FieldName, descriptor: FieldDescriptor) -> Result<Option<Self::FieldVisitor>> {
		let i = self.st.field_i;
		self.st.field_i += 1;
		self.st.decisions += 1;
		self.st.events[18] += 1;
		if self.st.plan.decline_fields.contains(&i) {
			return Ok(None);
		}
		self.st.decisions += 1;
		Ok(Some(MaskedField::new(Field::new(access, name, descriptor), self.st.plan.field_interests(i))))
	}
	fn finish_field(&mut self, field_visitor: Self::FieldVisitor) -> Result<()> {
		self.shell.fields.push(field_visitor.into_inner());
		Ok(())
	}

	fn visit_method(&mut self, access: MethodAccess, name: MethodName, descriptor: MethodDescriptor) -> Result<Option<Self::MethodVisitor>> {
		let i = self.st.method_i;
		self.st.method_i += 1;
		self.st.decisions += 1;
		self.st.events[19] += 1;
		if self.st.plan.decline_methods.contains(&i) {
			return Ok(None);
		}
		Ok(Some(MMethod { inner: Method::new(access, name, descriptor), mst: MSt { plan: self.st.plan, index: i, no_code: self.st.plan.no_code.contains(&i), decisions: 1, events: [0; 38] } }))
	}
	fn finish_method(&mut self, method_visitor: Self::MethodVisitor) -> Result<()> {
		self.st.decisions += method_visitor.mst.decisions;
		add_events(&mut self.st.events, &method_visitor.mst.events);
		self.shell.methods.push(method_visitor.inner);
		Ok(())
	}
}
