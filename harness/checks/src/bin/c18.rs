//! C18 — descriptor and name types accept and print exactly the JVMS grammar they claim.
//!
//! Engine: exhaustive string enumeration (E4). Every string up to a length bound over a small alphabet
//! is pushed through the real `parse`/`write` of field, method and return descriptors and through the
//! real validity predicates / `TryFrom`s of the seven name newtypes; an independent recogniser written
//! from JVMS §4.2/§4.3 (and, for the name types, from their own documentation) says what must come out.
//! A second sweep goes the other way: every small type *structure* is written and parsed back.
//! The inner-class split/join helpers are checked for being mutually inverse on every short name.
//!
//! Replay body format (`--replay`): `kind=desc|name|struct|split|join` plus `string=`/`parser=`/
//! `parent=`/`inner=` lines.

use std::collections::{BTreeMap, BTreeSet};
use duke::tree::class::{ArrClassName, ArrClassNameSlice, ClassName, ClassNameSlice, ObjClassName, ObjClassNameSlice};
use duke::tree::descriptor::{ArrayType, ParsedFieldDescriptor, ParsedMethodDescriptor, ParsedReturnDescriptor, ReturnDescriptorSlice, Type};
use duke::tree::field::{FieldDescriptorSlice, FieldName, FieldNameSlice};
use duke::tree::method::code::{LocalVariableName, LocalVariableNameSlice};
use duke::tree::method::{MethodDescriptorSlice, MethodName, MethodNameSlice, ParameterName, ParameterNameSlice};
use java_string::{JavaStr, JavaString};
use rayon::prelude::*;
use vcore::{json, Ctx, Panic, Value};

// ---------------------------------------------------------------------------------------------
// reference: JVMS §4.3.2 / §4.3.3 descriptors, §4.2.1 / §4.2.2 names — written from the specification

/// The structure the grammar assigns to a `FieldType`. `Arr(n, e)`: `n ≥ 1` dimensions of the
/// non-array element `e`.
#[derive(Clone, Debug, PartialEq, Eq, Hash)]
enum R {
	Prim(char),
	Obj(String),
	Arr(u32, Box<R>),
}

/// Why the reference refuses a string.
#[derive(Clone, Copy, Debug, PartialEq, Eq)]
enum Why {
	AbruptEnd,
	BadChar,
	Void,
	EmptyClassName,
	Dot,
	EmptySegment,
	Bracket,
	MissingSemicolon,
	Trailing,
	NoOpenParen,
	NoCloseParen,
	VoidParam,
	TooManyDims,
}
const NWHY: usize = 13;
const WHYS: [Why; NWHY] = [
	Why::AbruptEnd, Why::BadChar, Why::Void, Why::EmptyClassName, Why::Dot, Why::EmptySegment, Why::Bracket,
	Why::MissingSemicolon, Why::Trailing, Why::NoOpenParen, Why::NoCloseParen, Why::VoidParam, Why::TooManyDims,
];

impl Why {
	fn name(self) -> &'static str {
		match self {
			Why::AbruptEnd => "abrupt-end",
			Why::BadChar => "unexpected-character",
			Why::Void => "void-as-field-type",
			Why::EmptyClassName => "empty-class-name",
			Why::Dot => "dot-in-class-name",
			Why::EmptySegment => "empty-class-name-segment",
			Why::Bracket => "bracket-in-class-name",
			Why::MissingSemicolon => "missing-semicolon",
			Why::Trailing => "trailing-garbage",
			Why::NoOpenParen => "missing-open-parenthesis",
			Why::NoCloseParen => "missing-close-parenthesis",
			Why::VoidParam => "void-as-parameter",
			Why::TooManyDims => "more-than-255-dimensions",
		}
	}
	fn accepts_key(self) -> &'static str {
		match self {
			Why::AbruptEnd => "desc.parse:accepts:abrupt-end",
			Why::BadChar => "desc.parse:accepts:unexpected-character",
			Why::Void => "desc.parse:accepts:void-as-field-type",
			Why::EmptyClassName => "desc.parse:accepts:empty-class-name",
			Why::Dot => "desc.parse:accepts:dot-in-class-name",
			Why::EmptySegment => "desc.parse:accepts:empty-class-name-segment",
			Why::Bracket => "desc.parse:accepts:bracket-in-class-name",
			Why::MissingSemicolon => "desc.parse:accepts:missing-semicolon",
			Why::Trailing => "desc.parse:accepts:trailing-garbage",
			Why::NoOpenParen => "desc.parse:accepts:missing-open-parenthesis",
			Why::NoCloseParen => "desc.parse:accepts:missing-close-parenthesis",
			Why::VoidParam => "desc.parse:accepts:void-as-parameter",
			Why::TooManyDims => "desc.parse:accepts:more-than-255-dimensions",
		}
	}
}

/// JVMS §4.2.1: a binary class name in internal form — identifiers separated by `/`, each an
/// unqualified name (§4.2.2: at least one code point, none of `.` `;` `[` `/`).
fn ref_class_name_in_descriptor(name: &[u8]) -> Result<(), Why> {
	if name.is_empty() {
		return Err(Why::EmptyClassName);
	}
	if name.contains(&b'[') {
		return Err(Why::Bracket);
	}
	if name.contains(&b'.') {
		return Err(Why::Dot);
	}
	if name.split(|b| *b == b'/').any(|seg| seg.is_empty()) {
		return Err(Why::EmptySegment);
	}
	Ok(())
}

/// FieldType: BaseType | `L` ClassName `;` | `[` ComponentType. Works on bytes: every structural
/// character is ASCII, so cutting at them keeps UTF-8 intact.
fn ref_field_type(s: &[u8], pos: &mut usize) -> Result<R, Why> {
	let Some(&c) = s.get(*pos) else { return Err(Why::AbruptEnd) };
	*pos += 1;
	match c {
		b'B' | b'C' | b'D' | b'F' | b'I' | b'J' | b'S' | b'Z' => Ok(R::Prim(c as char)),
		b'L' => {
			let rest = &s[*pos..];
			let Some(semi) = rest.iter().position(|b| *b == b';') else { return Err(Why::MissingSemicolon) };
			let name = &rest[..semi];
			*pos += semi + 1;
			ref_class_name_in_descriptor(name)?;
			Ok(R::Obj(String::from_utf8_lossy(name).into_owned()))
		},
		b'[' => {
			let component = ref_field_type(s, pos)?;
			let (n, e) = match component {
				R::Arr(n, e) => (n + 1, e),
				e => (1, Box::new(e)),
			};
			// §4.3.2: an array type descriptor is valid only if it represents 255 or fewer dimensions
			if n > 255 {
				return Err(Why::TooManyDims);
			}
			Ok(R::Arr(n, e))
		},
		b'V' => Err(Why::Void),
		_ => Err(Why::BadChar),
	}
}

/// What a descriptor of any of the three kinds means: `params` is `Some` for method descriptors only,
/// `ret == None` is `V`.
#[derive(Clone, Debug, PartialEq, Eq, Hash)]
struct Shape {
	params: Option<Vec<R>>,
	ret: Option<R>,
}

impl Shape {
	fn class_names(&self) -> impl Iterator<Item = &str> {
		self.params.iter().flatten().chain(self.ret.iter()).filter_map(|t| match t {
			R::Obj(n) => Some(n.as_str()),
			R::Arr(_, e) => match &**e {
				R::Obj(n) => Some(n.as_str()),
				_ => None,
			},
			R::Prim(_) => None,
		})
	}
}

const FIELD: usize = 0;
const METHOD: usize = 1;
const RETURN: usize = 2;
const PARSERS: [&str; 3] = ["field", "method", "return"];

fn ref_parse(kind: usize, s: &[u8]) -> Result<Shape, Why> {
	let mut pos = 0usize;
	let shape = match kind {
		FIELD => Shape { params: None, ret: Some(ref_field_type(s, &mut pos)?) },
		RETURN => Shape { params: None, ret: ref_return(s, &mut pos)? },
		_ => {
			if s.first() != Some(&b'(') {
				return Err(Why::NoOpenParen);
			}
			pos = 1;
			let mut params = Vec::new();
			loop {
				match s.get(pos) {
					None => return Err(Why::NoCloseParen),
					Some(b')') => {
						pos += 1;
						break;
					},
					Some(b'V') => return Err(Why::VoidParam),
					Some(_) => params.push(ref_field_type(s, &mut pos)?),
				}
			}
			Shape { params: Some(params), ret: ref_return(s, &mut pos)? }
		},
	};
	if pos != s.len() {
		return Err(Why::Trailing);
	}
	Ok(shape)
}

fn ref_return(s: &[u8], pos: &mut usize) -> Result<Option<R>, Why> {
	if s.get(*pos) == Some(&b'V') {
		*pos += 1;
		Ok(None)
	} else {
		ref_field_type(s, pos).map(Some)
	}
}

fn ref_print_type(r: &R, out: &mut String) {
	match r {
		R::Prim(c) => out.push(*c),
		R::Obj(n) => {
			out.push('L');
			out.push_str(n);
			out.push(';');
		},
		R::Arr(n, e) => {
			for _ in 0..*n {
				out.push('[');
			}
			ref_print_type(e, out);
		},
	}
}

fn ref_print(shape: &Shape) -> String {
	let mut out = String::new();
	if let Some(params) = &shape.params {
		out.push('(');
		for p in params {
			ref_print_type(p, &mut out);
		}
		out.push(')');
	}
	match &shape.ret {
		Some(t) => ref_print_type(t, &mut out),
		None => out.push('V'),
	}
	out
}

/// JVMS §4.2.2 unqualified name.
fn ref_unqualified(s: &str) -> bool {
	!s.is_empty() && !s.chars().any(|c| c == '.' || c == ';' || c == '[' || c == '/')
}

/// JVMS §4.2.2 method name: `<init>`, `<clinit>` or an unqualified name without `<` and `>`.
fn ref_method_name(s: &str) -> bool {
	s == "<init>" || s == "<clinit>" || (ref_unqualified(s) && !s.contains('<') && !s.contains('>'))
}

/// JVMS §4.2.1 binary name of a class or interface in internal form.
fn ref_obj_class_name(s: &str) -> bool {
	s.split('/').all(ref_unqualified)
}

/// "Array class names always start with `[` followed by a field descriptor" (doc of `ArrClassName`),
/// i.e. the string is an array-type field descriptor.
fn ref_arr_class_name(s: &str) -> Result<(), &'static str> {
	if !s.starts_with('[') {
		return Err("undocumented");
	}
	match ref_parse(FIELD, s.as_bytes()) {
		Ok(_) => Ok(()),
		Err(Why::TooManyDims) => Err("array-over-255-dimensions"),
		Err(_) => Err("array-descriptor-invalid"),
	}
}

const NAME_TYPES: [&str; 7] = ["ClassName", "ArrClassName", "ObjClassName", "FieldName", "MethodName", "ParameterName", "LocalVariableName"];

/// What the documentation of name type `k` says about `s`: `Ok` = valid, `Err(kind)` = not valid.
fn ref_name(k: usize, s: &str) -> Result<(), &'static str> {
	let plain = |b: bool| if b { Ok(()) } else { Err("undocumented") };
	match k {
		// "can both be an array class name as allowed by ArrClassName and an object class name as allowed by ObjClassName"
		0 => if s.starts_with('[') { ref_arr_class_name(s) } else { plain(ref_obj_class_name(s)) },
		1 => ref_arr_class_name(s),
		2 => plain(ref_obj_class_name(s)),
		3 | 5 | 6 => plain(ref_unqualified(s)),
		4 => plain(ref_method_name(s)),
		_ => vcore::machinery_fail("name type index"),
	}
}

// ---------------------------------------------------------------------------------------------
// real code adapters

fn lossy(s: &JavaStr) -> String {
	s.as_str_lossy().into_owned()
}

fn real_to_r(t: &Type) -> R {
	match t {
		Type::B => R::Prim('B'),
		Type::C => R::Prim('C'),
		Type::D => R::Prim('D'),
		Type::F => R::Prim('F'),
		Type::I => R::Prim('I'),
		Type::J => R::Prim('J'),
		Type::S => R::Prim('S'),
		Type::Z => R::Prim('Z'),
		Type::Object(c) => R::Obj(lossy(c.as_inner())),
		Type::Array(n, a) => R::Arr(*n as u32, Box::new(match a {
			ArrayType::B => R::Prim('B'),
			ArrayType::C => R::Prim('C'),
			ArrayType::D => R::Prim('D'),
			ArrayType::F => R::Prim('F'),
			ArrayType::I => R::Prim('I'),
			ArrayType::J => R::Prim('J'),
			ArrayType::S => R::Prim('S'),
			ArrayType::Z => R::Prim('Z'),
			ArrayType::Object(c) => R::Obj(lossy(c.as_inner())),
		})),
	}
}

/// Builds the real `Type` for a reference structure through the checked constructors only.
fn r_to_real(r: &R) -> Result<Type, String> {
	Ok(match r {
		R::Prim('B') => Type::B,
		R::Prim('C') => Type::C,
		R::Prim('D') => Type::D,
		R::Prim('F') => Type::F,
		R::Prim('I') => Type::I,
		R::Prim('J') => Type::J,
		R::Prim('S') => Type::S,
		R::Prim('Z') => Type::Z,
		R::Prim(c) => return Err(format!("no primitive {c}")),
		R::Obj(n) => Type::Object(ObjClassName::try_from(JavaString::from(n.as_str())).map_err(|e| format!("{e:#}"))?),
		R::Arr(n, e) => {
			let n = u8::try_from(*n).map_err(|_| "dimension does not fit".to_owned())?;
			Type::Array(n, match &**e {
				R::Prim('B') => ArrayType::B,
				R::Prim('C') => ArrayType::C,
				R::Prim('D') => ArrayType::D,
				R::Prim('F') => ArrayType::F,
				R::Prim('I') => ArrayType::I,
				R::Prim('J') => ArrayType::J,
				R::Prim('S') => ArrayType::S,
				R::Prim('Z') => ArrayType::Z,
				R::Obj(name) => ArrayType::Object(ClassName::try_from(JavaString::from(name.as_str())).map_err(|e| format!("{e:#}"))?),
				other => return Err(format!("no array element {other:?}")),
			})
		},
	})
}

enum Parsed {
	F(ParsedFieldDescriptor),
	M(ParsedMethodDescriptor),
	R(ParsedReturnDescriptor),
}

impl Parsed {
	fn shape(&self) -> Shape {
		match self {
			Parsed::F(p) => Shape { params: None, ret: Some(real_to_r(&p.0)) },
			Parsed::M(p) => Shape { params: Some(p.parameter_descriptors.iter().map(real_to_r).collect()), ret: p.return_descriptor.as_ref().map(real_to_r) },
			Parsed::R(p) => Shape { params: None, ret: p.0.as_ref().map(real_to_r) },
		}
	}
	/// real `write`
	fn write(&self) -> String {
		match self {
			Parsed::F(p) => lossy(p.write().as_inner()),
			Parsed::M(p) => lossy(p.write().as_inner()),
			Parsed::R(p) => lossy(p.write().as_inner()),
		}
	}
	fn same(&self, other: &Parsed) -> bool {
		match (self, other) {
			(Parsed::F(a), Parsed::F(b)) => a == b,
			(Parsed::M(a), Parsed::M(b)) => a == b,
			(Parsed::R(a), Parsed::R(b)) => a == b,
			_ => false,
		}
	}
}

/// real `parse` of descriptor kind `kind`; `None` = refused (by the `TryFrom` of the slice type or by `parse`)
fn real_parse(kind: usize, s: &str) -> Option<Parsed> {
	let js = JavaStr::from_str(s);
	match kind {
		FIELD => <&FieldDescriptorSlice>::try_from(js).ok().and_then(|d| d.parse().ok()).map(Parsed::F),
		METHOD => <&MethodDescriptorSlice>::try_from(js).ok().and_then(|d| d.parse().ok()).map(Parsed::M),
		_ => <&ReturnDescriptorSlice>::try_from(js).ok().and_then(|d| d.parse().ok()).map(Parsed::R),
	}
}

fn shape_to_real(kind: usize, shape: &Shape) -> Result<Parsed, String> {
	let ret = match &shape.ret {
		Some(r) => Some(r_to_real(r)?),
		None => None,
	};
	Ok(match kind {
		FIELD => Parsed::F(ParsedFieldDescriptor(ret.ok_or("field descriptor without type")?)),
		METHOD => {
			let mut params = Vec::new();
			for p in shape.params.as_ref().ok_or("method descriptor without parameter list")? {
				params.push(r_to_real(p)?);
			}
			Parsed::M(ParsedMethodDescriptor { parameter_descriptors: params, return_descriptor: ret })
		},
		_ => Parsed::R(ParsedReturnDescriptor(ret)),
	})
}

/// What the real name type `k` does with `s`: `is_valid`, and for each of the three `TryFrom`s whether it
/// accepted (`Some(faithful)`: the accepted value holds and prints exactly `s`).
#[derive(Debug, PartialEq, Eq)]
struct NameObs {
	is_valid: bool,
	slice: Option<bool>,
	owned: Option<bool>,
	owned_from_ref: Option<bool>,
}

macro_rules! name_obs {
	($owned:ty, $slice:ty, $s:expr) => {{
		let s: &str = $s;
		let js: &JavaStr = JavaStr::from_str(s);
		NameObs {
			is_valid: <$owned>::is_valid(js),
			slice: <&$slice>::try_from(js).ok().map(|v| v.as_inner() == js && v.to_string() == s),
			owned: <$owned>::try_from(js.to_owned()).ok().map(|v| v.as_inner() == js && v.to_string() == s),
			owned_from_ref: <$owned>::try_from(js).ok().map(|v| v.as_inner() == js),
		}
	}};
}

fn real_name(k: usize, s: &str) -> NameObs {
	match k {
		0 => name_obs!(ClassName, ClassNameSlice, s),
		1 => name_obs!(ArrClassName, ArrClassNameSlice, s),
		2 => name_obs!(ObjClassName, ObjClassNameSlice, s),
		3 => name_obs!(FieldName, FieldNameSlice, s),
		4 => name_obs!(MethodName, MethodNameSlice, s),
		5 => name_obs!(ParameterName, ParameterNameSlice, s),
		6 => name_obs!(LocalVariableName, LocalVariableNameSlice, s),
		_ => vcore::machinery_fail("name type index"),
	}
}

/// panic site with the checkout prefix removed (`/repo/…` or a scratch copy `…/repo/…`), line number dropped
fn site_file(p: &Panic) -> String {
	let f = p.file();
	f.rsplit_once("/repo/").map(|(_, rest)| rest).unwrap_or(f).to_owned()
}

// ---------------------------------------------------------------------------------------------
// counters

#[derive(Clone, Default)]
struct Tally {
	/// executions of real /repo functions (parse, write, is_valid, try_from, split, join)
	evals: u64,
	d_both_accept: [u64; 3],
	d_both_reject: [[u64; NWHY]; 3],
	d_real_only: [[u64; NWHY]; 3],
	d_ref_only: [u64; 3],
	d_rewritten_same: [u64; 3],
	n_both_accept: [u64; 7],
	n_both_reject: [u64; 7],
	n_real_only: [u64; 7],
	n_ref_only: [u64; 7],
	strings: u64,
	misc: BTreeMap<&'static str, u64>,
}

impl Tally {
	fn new() -> Tally {
		Tally::default()
	}
	fn bump(&mut self, k: &'static str) {
		*self.misc.entry(k).or_insert(0) += 1;
	}
	fn get(&self, k: &str) -> u64 {
		self.misc.get(k).copied().unwrap_or(0)
	}
	fn merge(mut self, o: Tally) -> Tally {
		self.evals += o.evals;
		self.strings += o.strings;
		for k in 0..3 {
			self.d_both_accept[k] += o.d_both_accept[k];
			self.d_ref_only[k] += o.d_ref_only[k];
			self.d_rewritten_same[k] += o.d_rewritten_same[k];
			for w in 0..NWHY {
				self.d_both_reject[k][w] += o.d_both_reject[k][w];
				self.d_real_only[k][w] += o.d_real_only[k][w];
			}
		}
		for k in 0..7 {
			self.n_both_accept[k] += o.n_both_accept[k];
			self.n_both_reject[k] += o.n_both_reject[k];
			self.n_real_only[k] += o.n_real_only[k];
			self.n_ref_only[k] += o.n_ref_only[k];
		}
		for (k, v) in o.misc {
			*self.misc.entry(k).or_insert(0) += v;
		}
		self
	}
	fn ref_accepts_desc(&self, k: usize) -> u64 {
		self.d_both_accept[k] + self.d_ref_only[k]
	}
	fn ref_accepts_name(&self, k: usize) -> u64 {
		self.n_both_accept[k] + self.n_ref_only[k]
	}
}

/// `what` is only rendered when the key is not an open known finding (those keep their recorded text).
fn report(ctx: &Ctx, key: &str, what: impl FnOnce() -> String, replay: impl FnOnce() -> String) {
	if ctx.is_known(key) {
		ctx.diff(key, "", String::new);
	} else {
		ctx.diff(key, &what(), replay);
	}
}

// ---------------------------------------------------------------------------------------------
// oracles

/// One string through the three descriptor parsers.
fn check_desc(ctx: &Ctx, t: &mut Tally, s: &str) {
	for kind in 0..3 {
		let pname = PARSERS[kind];
		let replay = || format!("kind=desc\nparser={pname}\nstring={s}");
		let want = ref_parse(kind, s.as_bytes());
		if let Ok(shape) = &want {
			// cross-check of the reference itself: the grammar is unambiguous, printing its reading gives the string back
			if ref_print(shape) != s {
				vcore::machinery_fail(&format!("reference printer/recogniser disagree on {s:?}"));
			}
		}
		t.evals += 1;
		let got = match vcore::guard(|| real_parse(kind, s)) {
			Ok(g) => g,
			Err(p) => {
				report(ctx, &format!("desc.parse:{pname}:panic@{}", site_file(&p)), || format!("{pname} descriptor parse({s:?}) panicked at {}: {}", p.site, p.msg), replay);
				continue;
			},
		};
		match (got, want) {
			(Some(parsed), Ok(shape)) => {
				t.d_both_accept[kind] += 1;
				let seen = parsed.shape();
				if seen != shape {
					report(ctx, &format!("desc.parse:{pname}:wrong-structure"), || format!("{pname} descriptor parse({s:?}) = {seen:?}, the grammar assigns {shape:?}"), replay);
				}
				t.evals += 1;
				match vcore::guard(|| parsed.write()) {
					Ok(w) if w == s => t.d_rewritten_same[kind] += 1,
					Ok(w) => report(ctx, &format!("desc.write:{pname}:not-the-original-string"), || format!("{pname} descriptor write(parse({s:?})) = {w:?}"), replay),
					Err(p) => report(ctx, &format!("desc.write:{pname}:panic@{}", site_file(&p)), || format!("{pname} descriptor write(parse({s:?})) panicked at {}: {}", p.site, p.msg), replay),
				}
			},
			(Some(parsed), Err(why)) => {
				t.d_real_only[kind][why as usize] += 1;
				report(ctx, why.accepts_key(), || format!("{pname} descriptor parse({s:?}) succeeded with {:?}; the string is outside the JVMS grammar ({})", parsed.shape(), why.name()), replay);
				// outside the grammar nothing is demanded of write except that it does not panic
				t.evals += 1;
				if let Err(p) = vcore::guard(|| parsed.write()) {
					// keyed by what is visibly wrong with the structure handed to write, not by the first thing wrong with the string
					let cause = if parsed.shape().class_names().any(|n| n.starts_with('[')) { "class-name-starting-with-bracket".to_owned() } else { format!("after-accepting:{}", why.name()) };
					report(ctx, &format!("desc.write:panic@{}:{cause}", site_file(&p)), || format!("{pname} descriptor parse({s:?}) succeeded and write() of the result panicked at {}: {}", p.site, p.msg), replay);
				}
			},
			(None, Ok(shape)) => {
				t.d_ref_only[kind] += 1;
				report(ctx, &format!("desc.parse:{pname}:rejects-valid"), || format!("{pname} descriptor parse({s:?}) failed; the grammar reads it as {shape:?}"), replay);
			},
			(None, Err(why)) => t.d_both_reject[kind][why as usize] += 1,
		}
	}
}

/// One string through the seven name types.
fn check_name(ctx: &Ctx, t: &mut Tally, s: &str) {
	for k in 0..7 {
		let tname = NAME_TYPES[k];
		let replay = || format!("kind=name\ntype={tname}\nstring={s}");
		t.evals += 4;
		let obs = match vcore::guard(|| real_name(k, s)) {
			Ok(o) => o,
			Err(p) => {
				report(ctx, &format!("name:{tname}:panic@{}", site_file(&p)), || format!("{tname} validity check of {s:?} panicked at {}: {}", p.site, p.msg), replay);
				continue;
			},
		};
		let tf = [obs.slice, obs.owned, obs.owned_from_ref];
		if tf.iter().any(|x| x.is_some() != obs.is_valid) {
			report(ctx, &format!("name:{tname}:try_from-disagrees-with-is_valid"), || format!("{tname} on {s:?}: {obs:?}"), replay);
		}
		if tf.iter().any(|x| *x == Some(false)) {
			report(ctx, &format!("name:{tname}:accepted-value-differs"), || format!("{tname}::try_from({s:?}) succeeded but holds or prints a different string: {obs:?}"), replay);
		}
		match (obs.is_valid, ref_name(k, s)) {
			(true, Ok(())) => t.n_both_accept[k] += 1,
			(false, Err(_)) => t.n_both_reject[k] += 1,
			(true, Err(kind)) => {
				t.n_real_only[k] += 1;
				report(ctx, &format!("name:{tname}:accepts:{kind}"), || format!("{tname}::is_valid({s:?}) = true, its documentation does not allow the string ({kind})"), replay);
			},
			(false, Ok(())) => {
				t.n_ref_only[k] += 1;
				report(ctx, &format!("name:{tname}:rejects-documented"), || format!("{tname}::is_valid({s:?}) = false, its documentation allows the string"), replay);
			},
		}
	}
}

/// write → parse of one structure.
fn check_struct(ctx: &Ctx, t: &mut Tally, kind: usize, shape: &Shape) {
	let pname = PARSERS[kind];
	let text = ref_print(shape);
	let replay = || format!("kind=struct\nparser={pname}\nstring={text}");
	match ref_parse(kind, text.as_bytes()) {
		Ok(back) if &back == shape => {},
		other => vcore::machinery_fail(&format!("reference recogniser does not read back its own print of {shape:?}: {other:?}")),
	}
	let real = match shape_to_real(kind, shape) {
		Ok(r) => r,
		Err(e) => {
			report(ctx, &format!("struct:{pname}:cannot-construct"), || format!("a valid class name was refused while building {shape:?}: {e}"), replay);
			return;
		},
	};
	t.evals += 1;
	let written = match vcore::guard(|| real.write()) {
		Ok(w) => w,
		Err(p) => {
			report(ctx, &format!("desc.write:{pname}:panic@{}", site_file(&p)), || format!("{pname} descriptor write({shape:?}) panicked at {}: {}", p.site, p.msg), replay);
			return;
		},
	};
	if written != text {
		report(ctx, &format!("desc.write:{pname}:wrong-string"), || format!("{pname} descriptor write({shape:?}) = {written:?}, the grammar spells it {text:?}"), replay);
	}
	t.evals += 1;
	match vcore::guard(|| real_parse(kind, &written)) {
		Ok(Some(back)) => {
			if back.same(&real) && back.shape() == *shape {
				t.bump(match kind { FIELD => "struct:field:round-trip", METHOD => "struct:method:round-trip", _ => "struct:return:round-trip" });
			} else {
				report(ctx, &format!("desc.write:{pname}:parse-of-written-differs"), || format!("{pname} descriptor parse(write(t)) = {:?} for t = {shape:?} (written {written:?})", back.shape()), replay);
			}
		},
		Ok(None) => report(ctx, &format!("desc.write:{pname}:written-not-parseable"), || format!("{pname} descriptor parse(write(t)) failed for t = {shape:?} (written {written:?})"), replay),
		Err(p) => report(ctx, &format!("desc.parse:{pname}:panic@{}", site_file(&p)), || format!("{pname} descriptor parse({written:?}) panicked at {}: {}", p.site, p.msg), replay),
	}
}

fn obj(s: &str) -> Option<&ObjClassNameSlice> {
	<&ObjClassNameSlice>::try_from(JavaStr::from_str(s)).ok()
}

/// `join(split(x)) == x` for a valid object class name `x`.
fn check_split(ctx: &Ctx, t: &mut Tally, x: &str) {
	let replay = || format!("kind=split\nstring={x}");
	let Some(xs) = obj(x) else { return }; // refusal of a valid name is reported by check_name
	t.evals += 1;
	let parts = match vcore::guard(|| xs.split_inner_class_parent_and_name().map(|(p, i)| (p.to_owned(), i.to_owned()))) {
		Ok(p) => p,
		Err(p) => {
			report(ctx, &format!("split:panic@{}", site_file(&p)), || format!("split_inner_class_parent_and_name({x:?}) panicked at {}: {}", p.site, p.msg), replay);
			return;
		},
	};
	let Some((parent, inner)) = parts else {
		t.bump("split:none");
		return;
	};
	t.bump("split:some");
	let (ps, is) = (lossy(parent.as_inner()), lossy(inner.as_inner()));
	if !ref_obj_class_name(&ps) || !ref_obj_class_name(&is) {
		report(ctx, "split:returns-invalid-object-class-name", || format!("split({x:?}) = ({ps:?}, {is:?}): a part typed ObjClassName is not a valid object class name"), replay);
	}
	t.evals += 1;
	match vcore::guard(|| lossy(ObjClassName::from_inner_class(parent.clone(), &inner).as_inner())) {
		Ok(j) if j == x => t.bump("split:join-of-split-is-identity"),
		Ok(j) => report(ctx, "split:join-of-split-differs", || format!("split({x:?}) = ({ps:?}, {is:?}) and from_inner_class of the parts = {j:?}"), replay),
		Err(p) => report(ctx, &format!("join:panic@{}", site_file(&p)), || format!("from_inner_class({ps:?}, {is:?}) panicked at {}: {}", p.site, p.msg), replay),
	}
}

/// `split(join(p, i)) == (p, i)` for a valid outer `p` and a `$`-free, `/`-free inner `i`.
fn check_join(ctx: &Ctx, t: &mut Tally, p: &str, i: &str) {
	let replay = || format!("kind=join\nparent={p}\ninner={i}");
	let (Some(ps), Some(is)) = (obj(p), obj(i)) else { return };
	t.evals += 1;
	let joined = match vcore::guard(|| ObjClassName::from_inner_class(ps.to_owned(), is)) {
		Ok(j) => j,
		Err(pn) => {
			report(ctx, &format!("join:panic@{}", site_file(&pn)), || format!("from_inner_class({p:?}, {i:?}) panicked at {}: {}", pn.site, pn.msg), replay);
			return;
		},
	};
	let js = lossy(joined.as_inner());
	if !ref_obj_class_name(&js) {
		report(ctx, "join:returns-invalid-object-class-name", || format!("from_inner_class({p:?}, {i:?}) = {js:?} is not a valid object class name"), replay);
	}
	t.evals += 1;
	match vcore::guard(|| joined.split_inner_class_parent_and_name().map(|(a, b)| (lossy(a.as_inner()), lossy(b.as_inner())))) {
		Ok(Some((a, b))) if a == p && b == i => t.bump("join:split-of-join-is-identity"),
		Ok(other) => report(ctx, "join:split-of-join-differs", || format!("from_inner_class({p:?}, {i:?}) = {js:?} and splitting that gives {other:?}"), replay),
		Err(pn) => report(ctx, &format!("split:panic@{}", site_file(&pn)), || format!("split_inner_class_parent_and_name({js:?}) panicked at {}: {}", pn.site, pn.msg), replay),
	}
}

// ---------------------------------------------------------------------------------------------
// enumeration

const DESC_ALPHABET: &[u8] = b"BDLa/;[()V.$";
const NAME_ALPHABET: &[u8] = b"a.;[/<>$";
const CHUNK: u64 = 8192;

fn nth_string(alphabet: &[u8], len: usize, mut idx: u64, out: &mut Vec<u8>) {
	let k = alphabet.len() as u64;
	out.clear();
	out.resize(len, 0);
	for i in (0..len).rev() {
		out[i] = alphabet[(idx % k) as usize];
		idx /= k;
	}
}

/// Every string of length `0..=max_len` over `alphabet`, in parallel chunks; sums are order-independent.
fn sweep(label: &'static str, alphabet: &'static [u8], max_len: usize, f: impl Fn(&mut Tally, &str) + Sync) -> Tally {
	let mut jobs: Vec<(usize, u64, u64)> = Vec::new();
	for len in 0..=max_len {
		let total = (alphabet.len() as u64).pow(len as u32);
		let mut a = 0;
		while a < total {
			let b = (a + CHUNK).min(total);
			jobs.push((len, a, b));
			a = b;
		}
	}
	jobs.into_par_iter().fold(Tally::new, |mut t, (len, a, b)| {
		vcore::watched(|| format!("{label} sweep: strings of length {len} over {:?}, indices {a}..{b}", String::from_utf8_lossy(alphabet)), || {
			let mut buf = Vec::new();
			for idx in a..b {
				nth_string(alphabet, len, idx, &mut buf);
				let s = std::str::from_utf8(&buf).unwrap_or_else(|_| vcore::machinery_fail("alphabet is ASCII"));
				t.strings += 1;
				f(&mut t, s);
			}
		});
		t
	}).reduce(Tally::new, Tally::merge)
}

fn all_strings(alphabet: &[u8], max_len: usize) -> Vec<String> {
	let mut out = Vec::new();
	let mut buf = Vec::new();
	for len in 0..=max_len {
		for idx in 0..(alphabet.len() as u64).pow(len as u32) {
			nth_string(alphabet, len, idx, &mut buf);
			out.push(String::from_utf8_lossy(&buf).into_owned());
		}
	}
	out
}

/// `<init>`, `<clinit>` and every string one edit (deletion, substitution, insertion) away.
fn special_name_neighbours() -> Vec<String> {
	let mut edit_alphabet: Vec<char> = NAME_ALPHABET.iter().map(|b| *b as char).collect();
	edit_alphabet.extend(['i', 'n', 't', 'c', 'l', 'I', 'x']);
	let mut out: BTreeSet<String> = BTreeSet::new();
	for word in ["<init>", "<clinit>"] {
		let w: Vec<char> = word.chars().collect();
		out.insert(word.to_owned());
		for i in 0..w.len() {
			let mut d = w.clone();
			d.remove(i);
			out.insert(d.into_iter().collect());
			for c in &edit_alphabet {
				let mut s = w.clone();
				s[i] = *c;
				out.insert(s.into_iter().collect());
			}
		}
		for i in 0..=w.len() {
			for c in &edit_alphabet {
				let mut s = w.clone();
				s.insert(i, *c);
				out.insert(s.into_iter().collect());
			}
		}
	}
	out.into_iter().collect()
}

/// Explicit probes outside the swept alphabet: the 255-dimension boundary in every position, the
/// primitives the alphabet leaves out, a few realistic descriptors.
fn explicit_probes() -> Vec<String> {
	let mut out: BTreeSet<String> = BTreeSet::new();
	for n in [254usize, 255, 256, 257] {
		let dims = "[".repeat(n);
		for base in ["B", "I", "La;", "Ljava/lang/Object;", "V", "", "a", "L;"] {
			let t = format!("{dims}{base}");
			out.insert(t.clone());
			out.insert(format!("({t})V"));
			out.insert(format!("(){t}"));
			out.insert(format!("(I{t}{t})I"));
			out.insert(format!("{t}{t}"));
		}
	}
	for p in ["B", "C", "D", "F", "I", "J", "S", "Z", "V"] {
		out.insert(p.to_owned());
		out.insert(format!("[{p}"));
		out.insert(format!("[[[{p}"));
		out.insert(format!("({p}){p}"));
		out.insert(format!("({p}[{p}){p}"));
		out.insert(format!("L{p};"));
	}
	for s in [
		"(IDLjava/lang/Thread;)Ljava/lang/Object;", "(Ljava/lang/Thread;Ljava/lang/Object;)V", "Ljava/lang/Object;", "[[Ljava/lang/Integer;",
		"Ljava.lang.Object;", "Ljava/lang//Object;", "L/java/lang/Object;", "Ljava/lang/Object/;", "L[Ljava/lang/Object;;", "Ljava/lang/Object",
		"(Ljava/lang/Object;", "Ljava/lang/Object;)V", "()", "()VV", "(V)V", "([V)V", "()[V", "LÉ/☃;", "(LÉ;)[LÉ;",
	] {
		out.insert(s.to_owned());
	}
	out.into_iter().collect()
}

fn element_types(class_names: &[&str]) -> Vec<R> {
	let mut e: Vec<R> = "BCDFIJSZ".chars().map(R::Prim).collect();
	e.extend(class_names.iter().map(|n| R::Obj(n.to_string())));
	e
}

const STRUCT_DIMS: [u32; 4] = [1, 2, 254, 255];

/// every type of depth ≤ 2: an element type, or an array of 1, 2, 254 or 255 dimensions of one
fn type_universe(class_names: &[&str]) -> Vec<R> {
	let elems = element_types(class_names);
	let mut out = elems.clone();
	for d in STRUCT_DIMS {
		for e in &elems {
			out.push(R::Arr(d, Box::new(e.clone())));
		}
	}
	out
}

/// every descriptor structure over `types`: fields, returns, methods with up to two parameters
fn struct_universe(types: &[R]) -> Vec<(usize, Shape)> {
	let mut out = Vec::new();
	for t in types {
		out.push((FIELD, Shape { params: None, ret: Some(t.clone()) }));
	}
	let mut rets: Vec<Option<R>> = vec![None];
	rets.extend(types.iter().cloned().map(Some));
	for r in &rets {
		out.push((RETURN, Shape { params: None, ret: r.clone() }));
	}
	let mut param_lists: Vec<Vec<R>> = vec![vec![]];
	for a in types {
		param_lists.push(vec![a.clone()]);
	}
	for a in types {
		for b in types {
			param_lists.push(vec![a.clone(), b.clone()]);
		}
	}
	for p in &param_lists {
		for r in &rets {
			out.push((METHOD, Shape { params: Some(p.clone()), ret: r.clone() }));
		}
	}
	out
}

// ---------------------------------------------------------------------------------------------
// independent counts of the languages (cross-check of the reference recogniser, exit 2 on mismatch)

/// number of §4.2.1 class names of each length `0..=n` when `ids` characters may appear in an identifier
fn count_class_names(ids: u64, n: usize) -> Vec<u64> {
	// a[m] = names of length m (they end in an identifier character): the last character follows either a
	// shorter name directly or a shorter name and a `/`
	let mut a = vec![0u64; n + 1];
	for m in 1..=n {
		a[m] = if m == 1 { ids } else { ids * a[m - 1] + ids * a[m - 2] };
	}
	a
}

/// expected number of strings of length ≤ `n` over the descriptor alphabet in each of the three languages
fn count_descriptors(n: usize) -> [u64; 3] {
	let ids = DESC_ALPHABET.iter().filter(|b| !matches!(**b, b'.' | b';' | b'[' | b'/')).count() as u64;
	let prims = DESC_ALPHABET.iter().filter(|b| b"BCDFIJSZ".contains(*b)).count() as u64;
	let cn = count_class_names(ids, n);
	let base = |m: usize| -> u64 { if m == 1 { prims } else if m >= 3 { cn[m - 2] } else { 0 } };
	// f[m]: field types of length m = d brackets and a base of length m - d
	let f: Vec<u64> = (0..=n).map(|m| (0..m).map(|d| base(m - d)).sum()).collect();
	let rt: Vec<u64> = (0..=n).map(|m| f[m] + u64::from(m == 1)).collect();
	// p[m]: sequences of field types of total length m
	let mut p = vec![0u64; n + 1];
	p[0] = 1;
	for m in 1..=n {
		p[m] = (1..=m).map(|k| f[k] * p[m - k]).sum();
	}
	let m_: Vec<u64> = (0..=n).map(|m| if m < 3 { 0 } else { (0..=m - 2).map(|a| p[a] * rt[m - 2 - a]).sum() }).collect();
	[f.iter().sum(), m_.iter().sum(), rt.iter().sum()]
}

/// expected number of strings of length ≤ `n` over the name alphabet that each name type documents as valid
/// (no array class name can be spelt in that alphabet: it has no base type letter and no `L`)
fn count_names(n: usize) -> [u64; 7] {
	let ids = NAME_ALPHABET.iter().filter(|b| !matches!(**b, b'.' | b';' | b'[' | b'/')).count() as u64;
	let method_ids = NAME_ALPHABET.iter().filter(|b| !matches!(**b, b'.' | b';' | b'[' | b'/' | b'<' | b'>')).count() as u64;
	let obj: u64 = count_class_names(ids, n).iter().sum();
	let unq: u64 = (1..=n).map(|m| ids.pow(m as u32)).sum();
	let meth: u64 = (1..=n).map(|m| method_ids.pow(m as u32)).sum();
	[obj, 0, obj, unq, meth, unq, unq]
}

// ---------------------------------------------------------------------------------------------

fn sample_desc(s: &str) -> Value {
	let mut per = serde_json::Map::new();
	for kind in 0..3 {
		let real = vcore::guard(|| real_parse(kind, s).map(|p| (format!("{:?}", p.shape()), vcore::guard(|| p.write()).map_err(|p| format!("panic at {}", p.site)))));
		per.insert(PARSERS[kind].to_owned(), json!({
			"reference": match ref_parse(kind, s.as_bytes()) { Ok(sh) => format!("accept {sh:?}"), Err(w) => format!("reject ({})", w.name()) },
			"real": match real { Ok(Some((sh, w))) => format!("accept {sh} write={w:?}"), Ok(None) => "reject".to_owned(), Err(p) => format!("panic at {}", p.site) },
		}));
	}
	json!({"kind": "descriptor-string", "string": s, "parsers": per})
}

fn sample_name(s: &str) -> Value {
	let mut per = serde_json::Map::new();
	for k in 0..7 {
		per.insert(NAME_TYPES[k].to_owned(), json!({
			"documented": ref_name(k, s).is_ok(),
			"real_is_valid": vcore::guard(|| real_name(k, s).is_valid).ok(),
		}));
	}
	json!({"kind": "name-string", "string": s, "types": per})
}

fn main() {
	// Every refusal of the code under test builds an anyhow::Error; with RUST_BACKTRACE set in the caller's
	// environment each of them would capture a backtrace under a global lock (hundreds of millions here).
	// Set before any thread exists; it changes no verdict, only the cost of an Err.
	std::env::set_var("RUST_LIB_BACKTRACE", "0");
	let ctx: &'static Ctx = Box::leak(Box::new(Ctx::new("C18", "exploration")));
	if let Some(path) = ctx.replay.clone() {
		replay(ctx, &path);
	}
	let desc_len = ctx.tier.pick(6, 7);
	let name_len = ctx.tier.pick(6, 8);
	let split_len = ctx.tier.pick(6, 8);
	let (parent_len, inner_len) = ctx.tier.pick((4, 3), (5, 4));
	let class_names: Vec<&str> = ctx.tier.pick(vec!["a", "a/b", "p/A$B"], vec!["a", "a/b", "p/A$B", "java/lang/Object", "L", "(V)"]);

	// 1. descriptor alphabet: three parsers and all seven name types on every string
	let d = sweep("descriptor", DESC_ALPHABET, desc_len, |t, s| {
		check_desc(ctx, t, s);
		check_name(ctx, t, s);
	});
	let want = count_descriptors(desc_len);
	for k in 0..3 {
		if d.ref_accepts_desc(k) != want[k] {
			vcore::machinery_fail(&format!("reference recogniser accepts {} {} descriptors of length ≤ {desc_len}, the counting argument gives {}", d.ref_accepts_desc(k), PARSERS[k], want[k]));
		}
	}
	if d.strings != vcore::enumerate::strings_count(DESC_ALPHABET.len(), desc_len) {
		vcore::machinery_fail("descriptor sweep did not visit every string");
	}

	// 2. name alphabet: all seven name types on every string
	let n = sweep("name", NAME_ALPHABET, name_len, |t, s| check_name(ctx, t, s));
	let want = count_names(name_len);
	for k in 0..7 {
		if n.ref_accepts_name(k) != want[k] {
			vcore::machinery_fail(&format!("reference predicate for {} accepts {} names of length ≤ {name_len}, the counting argument gives {}", NAME_TYPES[k], n.ref_accepts_name(k), want[k]));
		}
	}
	if n.strings != vcore::enumerate::strings_count(NAME_ALPHABET.len(), name_len) {
		vcore::machinery_fail("name sweep did not visit every string");
	}

	// 3. <init>/<clinit> neighbourhood and explicit probes (255/256/257 dimensions, remaining primitives)
	let neighbours = special_name_neighbours();
	let probes = explicit_probes();
	let x = neighbours.par_iter().map(|s| (s, false)).chain(probes.par_iter().map(|s| (s, true))).fold(Tally::new, |mut t, (s, desc)| {
		vcore::watched(|| format!("explicit string {s:?}"), || {
			t.strings += 1;
			if desc {
				check_desc(ctx, &mut t, s);
			}
			check_name(ctx, &mut t, s);
		});
		t
	}).reduce(Tally::new, Tally::merge);
	// the dimension boundary, judged one by one so that the floor names what was seen
	let mut boundary = BTreeMap::new();
	for (dims, must_accept) in [(254usize, true), (255, true), (256, false), (257, false)] {
		for (kind, s) in [(FIELD, format!("{}B", "[".repeat(dims))), (RETURN, format!("{}La;", "[".repeat(dims))), (METHOD, format!("({}I)V", "[".repeat(dims))), (METHOD, format!("(){}I", "[".repeat(dims)))] {
			if ref_parse(kind, s.as_bytes()).is_ok() != must_accept {
				vcore::machinery_fail("reference recogniser is wrong about the dimension limit");
			}
			let real = vcore::guard(|| real_parse(kind, &s).is_some()).unwrap_or(!must_accept);
			*boundary.entry(if real == must_accept { "agree" } else { "disagree" }).or_insert(0u64) += 1;
		}
	}

	// 4. structures: write → parse
	let types = type_universe(&class_names);
	let structs = struct_universe(&types);
	let s = structs.par_chunks(256).fold(Tally::new, |mut t, chunk| {
		vcore::watched(|| format!("structure sweep from {:?}", chunk.first().map(|(k, sh)| (PARSERS[*k], ref_print(sh)))), || {
			for (kind, shape) in chunk {
				check_struct(ctx, &mut t, *kind, shape);
			}
		});
		t
	}).reduce(Tally::new, Tally::merge);

	// 5. inner-class split / join
	let name_strings = all_strings(NAME_ALPHABET, split_len.max(parent_len));
	let valid_names: Vec<&String> = name_strings.iter().filter(|s| ref_obj_class_name(s)).collect();
	let outers: Vec<&String> = valid_names.iter().copied().filter(|s| s.len() <= parent_len).collect();
	let inners: Vec<&String> = valid_names.iter().copied().filter(|s| s.len() <= inner_len && !s.contains('$') && !s.contains('/')).collect();
	let sp = valid_names.par_chunks(512).fold(Tally::new, |mut t, chunk| {
		vcore::watched(|| format!("split sweep from {:?}", chunk.first()), || {
			for x in chunk.iter().filter(|x| x.len() <= split_len) {
				check_split(ctx, &mut t, x);
			}
		});
		t
	}).reduce(Tally::new, Tally::merge);
	let jo = outers.par_iter().fold(Tally::new, |mut t, p| {
		vcore::watched(|| format!("join sweep parent {p:?}"), || {
			for i in &inners {
				check_join(ctx, &mut t, p, i);
			}
		});
		t
	}).reduce(Tally::new, Tally::merge);

	let all = d.clone().merge(n.clone()).merge(x.clone()).merge(s.clone()).merge(sp.clone()).merge(jo.clone());

	// vacuity floors
	let (acc_floor, rej_floor) = (100, 1000);
	for k in 0..3 {
		ctx.floor(&format!("{} descriptors accepted by parser and grammar", PARSERS[k]), acc_floor, all.d_both_accept[k]);
		ctx.floor(&format!("{} descriptors rejected by parser and grammar", PARSERS[k]), rej_floor, all.d_both_reject[k].iter().sum());
		ctx.floor(&format!("{} descriptors written back identically", PARSERS[k]), acc_floor, all.d_rewritten_same[k]);
	}
	let reason_seen = |k: usize, w: Why| all.d_both_reject[k][w as usize] + all.d_real_only[k][w as usize];
	for w in WHYS {
		let applicable: &[usize] = match w {
			Why::NoOpenParen | Why::NoCloseParen | Why::VoidParam => &[METHOD],
			_ => &[FIELD, METHOD, RETURN],
		};
		for k in applicable {
			ctx.floor(&format!("reference rejection reason {} reached in {} descriptors", w.name(), PARSERS[*k]), 1, reason_seen(*k, w));
		}
	}
	for k in 0..7 {
		ctx.floor(&format!("{} accepted as documented", NAME_TYPES[k]), acc_floor, all.n_both_accept[k]);
		ctx.floor(&format!("{} rejected as documented", NAME_TYPES[k]), rej_floor, all.n_both_reject[k]);
	}
	ctx.floor("dimension boundary probes (254/255 accepted, 256/257 refused) judged", 16, boundary.values().sum());
	ctx.floor("structures written and parsed back", 1000, s.get("struct:field:round-trip") + s.get("struct:method:round-trip") + s.get("struct:return:round-trip"));
	ctx.floor("names split into parent and inner", 100, sp.get("split:some"));
	ctx.floor("names without an inner-class split", 100, sp.get("split:none"));
	ctx.floor("split→join identities", 100, sp.get("split:join-of-split-is-identity"));
	ctx.floor("join→split identities", 1000, jo.get("join:split-of-join-is-identity"));

	let mut outcomes: BTreeMap<String, u64> = BTreeMap::new();
	for k in 0..3 {
		outcomes.insert(format!("desc:{}:both-accept", PARSERS[k]), all.d_both_accept[k]);
		outcomes.insert(format!("desc:{}:real-rejects-valid", PARSERS[k]), all.d_ref_only[k]);
		outcomes.insert(format!("desc:{}:rewritten-identically", PARSERS[k]), all.d_rewritten_same[k]);
		for w in WHYS {
			outcomes.insert(format!("desc:{}:both-reject:{}", PARSERS[k], w.name()), all.d_both_reject[k][w as usize]);
			if all.d_real_only[k][w as usize] > 0 {
				outcomes.insert(format!("desc:{}:real-accepts-invalid:{}", PARSERS[k], w.name()), all.d_real_only[k][w as usize]);
			}
		}
	}
	for k in 0..7 {
		outcomes.insert(format!("name:{}:both-accept", NAME_TYPES[k]), all.n_both_accept[k]);
		outcomes.insert(format!("name:{}:both-reject", NAME_TYPES[k]), all.n_both_reject[k]);
		outcomes.insert(format!("name:{}:real-accepts-undocumented", NAME_TYPES[k]), all.n_real_only[k]);
		outcomes.insert(format!("name:{}:real-rejects-documented", NAME_TYPES[k]), all.n_ref_only[k]);
	}
	for (k, v) in &all.misc {
		outcomes.insert(k.to_string(), *v);
	}
	outcomes.insert("dimension-boundary:agree".into(), boundary.get("agree").copied().unwrap_or(0));
	outcomes.insert("dimension-boundary:disagree".into(), boundary.get("disagree").copied().unwrap_or(0));

	let distinct = all.d_both_accept.iter().sum::<u64>() + all.n_both_accept.iter().sum::<u64>() + s.get("struct:field:round-trip") + s.get("struct:method:round-trip") + s.get("struct:return:round-trip") + sp.get("split:some") + jo.get("join:split-of-join-is-identity");
	let samples: Vec<Value> = vec![
		sample_desc("(La/b;[D)V"), sample_desc("[[La;"), sample_desc("L;"), sample_desc("L[a;"), sample_desc(&format!("{}B", "[".repeat(256))),
		sample_name("a/b$a"), sample_name("[La;"), sample_name("[a"), sample_name("<init>"), sample_name("<inix>"),
		json!({"kind": "structure", "parser": "method", "structure": format!("{:?}", structs.last().map(|x| &x.1)), "printed": structs.last().map(|x| ref_print(&x.1))}),
		json!({"kind": "split-join", "name": "a/a$a$<", "split": obj("a/a$a$<").and_then(|o| o.split_inner_class_parent_and_name()).map(|(p, i)| (lossy(p.as_inner()), lossy(i.as_inner())))}),
	];
	let coverage = json!({
		"evaluations": all.evals,
		"distinct_nontrivial": distinct,
		"rule": "evaluations = calls of real duke functions (parse, write, is_valid, the three TryFroms, split, from_inner_class). distinct_nontrivial = distinct (string, parser) pairs accepted by both the real parser and the grammar + distinct (string, name type) pairs accepted by both + distinct structures that survived write→parse + names split + (parent, inner) pairs joined and split back; every enumerated string is distinct by construction",
		"exhaustive": true,
		"samples": samples,
		"bounds": {
			"descriptor_alphabet": String::from_utf8_lossy(DESC_ALPHABET),
			"descriptor_max_len": desc_len,
			"descriptor_strings": d.strings,
			"name_alphabet": String::from_utf8_lossy(NAME_ALPHABET),
			"name_max_len": name_len,
			"name_strings": n.strings,
			"special_name_neighbours": neighbours.len(),
			"explicit_probes": probes.len(),
			"structure_class_names": class_names,
			"structure_dimensions": STRUCT_DIMS,
			"structure_types": types.len(),
			"structures": structs.len(),
			"split_names_max_len": split_len,
			"split_names": valid_names.iter().filter(|x| x.len() <= split_len).count(),
			"join_parent_max_len": parent_len,
			"join_inner_max_len": inner_len,
			"join_pairs": outers.len() * inners.len(),
		},
		"outcomes": outcomes,
		"reference_language_sizes": {"descriptors": count_descriptors(desc_len), "names": count_names(name_len)},
	});
	ctx.finish(coverage, &[
		"JVMS §4.3.2/§4.3.3 grammar with the class name inside L…; read per §4.2.1 (non-empty identifiers separated by '/', none containing '.', ';', '[', '/') and at most 255 array dimensions",
		"the 255-slot limit on method parameters (§4.3.3) is not part of the grammar and is not demanded",
		"the documentation of a name type is its doc comment, the text of its check_valid error and the doc comment of the predicate it calls; TODO markers do not narrow what the documentation promises",
		"characters outside the two alphabets are represented by the explicit probes only (remaining primitives, two non-ASCII names)",
		"FieldDescriptor/MethodDescriptor/ReturnDescriptor::is_valid are not name types and are not judged",
		"the size of each reference language was confirmed by an independent counting argument",
	]);
}

fn replay(ctx: &'static Ctx, path: &std::path::Path) -> ! {
	let body = vcore::replay_body(path);
	let field = |name: &str| -> Option<String> {
		body.lines().find_map(|l| l.strip_prefix(name).and_then(|r| r.strip_prefix('=')).map(|r| r.to_owned()))
	};
	let need = |name: &str| field(name).unwrap_or_else(|| vcore::machinery_fail(&format!("replay file has no {name}= line")));
	let kind = need("kind");
	let mut t = Tally::new();
	let describe = |kind: &str| -> String {
		match kind {
			"desc" | "struct" => sample_desc(&need("string")).to_string(),
			"name" => sample_name(&need("string")).to_string(),
			"split" => format!("{:?}", obj(&need("string")).map(|o| vcore::guard(|| o.split_inner_class_parent_and_name().map(|(p, i)| (lossy(p.as_inner()), lossy(i.as_inner())))))),
			"join" => format!("{:?}", obj(&need("parent")).zip(obj(&need("inner"))).map(|(p, i)| vcore::guard(|| lossy(ObjClassName::from_inner_class(p.to_owned(), i).as_inner())))),
			other => vcore::machinery_fail(&format!("unknown replay kind {other:?}")),
		}
	};
	let (a, b) = (describe(&kind), describe(&kind));
	if a != b {
		vcore::machinery_fail("replay is not deterministic");
	}
	println!("{a}");
	match kind.as_str() {
		"desc" => check_desc(ctx, &mut t, &need("string")),
		"name" => check_name(ctx, &mut t, &need("string")),
		"struct" => {
			let parser = need("parser");
			let k = PARSERS.iter().position(|p| *p == parser).unwrap_or_else(|| vcore::machinery_fail("unknown parser"));
			let shape = ref_parse(k, need("string").as_bytes()).unwrap_or_else(|w| vcore::machinery_fail(&format!("structure replay string is not a descriptor: {}", w.name())));
			check_struct(ctx, &mut t, k, &shape);
		},
		"split" => check_split(ctx, &mut t, &need("string")),
		"join" => check_join(ctx, &mut t, &need("parent"), &need("inner")),
		_ => {},
	}
	ctx.finish(json!({"evaluations": t.evals, "distinct_nontrivial": 1, "rule": "replay of one case", "samples": [a], "exhaustive": false}), &[]);
}
