//! C18 — descriptor and name types accept and print exactly the JVMS grammar they claim.
//!
//! Engine: exhaustive string enumeration (E4). Every string up to a length bound over a small alphabet
//! is pushed through the real `parse`/`write` of field, method and return descriptors and through the
//! real validity predicates / `TryFrom`s of the seven name newtypes; an independent recogniser written
//! from JVMS §4.2/§4.3 (and, for the name types, from their own documentation) says what must come out.
//! A second sweep goes the other way: every small type *structure* is written and parsed back.
//! The inner-class split/join helpers are checked for being mutually inverse on every short name.
//!
//! All text is `JavaStr` (semi-UTF-8: a lone surrogate is a legal character of a class-file name) and every
//! comparison is lossless — byte for byte against what the reference built from the same bytes. The
//! reference works on the bytes: every character the grammar gives a meaning to is ASCII, and no byte of a
//! wider character is.
//!
//! Clauses and where they are decided
//!   parse = grammar structure / refuses the rest ... `check_desc` (every space below)
//!   write(parse(s)) = s ............................ `check_desc`
//!   parse(write(t)) = t ............................ `check_struct`
//!   name predicates = documentation ................ `check_name` (is_valid, three TryFroms, value kept, Display)
//!   class name → descriptor (from_class & co.) ..... `check_class` (documented equivalence with `L` name `;`)
//!   split/join mutually inverse .................... `check_split` (also = the documented cut), `check_join`
//!
//! Spaces (quick / thorough)
//!   1. all strings ≤ 6 / 7 over `BDLa/;[()V.$` → descriptors and names
//!   2. all strings ≤ 6 / 8 over `a.;[/<>$` → names
//!   3. `<init>`/`<clinit>` one-edit neighbours; explicit probes (all primitives, realistic descriptors)
//!   4. all strings ≤ 5 / 6 over `L;[/()VI` + é 日 𝔘 U+D800 U+DC00 U+FFFD → descriptors and names
//!   5. all strings ≤ 5 / 6 over `.;[/<>$a\␠` + the same six wide characters → names
//!   6. EVERY code point U+0000..=U+10FFFF (surrogates included) in 8 / 20 descriptor contexts, 4 / 13 name
//!      contexts and 4 / 10 split contexts
//!   7. ladders: every dimension count 0..=1030 / 2100 × 8 bases × 5 placements (descriptors and names);
//!      4096 … 2^20 brackets (must be refused without recursion or blow-up); 0..=300 / 1200 parameters;
//!      names of k = 0..=200 / 400 `a` with one wide character last / last but one / first, in 16 descriptor
//!      contexts (accepted and refused: the error paths quote the text) and 8 name contexts, split and joined
//!   8. structures: every type over 8 primitives + 8 / 24 odd class names × dimensions {1,2,254,255}: fields,
//!      returns, methods of ≤ 2 parameters (2 parameters: quick over the reduced type set), 3 parameters over
//!      six types; every type as a class name through from_class / from_obj_class / from_arr_class /
//!      dimension / ReturnDescriptor::from
//!   9. split/join: all valid names ≤ 6 / 8 over the name alphabet and ≤ 4 / 5 over the wide name alphabet
//!  10. the named constants (`MethodName::INIT`, `CLINIT`, `ObjClassName::JAVA_LANG_OBJECT`)
//!
//! Where the statement is silent nothing is demanded: a method descriptor whose parameters need more than 255
//! slots (§4.3.3 side condition, not grammar) may be refused or read; `Display` of a name that is not UTF-8 may
//! fail or substitute; `write` of a structure `parse` should never have produced may do anything but panic.
//!
//! Replay body format (`--replay`): `kind=desc|name|struct|class|split|join` plus `string=`/`parser=`/
//! `parent=`/`inner=` lines; strings are escaped (`\u{d800}`; printable ASCII other than `\` verbatim).

use std::collections::{BTreeMap, BTreeSet};
use std::fmt::Write as _;
use duke::tree::class::{ArrClassName, ArrClassNameSlice, ClassName, ClassNameSlice, ObjClassName, ObjClassNameSlice};
use duke::tree::descriptor::{ArrayType, ParsedFieldDescriptor, ParsedMethodDescriptor, ParsedReturnDescriptor, ReturnDescriptor, ReturnDescriptorSlice, Type};
use duke::tree::field::{FieldDescriptor, FieldDescriptorSlice, FieldName, FieldNameSlice};
use duke::tree::method::code::{LocalVariableName, LocalVariableNameSlice};
use duke::tree::method::{MethodDescriptorSlice, MethodName, MethodNameSlice, ParameterName, ParameterNameSlice};
use java_string::{JavaStr, JavaString};
use rayon::prelude::*;
use vcore::{json, Ctx, Panic, Value};

#[path = "c18/spaces.rs"]
mod spaces;
use spaces::{cps, esc, jstr, unesc};

// ---------------------------------------------------------------------------------------------
// reference: JVMS §4.3.2 / §4.3.3 descriptors, §4.2.1 / §4.2.2 names — written from the specification

/// The structure the grammar assigns to a `FieldType`. `Arr(n, e)`: `n ≥ 1` dimensions of the
/// non-array element `e`. The class name is kept byte for byte.
#[derive(Clone, Debug, PartialEq, Eq, Hash)]
enum R {
	Prim(char),
	Obj(JavaString),
	Arr(u32, Box<R>),
}

/// Why the reference refuses a string.
#[derive(Clone, Copy, Debug, PartialEq, Eq)]
enum Why {
	AbruptEnd,
	BadChar,
	Void,
	EmptyClassName,
	Dot,
	EmptySegment,
	Bracket,
	MissingSemicolon,
	Trailing,
	NoOpenParen,
	NoCloseParen,
	VoidParam,
	TooManyDims,
}
const NWHY: usize = 13;
const WHYS: [Why; NWHY] = [
	Why::AbruptEnd, Why::BadChar, Why::Void, Why::EmptyClassName, Why::Dot, Why::EmptySegment, Why::Bracket,
	Why::MissingSemicolon, Why::Trailing, Why::NoOpenParen, Why::NoCloseParen, Why::VoidParam, Why::TooManyDims,
];

impl Why {
	fn name(self) -> &'static str {
		match self {
			Why::AbruptEnd => "abrupt-end",
			Why::BadChar => "unexpected-character",
			Why::Void => "void-as-field-type",
			Why::EmptyClassName => "empty-class-name",
			Why::Dot => "dot-in-class-name",
			Why::EmptySegment => "empty-class-name-segment",
			Why::Bracket => "bracket-in-class-name",
			Why::MissingSemicolon => "missing-semicolon",
			Why::Trailing => "trailing-garbage",
			Why::NoOpenParen => "missing-open-parenthesis",
			Why::NoCloseParen => "missing-close-parenthesis",
			Why::VoidParam => "void-as-parameter",
			Why::TooManyDims => "more-than-255-dimensions",
		}
	}
	fn accepts_key(self) -> &'static str {
		match self {
			Why::AbruptEnd => "desc.parse:accepts:abrupt-end",
			Why::BadChar => "desc.parse:accepts:unexpected-character",
			Why::Void => "desc.parse:accepts:void-as-field-type",
			Why::EmptyClassName => "desc.parse:accepts:empty-class-name",
			Why::Dot => "desc.parse:accepts:dot-in-class-name",
			Why::EmptySegment => "desc.parse:accepts:empty-class-name-segment",
			Why::Bracket => "desc.parse:accepts:bracket-in-class-name",
			Why::MissingSemicolon => "desc.parse:accepts:missing-semicolon",
			Why::Trailing => "desc.parse:accepts:trailing-garbage",
			Why::NoOpenParen => "desc.parse:accepts:missing-open-parenthesis",
			Why::NoCloseParen => "desc.parse:accepts:missing-close-parenthesis",
			Why::VoidParam => "desc.parse:accepts:void-as-parameter",
			Why::TooManyDims => "desc.parse:accepts:more-than-255-dimensions",
		}
	}
}

/// JVMS §4.2.1: a binary class name in internal form — identifiers separated by `/`, each an
/// unqualified name (§4.2.2: at least one code point, none of `.` `;` `[` `/`).
fn ref_class_name_in_descriptor(name: &[u8]) -> Result<(), Why> {
	if name.is_empty() {
		return Err(Why::EmptyClassName);
	}
	if name.contains(&b'[') {
		return Err(Why::Bracket);
	}
	if name.contains(&b'.') {
		return Err(Why::Dot);
	}
	if name.split(|b| *b == b'/').any(|seg| seg.is_empty()) {
		return Err(Why::EmptySegment);
	}
	Ok(())
}

/// The bytes between two ASCII characters of a semi-UTF-8 string are semi-UTF-8 again.
fn text(bytes: &[u8]) -> JavaString {
	match JavaStr::from_semi_utf8(bytes) {
		Ok(s) => s.to_owned(),
		Err(_) => vcore::machinery_fail("a cut at ASCII characters broke a character"),
	}
}

/// FieldType: BaseType | `L` ClassName `;` | `[` ComponentType. Works on bytes: every structural
/// character is ASCII, so cutting at them keeps the encoding intact. The brackets are counted, not recursed
/// on (the strings explored go up to 2^20 of them); as in the grammar the component is judged first.
fn ref_field_type(s: &[u8], pos: &mut usize) -> Result<R, Why> {
	let mut dims = 0u32;
	while s.get(*pos) == Some(&b'[') {
		dims += 1;
		*pos += 1;
	}
	let Some(&c) = s.get(*pos) else { return Err(Why::AbruptEnd) };
	*pos += 1;
	let element = match c {
		b'B' | b'C' | b'D' | b'F' | b'I' | b'J' | b'S' | b'Z' => R::Prim(c as char),
		b'L' => {
			let rest = &s[*pos..];
			let Some(semi) = rest.iter().position(|b| *b == b';') else { return Err(Why::MissingSemicolon) };
			let name = &rest[..semi];
			*pos += semi + 1;
			ref_class_name_in_descriptor(name)?;
			R::Obj(text(name))
		},
		b'V' => return Err(Why::Void),
		_ => return Err(Why::BadChar),
	};
	// §4.3.2: an array type descriptor is valid only if it represents 255 or fewer dimensions
	if dims > 255 {
		return Err(Why::TooManyDims);
	}
	Ok(if dims == 0 { element } else { R::Arr(dims, Box::new(element)) })
}

/// What a descriptor of any of the three kinds means: `params` is `Some` for method descriptors only,
/// `ret == None` is `V`.
#[derive(Clone, Debug, PartialEq, Eq, Hash)]
struct Shape {
	params: Option<Vec<R>>,
	ret: Option<R>,
}

impl Shape {
	fn class_names(&self) -> impl Iterator<Item = &JavaStr> {
		self.params.iter().flatten().chain(self.ret.iter()).filter_map(|t| match t {
			R::Obj(n) => Some(n.as_java_str()),
			R::Arr(_, e) => match &**e {
				R::Obj(n) => Some(n.as_java_str()),
				_ => None,
			},
			R::Prim(_) => None,
		})
	}
}

const FIELD: usize = 0;
const METHOD: usize = 1;
const RETURN: usize = 2;
const PARSERS: [&str; 3] = ["field", "method", "return"];

fn ref_parse(kind: usize, s: &[u8]) -> Result<Shape, Why> {
	let mut pos = 0usize;
	let shape = match kind {
		FIELD => Shape { params: None, ret: Some(ref_field_type(s, &mut pos)?) },
		RETURN => Shape { params: None, ret: ref_return(s, &mut pos)? },
		_ => {
			if s.first() != Some(&b'(') {
				return Err(Why::NoOpenParen);
			}
			pos = 1;
			let mut params = Vec::new();
			loop {
				match s.get(pos) {
					None => return Err(Why::NoCloseParen),
					Some(b')') => {
						pos += 1;
						break;
					},
					Some(b'V') => return Err(Why::VoidParam),
					Some(_) => params.push(ref_field_type(s, &mut pos)?),
				}
			}
			Shape { params: Some(params), ret: ref_return(s, &mut pos)? }
		},
	};
	if pos != s.len() {
		return Err(Why::Trailing);
	}
	Ok(shape)
}

fn ref_return(s: &[u8], pos: &mut usize) -> Result<Option<R>, Why> {
	if s.get(*pos) == Some(&b'V') {
		*pos += 1;
		Ok(None)
	} else {
		ref_field_type(s, pos).map(Some)
	}
}

fn ref_print_type(r: &R, out: &mut JavaString) {
	match r {
		R::Prim(c) => out.push(*c),
		R::Obj(n) => {
			out.push('L');
			out.push_java_str(n);
			out.push(';');
		},
		R::Arr(n, e) => {
			for _ in 0..*n {
				out.push('[');
			}
			ref_print_type(e, out);
		},
	}
}

fn ref_print(shape: &Shape) -> JavaString {
	let mut out = JavaString::new();
	if let Some(params) = &shape.params {
		out.push('(');
		for p in params {
			ref_print_type(p, &mut out);
		}
		out.push(')');
	}
	match &shape.ret {
		Some(t) => ref_print_type(t, &mut out),
		None => out.push('V'),
	}
	out
}

/// JVMS §4.2.2 unqualified name: at least one code point, none of `.` `;` `[` `/`.
fn ref_unqualified(s: &[u8]) -> bool {
	!s.is_empty() && !s.iter().any(|b| matches!(b, b'.' | b';' | b'[' | b'/'))
}

/// JVMS §4.2.2 method name: `<init>`, `<clinit>` or an unqualified name without `<` and `>`.
fn ref_method_name(s: &[u8]) -> bool {
	s == b"<init>" || s == b"<clinit>" || (ref_unqualified(s) && !s.contains(&b'<') && !s.contains(&b'>'))
}

/// JVMS §4.2.1 binary name of a class or interface in internal form.
fn ref_obj_class_name(s: &[u8]) -> bool {
	s.split(|b| *b == b'/').all(ref_unqualified)
}

/// "Array class names always start with `[` followed by a field descriptor" (doc of `ArrClassName`),
/// i.e. the string is an array-type field descriptor.
fn ref_arr_class_name(s: &[u8]) -> Result<(), &'static str> {
	if s.first() != Some(&b'[') {
		return Err("undocumented");
	}
	match ref_parse(FIELD, s) {
		Ok(_) => Ok(()),
		Err(Why::TooManyDims) => Err("array-over-255-dimensions"),
		Err(_) => Err("array-descriptor-invalid"),
	}
}

const NAME_TYPES: [&str; 7] = ["ClassName", "ArrClassName", "ObjClassName", "FieldName", "MethodName", "ParameterName", "LocalVariableName"];

/// What the documentation of name type `k` says about `s`: `Ok` = valid, `Err(kind)` = not valid.
fn ref_name(k: usize, s: &[u8]) -> Result<(), &'static str> {
	let plain = |b: bool| if b { Ok(()) } else { Err("undocumented") };
	match k {
		// "can both be an array class name as allowed by ArrClassName and an object class name as allowed by ObjClassName"
		0 => if s.first() == Some(&b'[') { ref_arr_class_name(s) } else { plain(ref_obj_class_name(s)) },
		1 => ref_arr_class_name(s),
		2 => plain(ref_obj_class_name(s)),
		3 | 5 | 6 => plain(ref_unqualified(s)),
		4 => plain(ref_method_name(s)),
		_ => vcore::machinery_fail("name type index"),
	}
}

/// Doc of `get_inner_class_name` / `get_inner_class_parent`: the inner class name is the part after the last `$`
/// in the last (`/`-separated) section, the parent the part before that `$`. Both are typed as object class names,
/// so a cut that leaves one side of the `$` empty within the section is no split.
fn ref_split(x: &[u8]) -> Option<(&[u8], &[u8])> {
	let section = x.iter().rposition(|b| *b == b'/').map_or(0, |p| p + 1);
	let dollar = section + x[section..].iter().rposition(|b| *b == b'$')?;
	if dollar == section || dollar + 1 == x.len() {
		return None;
	}
	Some((&x[..dollar], &x[dollar + 1..]))
}

// ---------------------------------------------------------------------------------------------
// real code adapters

fn real_to_r(t: &Type) -> R {
	match t {
		Type::B => R::Prim('B'),
		Type::C => R::Prim('C'),
		Type::D => R::Prim('D'),
		Type::F => R::Prim('F'),
		Type::I => R::Prim('I'),
		Type::J => R::Prim('J'),
		Type::S => R::Prim('S'),
		Type::Z => R::Prim('Z'),
		Type::Object(c) => R::Obj(c.as_inner().to_owned()),
		Type::Array(n, a) => R::Arr(*n as u32, Box::new(match a {
			ArrayType::B => R::Prim('B'),
			ArrayType::C => R::Prim('C'),
			ArrayType::D => R::Prim('D'),
			ArrayType::F => R::Prim('F'),
			ArrayType::I => R::Prim('I'),
			ArrayType::J => R::Prim('J'),
			ArrayType::S => R::Prim('S'),
			ArrayType::Z => R::Prim('Z'),
			ArrayType::Object(c) => R::Obj(c.as_inner().to_owned()),
		})),
	}
}

/// Builds the real `Type` for a reference structure through the checked constructors only.
fn r_to_real(r: &R) -> Result<Type, String> {
	Ok(match r {
		R::Prim('B') => Type::B,
		R::Prim('C') => Type::C,
		R::Prim('D') => Type::D,
		R::Prim('F') => Type::F,
		R::Prim('I') => Type::I,
		R::Prim('J') => Type::J,
		R::Prim('S') => Type::S,
		R::Prim('Z') => Type::Z,
		R::Prim(c) => return Err(format!("no primitive {c}")),
		R::Obj(n) => Type::Object(ObjClassName::try_from(n.clone()).map_err(|e| format!("{e:#}"))?),
		R::Arr(n, e) => {
			let n = u8::try_from(*n).map_err(|_| "dimension does not fit".to_owned())?;
			Type::Array(n, match &**e {
				R::Prim('B') => ArrayType::B,
				R::Prim('C') => ArrayType::C,
				R::Prim('D') => ArrayType::D,
				R::Prim('F') => ArrayType::F,
				R::Prim('I') => ArrayType::I,
				R::Prim('J') => ArrayType::J,
				R::Prim('S') => ArrayType::S,
				R::Prim('Z') => ArrayType::Z,
				R::Obj(name) => ArrayType::Object(ClassName::try_from(name.clone()).map_err(|e| format!("{e:#}"))?),
				other => return Err(format!("no array element {other:?}")),
			})
		},
	})
}

enum Parsed {
	F(ParsedFieldDescriptor),
	M(ParsedMethodDescriptor),
	R(ParsedReturnDescriptor),
}

impl Parsed {
	fn shape(&self) -> Shape {
		match self {
			Parsed::F(p) => Shape { params: None, ret: Some(real_to_r(&p.0)) },
			Parsed::M(p) => Shape { params: Some(p.parameter_descriptors.iter().map(real_to_r).collect()), ret: p.return_descriptor.as_ref().map(real_to_r) },
			Parsed::R(p) => Shape { params: None, ret: p.0.as_ref().map(real_to_r) },
		}
	}
	/// real `write`, the written descriptor byte for byte
	fn write(&self) -> JavaString {
		match self {
			Parsed::F(p) => p.write().into_inner(),
			Parsed::M(p) => p.write().into_inner(),
			Parsed::R(p) => p.write().into_inner(),
		}
	}
	fn same(&self, other: &Parsed) -> bool {
		match (self, other) {
			(Parsed::F(a), Parsed::F(b)) => a == b,
			(Parsed::M(a), Parsed::M(b)) => a == b,
			(Parsed::R(a), Parsed::R(b)) => a == b,
			_ => false,
		}
	}
}

/// real `parse` of descriptor kind `kind`; `None` = refused (by the `TryFrom` of the slice type or by `parse`)
fn real_parse(kind: usize, js: &JavaStr) -> Option<Parsed> {
	match kind {
		FIELD => <&FieldDescriptorSlice>::try_from(js).ok().and_then(|d| d.parse().ok()).map(Parsed::F),
		METHOD => <&MethodDescriptorSlice>::try_from(js).ok().and_then(|d| d.parse().ok()).map(Parsed::M),
		_ => <&ReturnDescriptorSlice>::try_from(js).ok().and_then(|d| d.parse().ok()).map(Parsed::R),
	}
}

fn shape_to_real(kind: usize, shape: &Shape) -> Result<Parsed, String> {
	let ret = match &shape.ret {
		Some(r) => Some(r_to_real(r)?),
		None => None,
	};
	Ok(match kind {
		FIELD => Parsed::F(ParsedFieldDescriptor(ret.ok_or("field descriptor without type")?)),
		METHOD => {
			let mut params = Vec::new();
			for p in shape.params.as_ref().ok_or("method descriptor without parameter list")? {
				params.push(r_to_real(p)?);
			}
			Parsed::M(ParsedMethodDescriptor { parameter_descriptors: params, return_descriptor: ret })
		},
		_ => Parsed::R(ParsedReturnDescriptor(ret)),
	})
}

/// What the real name type `k` does with `s`: `is_valid`, and for each of the three `TryFrom`s whether it
/// accepted (`Some(faithful)`: the accepted value holds exactly `s` and, where `s` is UTF-8, displays as `s`;
/// nothing says what `Display` does with a lone surrogate, so there only a panic would be reported).
#[derive(Debug, PartialEq, Eq)]
struct NameObs {
	is_valid: bool,
	slice: Option<bool>,
	owned: Option<bool>,
	owned_from_ref: Option<bool>,
}

fn shown_as(v: &dyn std::fmt::Display, js: &JavaStr) -> bool {
	let mut out = String::new();
	let r = write!(out, "{v}");
	match js.as_str() {
		Ok(utf8) => r.is_ok() && out == utf8,
		Err(_) => true,
	}
}

macro_rules! name_obs {
	($owned:ty, $slice:ty, $s:expr) => {{
		let js: &JavaStr = $s;
		NameObs {
			is_valid: <$owned>::is_valid(js),
			slice: <&$slice>::try_from(js).ok().map(|v| v.as_inner() == js && shown_as(&v, js)),
			owned: <$owned>::try_from(js.to_owned()).ok().map(|v| {
				let held = v.as_inner() == js && shown_as(&v, js);
				held && v.into_inner().as_java_str() == js
			}),
			owned_from_ref: <$owned>::try_from(js).ok().map(|v| v.as_inner() == js),
		}
	}};
}

fn real_name(k: usize, s: &JavaStr) -> NameObs {
	match k {
		0 => name_obs!(ClassName, ClassNameSlice, s),
		1 => name_obs!(ArrClassName, ArrClassNameSlice, s),
		2 => name_obs!(ObjClassName, ObjClassNameSlice, s),
		3 => name_obs!(FieldName, FieldNameSlice, s),
		4 => name_obs!(MethodName, MethodNameSlice, s),
		5 => name_obs!(ParameterName, ParameterNameSlice, s),
		6 => name_obs!(LocalVariableName, LocalVariableNameSlice, s),
		_ => vcore::machinery_fail("name type index"),
	}
}

/// panic site with the checkout prefix removed (`/repo/…` or a scratch copy `…/repo/…`), line number dropped
fn site_file(p: &Panic) -> String {
	let f = p.file();
	f.rsplit_once("/repo/").map(|(_, rest)| rest).unwrap_or(f).to_owned()
}

/// How a string is quoted in a message: escaped, and cut in the middle when it is one of the long ones.
fn q(s: &JavaStr) -> String {
	let e = esc(s);
	if e.len() <= 400 {
		return format!("\"{e}\"");
	}
	let head: String = e.chars().take(150).collect();
	let tail: String = e.chars().rev().take(150).collect::<Vec<char>>().into_iter().rev().collect();
	format!("\"{head}…({} bytes in all)…{tail}\"", s.len())
}

// ---------------------------------------------------------------------------------------------
// counters

#[derive(Clone, Default)]
struct Tally {
	/// executions of real /repo functions (parse, write, is_valid, try_from, split, join, from_class, …)
	evals: u64,
	d_both_accept: [u64; 3],
	d_both_reject: [[u64; NWHY]; 3],
	d_real_only: [[u64; NWHY]; 3],
	d_ref_only: [u64; 3],
	d_rewritten_same: [u64; 3],
	/// … of which the string is not UTF-8 (it holds a lone surrogate)
	d_rewritten_same_not_utf8: [u64; 3],
	n_both_accept: [u64; 7],
	n_both_accept_not_utf8: [u64; 7],
	n_both_reject: [u64; 7],
	n_real_only: [u64; 7],
	n_ref_only: [u64; 7],
	strings: u64,
	misc: BTreeMap<&'static str, u64>,
}

impl Tally {
	fn new() -> Tally {
		Tally::default()
	}
	fn bump(&mut self, k: &'static str) {
		*self.misc.entry(k).or_insert(0) += 1;
	}
	fn get(&self, k: &str) -> u64 {
		self.misc.get(k).copied().unwrap_or(0)
	}
	fn merge(mut self, o: Tally) -> Tally {
		self.evals += o.evals;
		self.strings += o.strings;
		for k in 0..3 {
			self.d_both_accept[k] += o.d_both_accept[k];
			self.d_ref_only[k] += o.d_ref_only[k];
			self.d_rewritten_same[k] += o.d_rewritten_same[k];
			self.d_rewritten_same_not_utf8[k] += o.d_rewritten_same_not_utf8[k];
			for w in 0..NWHY {
				self.d_both_reject[k][w] += o.d_both_reject[k][w];
				self.d_real_only[k][w] += o.d_real_only[k][w];
			}
		}
		for k in 0..7 {
			self.n_both_accept[k] += o.n_both_accept[k];
			self.n_both_accept_not_utf8[k] += o.n_both_accept_not_utf8[k];
			self.n_both_reject[k] += o.n_both_reject[k];
			self.n_real_only[k] += o.n_real_only[k];
			self.n_ref_only[k] += o.n_ref_only[k];
		}
		for (k, v) in o.misc {
			*self.misc.entry(k).or_insert(0) += v;
		}
		self
	}
	fn ref_accepts_desc(&self, k: usize) -> u64 {
		self.d_both_accept[k] + self.d_ref_only[k]
	}
	fn ref_accepts_name(&self, k: usize) -> u64 {
		self.n_both_accept[k] + self.n_ref_only[k]
	}
	fn desc_rejects(&self, k: usize) -> u64 {
		self.d_both_reject[k].iter().sum()
	}
}

/// `what` is only rendered when the key is not an open known finding (those keep their recorded text).
fn report(ctx: &Ctx, key: &str, what: impl FnOnce() -> String, replay: impl FnOnce() -> String) {
	if ctx.is_known(key) {
		ctx.diff(key, "", String::new);
	} else {
		ctx.diff(key, &what(), replay);
	}
}

// ---------------------------------------------------------------------------------------------
// oracles

/// One string through the three descriptor parsers.
fn check_desc(ctx: &Ctx, t: &mut Tally, s: &JavaStr) {
	for kind in 0..3 {
		let pname = PARSERS[kind];
		let replay = || format!("kind=desc\nparser={pname}\nstring={}", esc(s));
		let want = ref_parse(kind, s.as_bytes());
		if let Ok(shape) = &want {
			// cross-check of the reference itself: the grammar is unambiguous, printing its reading gives the string back
			if ref_print(shape) != *s {
				vcore::machinery_fail(&format!("reference printer/recogniser disagree on {}", q(s)));
			}
		}
		t.evals += 1;
		let got = match vcore::guard(|| real_parse(kind, s)) {
			Ok(g) => g,
			Err(p) => {
				report(ctx, &format!("desc.parse:{pname}:panic@{}", site_file(&p)), || format!("{pname} descriptor parse({}) panicked at {}: {}", q(s), p.site, p.msg), replay);
				continue;
			},
		};
		match (got, want) {
			(Some(parsed), Ok(shape)) => {
				t.d_both_accept[kind] += 1;
				let seen = parsed.shape();
				if seen != shape {
					report(ctx, &format!("desc.parse:{pname}:wrong-structure"), || format!("{pname} descriptor parse({}) = {seen:?}, the grammar assigns {shape:?}", q(s)), replay);
				}
				t.evals += 1;
				match vcore::guard(|| parsed.write()) {
					Ok(w) if w == *s => {
						t.d_rewritten_same[kind] += 1;
						if s.as_str().is_err() {
							t.d_rewritten_same_not_utf8[kind] += 1;
						}
					},
					Ok(w) => report(ctx, &format!("desc.write:{pname}:not-the-original-string"), || format!("{pname} descriptor write(parse({})) = {}", q(s), q(&w)), replay),
					Err(p) => report(ctx, &format!("desc.write:{pname}:panic@{}", site_file(&p)), || format!("{pname} descriptor write(parse({})) panicked at {}: {}", q(s), p.site, p.msg), replay),
				}
			},
			(Some(parsed), Err(why)) => {
				t.d_real_only[kind][why as usize] += 1;
				report(ctx, why.accepts_key(), || format!("{pname} descriptor parse({}) succeeded with {:?}; the string is outside the JVMS grammar ({})", q(s), parsed.shape(), why.name()), replay);
				// outside the grammar nothing is demanded of write except that it does not panic
				t.evals += 1;
				if let Err(p) = vcore::guard(|| parsed.write()) {
					// keyed by what is visibly wrong with the structure handed to write, not by the first thing wrong with the string
					let cause = if parsed.shape().class_names().any(|n| n.starts_with('[')) { "class-name-starting-with-bracket".to_owned() } else { format!("after-accepting:{}", why.name()) };
					report(ctx, &format!("desc.write:panic@{}:{cause}", site_file(&p)), || format!("{pname} descriptor parse({}) succeeded and write() of the result panicked at {}: {}", q(s), p.site, p.msg), replay);
				}
			},
			// §4.3.3 adds a side condition the grammar does not have (parameters of a total length of 255 or less, where
			// long and double count two); the statement is silent about it, so refusing such a descriptor is as good as
			// reading it — 255 itself must be read: a static method may have it
			(None, Ok(shape)) if kind == METHOD && parameter_slots(&shape) > 255 => t.bump("desc:method:refused-for-more-than-255-parameter-slots"),
			(None, Ok(shape)) => {
				t.d_ref_only[kind] += 1;
				report(ctx, &format!("desc.parse:{pname}:rejects-valid"), || format!("{pname} descriptor parse({}) failed; the grammar reads it as {shape:?}", q(s)), replay);
			},
			(None, Err(why)) => t.d_both_reject[kind][why as usize] += 1,
		}
	}
}

fn parameter_slots(shape: &Shape) -> usize {
	shape.params.iter().flatten().map(|p| if matches!(p, R::Prim('D' | 'J')) { 2 } else { 1 }).sum()
}

/// One string through the seven name types.
fn check_name(ctx: &Ctx, t: &mut Tally, s: &JavaStr) {
	for k in 0..7 {
		let tname = NAME_TYPES[k];
		let replay = || format!("kind=name\ntype={tname}\nstring={}", esc(s));
		t.evals += 4;
		let obs = match vcore::guard(|| real_name(k, s)) {
			Ok(o) => o,
			Err(p) => {
				report(ctx, &format!("name:{tname}:panic@{}", site_file(&p)), || format!("{tname} validity check of {} panicked at {}: {}", q(s), p.site, p.msg), replay);
				continue;
			},
		};
		let tf = [obs.slice, obs.owned, obs.owned_from_ref];
		if tf.iter().any(|x| x.is_some() != obs.is_valid) {
			report(ctx, &format!("name:{tname}:try_from-disagrees-with-is_valid"), || format!("{tname} on {}: {obs:?}", q(s)), replay);
		}
		if tf.iter().any(|x| *x == Some(false)) {
			report(ctx, &format!("name:{tname}:accepted-value-differs"), || format!("{tname}::try_from({}) succeeded but holds or prints a different string: {obs:?}", q(s)), replay);
		}
		match (obs.is_valid, ref_name(k, s.as_bytes())) {
			(true, Ok(())) => {
				t.n_both_accept[k] += 1;
				if s.as_str().is_err() {
					t.n_both_accept_not_utf8[k] += 1;
				}
			},
			(false, Err(_)) => t.n_both_reject[k] += 1,
			(true, Err(kind)) => {
				t.n_real_only[k] += 1;
				report(ctx, &format!("name:{tname}:accepts:{kind}"), || format!("{tname}::is_valid({}) = true, its documentation does not allow the string ({kind})", q(s)), replay);
			},
			(false, Ok(())) => {
				t.n_ref_only[k] += 1;
				report(ctx, &format!("name:{tname}:rejects-documented"), || format!("{tname}::is_valid({}) = false, its documentation allows the string", q(s)), replay);
			},
		}
	}
}

fn round_trip_counter(kind: usize) -> &'static str {
	match kind {
		FIELD => "struct:field:round-trip",
		METHOD => "struct:method:round-trip",
		_ => "struct:return:round-trip",
	}
}

/// write → parse of one structure.
fn check_struct(ctx: &Ctx, t: &mut Tally, kind: usize, shape: &Shape) {
	let pname = PARSERS[kind];
	let text = ref_print(shape);
	let replay = || format!("kind=struct\nparser={pname}\nstring={}", esc(&text));
	match ref_parse(kind, text.as_bytes()) {
		Ok(back) if &back == shape => {},
		other => vcore::machinery_fail(&format!("reference recogniser does not read back its own print of {shape:?}: {other:?}")),
	}
	let real = match shape_to_real(kind, shape) {
		Ok(r) => r,
		Err(e) => {
			report(ctx, &format!("struct:{pname}:cannot-construct"), || format!("a valid class name was refused while building {shape:?}: {e}"), replay);
			return;
		},
	};
	t.evals += 1;
	let written = match vcore::guard(|| real.write()) {
		Ok(w) => w,
		Err(p) => {
			report(ctx, &format!("desc.write:{pname}:panic@{}", site_file(&p)), || format!("{pname} descriptor write({shape:?}) panicked at {}: {}", p.site, p.msg), replay);
			return;
		},
	};
	if written != text {
		report(ctx, &format!("desc.write:{pname}:wrong-string"), || format!("{pname} descriptor write({shape:?}) = {}, the grammar spells it {}", q(&written), q(&text)), replay);
	}
	t.evals += 1;
	match vcore::guard(|| real_parse(kind, &written)) {
		Ok(Some(back)) => {
			if back.same(&real) && back.shape() == *shape {
				t.bump(round_trip_counter(kind));
				if text.as_str().is_err() {
					t.bump("struct:round-trip-of-a-text-that-is-not-utf8");
				}
			} else {
				report(ctx, &format!("desc.write:{pname}:parse-of-written-differs"), || format!("{pname} descriptor parse(write(t)) = {:?} for t = {shape:?} (written {})", back.shape(), q(&written)), replay);
			}
		},
		Ok(None) => report(ctx, &format!("desc.write:{pname}:written-not-parseable"), || format!("{pname} descriptor parse(write(t)) failed for t = {shape:?} (written {})", q(&written)), replay),
		Err(p) => report(ctx, &format!("desc.parse:{pname}:panic@{}", site_file(&p)), || format!("{pname} descriptor parse({}) panicked at {}: {}", q(&written), p.site, p.msg), replay),
	}
}

/// What the class-name → descriptor constructors made of a class name: the descriptor text of each, the dimension
/// an array class name reports, the text after `ReturnDescriptor::from`.
struct ClassObs {
	from_class: JavaString,
	from_specific: JavaString,
	dimension: Option<u8>,
	as_return: JavaString,
	/// the owned conversions: (into_arr, into_obj) of the class name, and the name after going to the specific type and back
	owned_split: (Option<JavaString>, Option<JavaString>),
	back_to_class_name: JavaString,
}

/// One type as a class name (documentation: an object class name `n` has the descriptor `L` `n` `;`, an array
/// class name is its own descriptor, `dimension` is the number of dimensions, a field descriptor is a return descriptor).
fn check_class(ctx: &Ctx, t: &mut Tally, r: &R) {
	let (name, dims): (JavaString, Option<u32>) = match r {
		R::Prim(_) => return,
		R::Obj(n) => (n.clone(), None),
		R::Arr(d, _) => {
			let mut s = JavaString::new();
			ref_print_type(r, &mut s);
			(s, Some(*d))
		},
	};
	let mut want = JavaString::new();
	ref_print_type(r, &mut want);
	let replay = || format!("kind=class\nstring={}", esc(&want));
	let Ok(class_name) = <&ClassNameSlice>::try_from(name.as_java_str()) else {
		report(ctx, "class:valid-class-name-refused", || format!("ClassName refuses {}", q(&name)), replay);
		return;
	};
	t.evals += 7;
	let obs = vcore::guard(|| {
		let from_class = FieldDescriptor::from_class(class_name);
		let (from_specific, dimension) = match class_name.as_arr_and_obj() {
			Ok(arr) => (FieldDescriptor::from_arr_class(arr), Some(arr.dimension())),
			Err(obj) => (FieldDescriptor::from_obj_class(obj), None),
		};
		let owned = class_name.to_owned();
		ClassObs {
			from_class: from_class.clone().into_inner(),
			from_specific: from_specific.into_inner(),
			dimension,
			as_return: ReturnDescriptor::from(from_class).into_inner(),
			owned_split: (owned.clone().into_arr().map(|a| a.into_inner()), owned.clone().into_obj().map(|o| o.into_inner())),
			back_to_class_name: match (owned.clone().into_arr(), owned.into_obj()) {
				(Some(a), _) => ClassName::from(a).into_inner(),
				(None, Some(o)) => ClassName::from(o).into_inner(),
				(None, None) => JavaString::new(),
			},
		}
	});
	let obs = match obs {
		Ok(o) => o,
		Err(p) => {
			report(ctx, &format!("class:panic@{}", site_file(&p)), || format!("building the descriptor of class {} panicked at {}: {}", q(&name), p.site, p.msg), replay);
			return;
		},
	};
	if obs.from_class != want || obs.from_specific != want || obs.as_return != want {
		report(ctx, "class:descriptor-of-class-name-differs", || format!("class {}: from_class = {}, from_arr_class/from_obj_class = {}, as return descriptor = {}; the descriptor is {}", q(&name), q(&obs.from_class), q(&obs.from_specific), q(&obs.as_return), q(&want)), replay);
		return;
	}
	if obs.dimension.map(u32::from) != dims {
		report(ctx, "class:array-class-name-classified-or-counted-wrongly", || format!("class {}: taken as array of dimension {:?}, it has {dims:?}", q(&name), obs.dimension), replay);
		return;
	}
	let want_split = if dims.is_some() { (Some(name.clone()), None) } else { (None, Some(name.clone())) };
	if obs.owned_split != want_split || obs.back_to_class_name != name {
		report(ctx, "class:into_arr-into_obj-differ", || format!("class {}: (into_arr, into_obj) = {:?}, and back as ClassName {}", q(&name), obs.owned_split, q(&obs.back_to_class_name)), replay);
		return;
	}
	t.bump(if dims.is_some() { "class:array-class-name-to-descriptor" } else { "class:object-class-name-to-descriptor" });
}

fn obj(s: &JavaStr) -> Option<&ObjClassNameSlice> {
	<&ObjClassNameSlice>::try_from(s).ok()
}

type Halves = Option<(JavaString, JavaString)>;

/// `join(split(x)) == x` for a valid object class name `x`, and the split is the documented one.
fn check_split(ctx: &Ctx, t: &mut Tally, x: &JavaStr) {
	let replay = || format!("kind=split\nstring={}", esc(x));
	let Some(xs) = obj(x) else { return }; // refusal of a valid name is reported by check_name
	t.evals += 3;
	let own = |o: Option<(&ObjClassNameSlice, &ObjClassNameSlice)>| -> Option<(ObjClassName, ObjClassName)> { o.map(|(p, i)| (p.to_owned(), i.to_owned())) };
	let seen = vcore::guard(|| (own(xs.split_inner_class_parent_and_name()), xs.get_inner_class_parent().map(|p| p.to_owned()), xs.get_inner_class_name().map(|i| i.to_owned())));
	let (parts, getter_parent, getter_inner) = match seen {
		Ok(p) => p,
		Err(p) => {
			report(ctx, &format!("split:panic@{}", site_file(&p)), || format!("split_inner_class_parent_and_name({}) panicked at {}: {}", q(x), p.site, p.msg), replay);
			return;
		},
	};
	let halves: Halves = parts.as_ref().map(|(p, i)| (p.as_inner().to_owned(), i.as_inner().to_owned()));
	let documented: Halves = ref_split(x.as_bytes()).map(|(p, i)| (text(p), text(i)));
	if halves != documented {
		report(ctx, "split:differs-from-documentation", || format!("split({}) = {halves:?}; the part before and after the last `$` of the last `/`-separated section is {documented:?}", q(x)), replay);
	}
	if getter_parent.as_ref().map(|p| p.as_inner()) != halves.as_ref().map(|h| h.0.as_java_str()) || getter_inner.as_ref().map(|i| i.as_inner()) != halves.as_ref().map(|h| h.1.as_java_str()) {
		report(ctx, "split:getters-disagree-with-split", || format!("{}: get_inner_class_parent = {getter_parent:?}, get_inner_class_name = {getter_inner:?}, split = {halves:?}", q(x)), replay);
	}
	let Some((parent, inner)) = parts else {
		t.bump("split:none");
		return;
	};
	t.bump("split:some");
	let (ps, is) = (parent.as_inner().to_owned(), inner.as_inner().to_owned());
	if !ref_obj_class_name(ps.as_bytes()) || !ref_obj_class_name(is.as_bytes()) {
		report(ctx, "split:returns-invalid-object-class-name", || format!("split({}) = ({}, {}): a part typed ObjClassName is not a valid object class name", q(x), q(&ps), q(&is)), replay);
	}
	t.evals += 1;
	match vcore::guard(|| ObjClassName::from_inner_class(parent.clone(), &inner).into_inner()) {
		Ok(j) if j == *x => {
			t.bump("split:join-of-split-is-identity");
			if x.as_str().is_err() {
				t.bump("split:join-of-split-is-identity:not-utf8");
			}
		},
		Ok(j) => report(ctx, "split:join-of-split-differs", || format!("split({}) = ({}, {}) and from_inner_class of the parts = {}", q(x), q(&ps), q(&is), q(&j)), replay),
		Err(p) => report(ctx, &format!("join:panic@{}", site_file(&p)), || format!("from_inner_class({}, {}) panicked at {}: {}", q(&ps), q(&is), p.site, p.msg), replay),
	}
}

/// `split(join(p, i)) == (p, i)` for a valid outer `p` and a `$`-free, `/`-free inner `i`.
fn check_join(ctx: &Ctx, t: &mut Tally, p: &JavaStr, i: &JavaStr) {
	let replay = || format!("kind=join\nparent={}\ninner={}", esc(p), esc(i));
	if i.contains('$') || i.contains('/') {
		return;
	}
	let (Some(ps), Some(is)) = (obj(p), obj(i)) else { return };
	t.evals += 1;
	let joined = match vcore::guard(|| ObjClassName::from_inner_class(ps.to_owned(), is)) {
		Ok(j) => j,
		Err(pn) => {
			report(ctx, &format!("join:panic@{}", site_file(&pn)), || format!("from_inner_class({}, {}) panicked at {}: {}", q(p), q(i), pn.site, pn.msg), replay);
			return;
		},
	};
	let js = joined.as_inner().to_owned();
	let mut want = p.to_owned();
	want.push('$');
	want.push_java_str(i);
	if js != want {
		report(ctx, "join:not-parent-dollar-inner", || format!("from_inner_class({}, {}) = {}", q(p), q(i), q(&js)), replay);
	}
	if !ref_obj_class_name(js.as_bytes()) {
		report(ctx, "join:returns-invalid-object-class-name", || format!("from_inner_class({}, {}) = {} is not a valid object class name", q(p), q(i), q(&js)), replay);
	}
	t.evals += 1;
	match vcore::guard(|| joined.split_inner_class_parent_and_name().map(|(a, b)| (a.as_inner().to_owned(), b.as_inner().to_owned()))) {
		Ok(Some((a, b))) if a == *p && b == *i => {
			t.bump("join:split-of-join-is-identity");
			if js.as_str().is_err() {
				t.bump("join:split-of-join-is-identity:not-utf8");
			}
		},
		Ok(other) => report(ctx, "join:split-of-join-differs", || format!("from_inner_class({}, {}) = {} and splitting that gives {other:?}", q(p), q(i), q(&js)), replay),
		Err(pn) => report(ctx, &format!("split:panic@{}", site_file(&pn)), || format!("split_inner_class_parent_and_name({}) panicked at {}: {}", q(&js), pn.site, pn.msg), replay),
	}
}

// ---------------------------------------------------------------------------------------------
// enumeration

const DESC_ALPHABET: &str = "BDLa/;[()V.$";
const NAME_ALPHABET: &str = "a.;[/<>$";
const CHUNK: u64 = 8192;

fn nth_string(alphabet: &[u32], len: usize, mut idx: u64, scratch: &mut Vec<u32>, out: &mut JavaString) {
	let k = alphabet.len() as u64;
	scratch.clear();
	scratch.resize(len, 0);
	for i in (0..len).rev() {
		scratch[i] = alphabet[(idx % k) as usize];
		idx /= k;
	}
	out.clear();
	for cp in scratch.iter() {
		spaces::push_cp(out, *cp);
	}
}

fn show_alphabet(alphabet: &[u32]) -> String {
	esc(&jstr(alphabet))
}

/// Every string of length `0..=max_len` over `alphabet` (code points), in parallel chunks; sums are order-independent.
fn sweep(label: &'static str, alphabet: &[u32], max_len: usize, f: impl Fn(&mut Tally, &JavaStr) + Sync) -> Tally {
	let mut jobs: Vec<(usize, u64, u64)> = Vec::new();
	for len in 0..=max_len {
		let total = (alphabet.len() as u64).pow(len as u32);
		let mut a = 0;
		while a < total {
			let b = (a + CHUNK).min(total);
			jobs.push((len, a, b));
			a = b;
		}
	}
	jobs.into_par_iter().fold(Tally::new, |mut t, (len, a, b)| {
		vcore::watched(|| format!("{label} sweep: strings of length {len} over {}, indices {a}..{b}", show_alphabet(alphabet)), || {
			let (mut scratch, mut buf) = (Vec::new(), JavaString::new());
			for idx in a..b {
				nth_string(alphabet, len, idx, &mut scratch, &mut buf);
				t.strings += 1;
				f(&mut t, &buf);
			}
		});
		t
	}).reduce(Tally::new, Tally::merge)
}

fn all_strings(alphabet: &[u32], max_len: usize) -> Vec<JavaString> {
	let mut out = Vec::new();
	let mut scratch = Vec::new();
	for len in 0..=max_len {
		for idx in 0..(alphabet.len() as u64).pow(len as u32) {
			let mut s = JavaString::new();
			nth_string(alphabet, len, idx, &mut scratch, &mut s);
			out.push(s);
		}
	}
	out
}

/// `<init>`, `<clinit>` and every string one edit (deletion, substitution, insertion) away.
fn special_name_neighbours() -> Vec<JavaString> {
	let mut edit_alphabet: Vec<char> = NAME_ALPHABET.chars().collect();
	edit_alphabet.extend(['i', 'n', 't', 'c', 'l', 'I', 'x', ' ', '\u{E9}', '\u{0}']);
	let mut out: BTreeSet<String> = BTreeSet::new();
	for word in ["<init>", "<clinit>"] {
		let w: Vec<char> = word.chars().collect();
		out.insert(word.to_owned());
		out.insert(word.to_uppercase());
		for i in 0..w.len() {
			let mut d = w.clone();
			d.remove(i);
			out.insert(d.into_iter().collect());
			for c in &edit_alphabet {
				let mut s = w.clone();
				s[i] = *c;
				out.insert(s.into_iter().collect());
			}
		}
		for i in 0..=w.len() {
			for c in &edit_alphabet {
				let mut s = w.clone();
				s.insert(i, *c);
				out.insert(s.into_iter().collect());
			}
		}
	}
	out.into_iter().map(JavaString::from).collect()
}

/// Explicit probes outside the swept alphabets: the primitives the alphabets leave out in every position,
/// realistic descriptors, blanks around descriptors.
fn explicit_probes() -> Vec<JavaString> {
	let mut out: BTreeSet<String> = BTreeSet::new();
	for n in [254usize, 255, 256, 257] {
		let dims = "[".repeat(n);
		for base in ["B", "I", "La;", "Ljava/lang/Object;", "V", "", "a", "L;"] {
			let t = format!("{dims}{base}");
			out.insert(t.clone());
			out.insert(format!("({t})V"));
			out.insert(format!("(){t}"));
			out.insert(format!("(I{t}{t})I"));
			out.insert(format!("{t}{t}"));
		}
	}
	for p in ["B", "C", "D", "F", "I", "J", "S", "Z", "V"] {
		out.insert(p.to_owned());
		out.insert(p.to_lowercase());
		out.insert(format!("[{p}"));
		out.insert(format!("[[[{p}"));
		out.insert(format!("({p}){p}"));
		out.insert(format!("({p}[{p}){p}"));
		out.insert(format!("(){p}"));
		out.insert(format!("()[{p}"));
		out.insert(format!("([[{p}{p})[[{p}"));
		out.insert(format!("L{p};"));
		out.insert(format!("[L{p};"));
		out.insert(format!("[{p};"));
	}
	for s in [
		"(IDLjava/lang/Thread;)Ljava/lang/Object;", "(Ljava/lang/Thread;Ljava/lang/Object;)V", "Ljava/lang/Object;", "[[Ljava/lang/Integer;",
		"Ljava.lang.Object;", "Ljava/lang//Object;", "L/java/lang/Object;", "Ljava/lang/Object/;", "L[Ljava/lang/Object;;", "Ljava/lang/Object",
		"(Ljava/lang/Object;", "Ljava/lang/Object;)V", "()", "()VV", "(V)V", "([V)V", "()[V", "LÉ/☃;", "(LÉ;)[LÉ;",
		"LLong;", "[LList;", "(LList;I[LLexer;)LLong;", "LL;", "LLL;", "La$;", "L$;", "La//b;", "Ljava/util/Map<TK;TV;>;", "Ljava/util/Map$Entry;",
		" I", "I ", "\tI", "I\n", " ()V", "()V ", "( )V", "() V", " Ljava/lang/Object;", "Ljava/lang/Object; ", "L java/lang/Object;", "Ljava/lang/Object ;",
		"(II", "II)V", "((I)V", "(I))V", "(I)(I)V", "()()", ")(", "(;)V", "(L;)V", "([)V", "([", "[(", "[)", "[;",
	] {
		out.insert(s.to_owned());
	}
	out.into_iter().map(JavaString::from).collect()
}

fn element_types(class_names: &[JavaString]) -> Vec<R> {
	let mut e: Vec<R> = "BCDFIJSZ".chars().map(R::Prim).collect();
	e.extend(class_names.iter().map(|n| R::Obj(n.clone())));
	e
}

const STRUCT_DIMS: [u32; 4] = [1, 2, 254, 255];

/// every type of depth ≤ 2: an element type, or an array of 1, 2, 254 or 255 dimensions of one
fn type_universe(class_names: &[JavaString]) -> Vec<R> {
	let elems = element_types(class_names);
	let mut out = elems.clone();
	for d in STRUCT_DIMS {
		for e in &elems {
			out.push(R::Arr(d, Box::new(e.clone())));
		}
	}
	out
}

/// every descriptor structure: fields, returns and methods with up to one parameter over `types`, methods with
/// two parameters over `pair_types`, methods with three parameters over `triple_types`
fn struct_universe(types: &[R], pair_types: &[R], triple_types: &[R]) -> Vec<(usize, Shape)> {
	let mut out = Vec::new();
	for t in types {
		out.push((FIELD, Shape { params: None, ret: Some(t.clone()) }));
	}
	let rets_of = |types: &[R]| -> Vec<Option<R>> {
		let mut rets: Vec<Option<R>> = vec![None];
		rets.extend(types.iter().cloned().map(Some));
		rets
	};
	let rets = rets_of(types);
	for r in &rets {
		out.push((RETURN, Shape { params: None, ret: r.clone() }));
	}
	let mut param_lists: Vec<Vec<R>> = vec![vec![]];
	for a in types {
		param_lists.push(vec![a.clone()]);
	}
	for p in &param_lists {
		for r in &rets {
			out.push((METHOD, Shape { params: Some(p.clone()), ret: r.clone() }));
		}
	}
	let pair_rets = rets_of(pair_types);
	for a in pair_types {
		for b in pair_types {
			for r in &pair_rets {
				out.push((METHOD, Shape { params: Some(vec![a.clone(), b.clone()]), ret: r.clone() }));
			}
		}
	}
	let triple_rets = rets_of(triple_types);
	for a in triple_types {
		for b in triple_types {
			for c in triple_types {
				for r in &triple_rets {
					out.push((METHOD, Shape { params: Some(vec![a.clone(), b.clone(), c.clone()]), ret: r.clone() }));
				}
			}
		}
	}
	out
}

// ---------------------------------------------------------------------------------------------
// independent counts of the languages (cross-check of the reference recogniser, exit 2 on mismatch)

fn is_ascii_of(cp: u32, set: &[u8]) -> bool {
	u8::try_from(cp).is_ok_and(|b| set.contains(&b))
}

/// number of §4.2.1 class names of each length `0..=n` when `ids` characters may appear in an identifier
fn count_class_names(ids: u64, n: usize) -> Vec<u64> {
	// a[m] = names of length m (they end in an identifier character): the last character follows either a
	// shorter name directly or a shorter name and a `/`
	let mut a = vec![0u64; n + 1];
	for m in 1..=n {
		a[m] = if m == 1 { ids } else { ids * a[m - 1] + ids * a[m - 2] };
	}
	a
}

/// expected number of strings of length ≤ `n` over a descriptor alphabet in each of the three languages; the
/// alphabet must hold all the structural characters (the argument counts what can be spelt with them)
fn count_descriptors(alphabet: &[u32], n: usize) -> [u64; 3] {
	for needed in b"L;[/()V" {
		if !alphabet.contains(&u32::from(*needed)) {
			vcore::machinery_fail("counting argument: the descriptor alphabet lacks a structural character");
		}
	}
	let ids = alphabet.iter().filter(|c| !is_ascii_of(**c, b".;[/")).count() as u64;
	let prims = alphabet.iter().filter(|c| is_ascii_of(**c, b"BCDFIJSZ")).count() as u64;
	let cn = count_class_names(ids, n);
	let base = |m: usize| -> u64 { if m == 1 { prims } else if m >= 3 { cn[m - 2] } else { 0 } };
	// f[m]: field types of length m = d brackets and a base of length m - d
	let f: Vec<u64> = (0..=n).map(|m| (0..m).map(|d| base(m - d)).sum()).collect();
	let rt: Vec<u64> = (0..=n).map(|m| f[m] + u64::from(m == 1)).collect();
	// p[m]: sequences of field types of total length m
	let mut p = vec![0u64; n + 1];
	p[0] = 1;
	for m in 1..=n {
		p[m] = (1..=m).map(|k| f[k] * p[m - k]).sum();
	}
	let m_: Vec<u64> = (0..=n).map(|m| if m < 3 { 0 } else { (0..=m - 2).map(|a| p[a] * rt[m - 2 - a]).sum() }).collect();
	[f.iter().sum(), m_.iter().sum(), rt.iter().sum()]
}

/// expected number of strings of length ≤ `n` over a name alphabet that each name type documents as valid
/// (the alphabet must have no base type letter and no `L`: then no array class name can be spelt in it)
fn count_names(alphabet: &[u32], n: usize) -> [u64; 7] {
	if alphabet.iter().any(|c| is_ascii_of(*c, b"BCDFIJSZL")) {
		vcore::machinery_fail("counting argument: the name alphabet can spell an array class name");
	}
	let ids = alphabet.iter().filter(|c| !is_ascii_of(**c, b".;[/")).count() as u64;
	let method_ids = alphabet.iter().filter(|c| !is_ascii_of(**c, b".;[/<>")).count() as u64;
	let obj: u64 = count_class_names(ids, n).iter().sum();
	let unq: u64 = (1..=n).map(|m| ids.pow(m as u32)).sum();
	let meth: u64 = (1..=n).map(|m| method_ids.pow(m as u32)).sum();
	[obj, 0, obj, unq, meth, unq, unq]
}

fn confirm_counts(label: &str, t: &Tally, alphabet: &[u32], max_len: usize, descriptors: bool) {
	if descriptors {
		let want = count_descriptors(alphabet, max_len);
		for k in 0..3 {
			if t.ref_accepts_desc(k) != want[k] {
				vcore::machinery_fail(&format!("{label}: reference recogniser accepts {} {} descriptors of length ≤ {max_len}, the counting argument gives {}", t.ref_accepts_desc(k), PARSERS[k], want[k]));
			}
		}
	} else {
		let want = count_names(alphabet, max_len);
		for k in 0..7 {
			if t.ref_accepts_name(k) != want[k] {
				vcore::machinery_fail(&format!("{label}: reference predicate for {} accepts {} names of length ≤ {max_len}, the counting argument gives {}", NAME_TYPES[k], t.ref_accepts_name(k), want[k]));
			}
		}
	}
	if t.strings != vcore::enumerate::strings_count(alphabet.len(), max_len) {
		vcore::machinery_fail(&format!("{label}: the sweep did not visit every string"));
	}
}

// ---------------------------------------------------------------------------------------------

fn sample_desc(s: &JavaStr) -> Value {
	let mut per = serde_json::Map::new();
	for kind in 0..3 {
		let real = vcore::guard(|| real_parse(kind, s).map(|p| (format!("{:?}", p.shape()), vcore::guard(|| esc(&p.write())).map_err(|p| format!("panic at {}", p.site)))));
		per.insert(PARSERS[kind].to_owned(), json!({
			"reference": match ref_parse(kind, s.as_bytes()) { Ok(sh) => format!("accept {sh:?}"), Err(w) => format!("reject ({})", w.name()) },
			"real": match real { Ok(Some((sh, w))) => format!("accept {sh} write={w:?}"), Ok(None) => "reject".to_owned(), Err(p) => format!("panic at {}", p.site) },
		}));
	}
	json!({"kind": "descriptor-string", "string": q(s), "parsers": per})
}

fn sample_name(s: &JavaStr) -> Value {
	let mut per = serde_json::Map::new();
	for k in 0..7 {
		per.insert(NAME_TYPES[k].to_owned(), json!({
			"documented": ref_name(k, s.as_bytes()).is_ok(),
			"real_is_valid": vcore::guard(|| real_name(k, s).is_valid).ok(),
		}));
	}
	json!({"kind": "name-string", "string": q(s), "types": per})
}

fn sample_split(s: &JavaStr) -> Value {
	let real = obj(s).map(|o| vcore::guard(|| o.split_inner_class_parent_and_name().map(|(p, i)| (esc(p.as_inner()), esc(i.as_inner())))).map_err(|p| p.site));
	json!({"kind": "split", "name": q(s), "split": format!("{real:?}"), "documented": format!("{:?}", ref_split(s.as_bytes()).map(|(p, i)| (esc(&text(p)), esc(&text(i)))))})
}

fn fold_tally<I: IntoParallelIterator>(items: I, f: impl Fn(&mut Tally, I::Item) + Sync + Send) -> Tally {
	items.into_par_iter().fold(Tally::new, |mut t, item| {
		f(&mut t, item);
		t
	}).reduce(Tally::new, Tally::merge)
}

const HUGE_DIMS: [usize; 5] = [4096, 65_535, 65_536, 65_537, 1 << 20];

fn main() {
	// Every refusal of the code under test builds an anyhow::Error; with RUST_BACKTRACE set in the caller's
	// environment each of them would capture a backtrace under a global lock (hundreds of millions here).
	// Set before any thread exists; it changes no verdict, only the cost of an Err.
	std::env::set_var("RUST_LIB_BACKTRACE", "0");
	let ctx: &'static Ctx = Box::leak(Box::new(Ctx::new("C18", "exploration")));
	if let Some(path) = ctx.replay.clone() {
		replay(ctx, &path);
	}
	let thorough = !ctx.quick();
	let desc_len = ctx.tier.pick(6, 7);
	let name_len = ctx.tier.pick(6, 8);
	let split_len = ctx.tier.pick(6, 8);
	let (parent_len, inner_len) = ctx.tier.pick((4, 3), (5, 4));
	let wide_desc_len = ctx.tier.pick(5, 6);
	let wide_name_len = ctx.tier.pick(5, 6);
	let wide_split_len = ctx.tier.pick(4, 5);
	let (wide_parent_len, wide_inner_len) = ctx.tier.pick((3, 2), (4, 2));
	let max_dims = ctx.tier.pick(1030usize, 2100);
	let max_params = ctx.tier.pick(300usize, 1200);
	let max_long = ctx.tier.pick(200usize, 400);
	let desc_alphabet = cps(DESC_ALPHABET);
	let name_alphabet = cps(NAME_ALPHABET);
	let wide_desc_alphabet = spaces::wide_desc_alphabet();
	let wide_name_alphabet = spaces::wide_name_alphabet();

	// 1. descriptor alphabet: three parsers and all seven name types on every string
	let d = sweep("descriptor", &desc_alphabet, desc_len, |t, s| {
		check_desc(ctx, t, s);
		check_name(ctx, t, s);
	});
	confirm_counts("descriptor sweep", &d, &desc_alphabet, desc_len, true);

	// 2. name alphabet: all seven name types on every string
	let n = sweep("name", &name_alphabet, name_len, |t, s| check_name(ctx, t, s));
	confirm_counts("name sweep", &n, &name_alphabet, name_len, false);

	// 3. <init>/<clinit> neighbourhood and explicit probes
	let neighbours = special_name_neighbours();
	let probes = explicit_probes();
	let x = fold_tally(neighbours.par_iter().map(|s| (s, false)).chain(probes.par_iter().map(|s| (s, true))), |t, (s, desc)| {
		vcore::watched(|| format!("explicit string {}", q(s)), || {
			t.strings += 1;
			if desc {
				check_desc(ctx, t, s);
			}
			check_name(ctx, t, s);
		});
	});
	// the dimension boundary, judged one by one so that the floor names what was seen
	let mut boundary = BTreeMap::new();
	for (dims, must_accept) in [(254usize, true), (255, true), (256, false), (257, false)] {
		for (kind, s) in [(FIELD, format!("{}B", "[".repeat(dims))), (RETURN, format!("{}La;", "[".repeat(dims))), (METHOD, format!("({}I)V", "[".repeat(dims))), (METHOD, format!("(){}I", "[".repeat(dims)))] {
			if ref_parse(kind, s.as_bytes()).is_ok() != must_accept {
				vcore::machinery_fail("reference recogniser is wrong about the dimension limit");
			}
			let real = vcore::guard(|| real_parse(kind, JavaStr::from_str(&s)).is_some()).unwrap_or(!must_accept);
			*boundary.entry(if real == must_accept { "agree" } else { "disagree" }).or_insert(0u64) += 1;
		}
	}

	// 4. descriptor alphabet with wide characters
	let wd = sweep("wide descriptor", &wide_desc_alphabet, wide_desc_len, |t, s| {
		check_desc(ctx, t, s);
		check_name(ctx, t, s);
	});
	confirm_counts("wide descriptor sweep", &wd, &wide_desc_alphabet, wide_desc_len, true);

	// 5. name alphabet with wide characters
	let wn = sweep("wide name", &wide_name_alphabet, wide_name_len, |t, s| check_name(ctx, t, s));
	confirm_counts("wide name sweep", &wn, &wide_name_alphabet, wide_name_len, false);

	// 6. every code point in every context
	let (desc_templates, name_templates, split_templates) = (spaces::desc_templates(thorough), spaces::name_templates(thorough), spaces::split_templates(thorough));
	let block = 512u32;
	let blocks: Vec<u32> = (0..=spaces::LAST_CODE_POINT / block).collect();
	let cp = fold_tally(blocks, |t, b| {
		let (from, to) = (b * block, (b * block + block - 1).min(spaces::LAST_CODE_POINT));
		vcore::watched(|| format!("code points {from:#x}..={to:#x} in the contexts {:?} {:?} {:?}", desc_templates.iter().map(|x| x.label).collect::<Vec<_>>(), name_templates.iter().map(|x| x.label).collect::<Vec<_>>(), split_templates.iter().map(|x| x.label).collect::<Vec<_>>()), || {
			let mut buf = JavaString::new();
			for c in from..=to {
				for tpl in &desc_templates {
					tpl.fill(c, &mut buf);
					check_desc(ctx, t, &buf);
				}
				for tpl in &name_templates {
					tpl.fill(c, &mut buf);
					check_name(ctx, t, &buf);
				}
				for tpl in &split_templates {
					tpl.fill(c, &mut buf);
					check_split(ctx, t, &buf);
				}
				t.strings += (desc_templates.len() + name_templates.len() + split_templates.len()) as u64;
				t.bump("code-points:visited");
				if (0xD800..=0xDFFF).contains(&c) {
					t.bump("code-points:surrogates-visited");
				}
			}
		});
	});

	// 7. ladders
	let dim_cases: Vec<usize> = (0..=max_dims).collect();
	let ld = fold_tally(dim_cases, |t, dims| {
		vcore::watched(|| format!("dimension ladder: {dims} brackets before {:?} in {:?}", spaces::DIM_BASES, spaces::DIM_FORMS), || {
			for base in 0..spaces::DIM_BASES.len() {
				for form in 0..spaces::DIM_FORMS.len() {
					let s = spaces::dims_case(dims, base, form);
					t.strings += 1;
					check_desc(ctx, t, &s);
					check_name(ctx, t, &s);
					t.bump("ladder:dimensions:cases");
				}
			}
		});
	});
	let huge_cases: Vec<(usize, usize, usize)> = HUGE_DIMS.iter().flat_map(|d| [0usize, 1].into_iter().flat_map(move |b| (0..3usize).map(move |f| (*d, b, f)))).collect();
	let lh = fold_tally(huge_cases.clone(), |t, (dims, base, form)| {
		vcore::watched(|| format!("{dims} brackets before {:?} in {:?}", spaces::DIM_BASES[base], spaces::DIM_FORMS[form]), || {
			let s = spaces::dims_case(dims, base, form);
			t.strings += 1;
			let refused_before: u64 = (0..3).map(|k| t.desc_rejects(k)).sum();
			check_desc(ctx, t, &s);
			check_name(ctx, t, &s);
			if (0..3).map(|k| t.desc_rejects(k)).sum::<u64>() == refused_before + 3 {
				t.bump("ladder:huge-dimensions:refused-by-all-three-parsers");
			}
		});
	});
	let param_cases: Vec<usize> = (0..=max_params).collect();
	let lp = fold_tally(param_cases, |t, count| {
		vcore::watched(|| format!("parameter ladder: {count} parameters {:?} returning {:?}", spaces::PARAM_UNITS, spaces::PARAM_RETURNS), || {
			for unit in 0..spaces::PARAM_UNITS.len() {
				for ret in 0..spaces::PARAM_RETURNS.len() {
					let s = spaces::params_case(count, unit, ret);
					t.strings += 1;
					let before = t.d_rewritten_same[METHOD];
					check_desc(ctx, t, &s);
					if t.d_rewritten_same[METHOD] > before {
						let slots = count * if spaces::PARAM_UNITS[unit] == "D" { 2 } else { 1 };
						t.bump(if slots > 255 { "ladder:parameters:over-255-slots-read-and-written-back" } else { "ladder:parameters:up-to-255-slots-read-and-written-back" });
					}
				}
			}
		});
	});
	let mut long_chars: Vec<u32> = spaces::WIDE.to_vec();
	long_chars.push(u32::from(b'b'));
	let long_cases: Vec<(usize, u32, usize)> = (0..=max_long).flat_map(|k| long_chars.clone().into_iter().flat_map(move |w| (0..spaces::LONG_PLACEMENTS).map(move |p| (k, w, p)))).collect();
	let b_name = JavaString::from("b");
	let ll = fold_tally(long_cases.clone(), |t, (k, w, placement)| {
		vcore::watched(|| format!("long name: {k} × a with U+{w:04X} at placement {placement}"), || {
			let name = spaces::long_name(k, w, placement);
			for form in spaces::LONG_DESC_FORMS {
				let s = spaces::long_case(form, &name);
				t.strings += 1;
				check_desc(ctx, t, &s);
			}
			for form in spaces::LONG_NAME_FORMS {
				let s = spaces::long_case(form, &name);
				t.strings += 1;
				check_name(ctx, t, &s);
			}
			for form in ["?$b", "b$?", "p/?$b", "?$?", "?/b$b"] {
				let s = spaces::long_case(form, &name);
				t.strings += 1;
				check_split(ctx, t, &s);
			}
			check_join(ctx, t, &name, &b_name);
			check_join(ctx, t, &b_name, &name);
			check_join(ctx, t, &name, &name);
			t.bump("ladder:long-names:cases");
		});
	});

	// 8. structures: write → parse, and every type as a class name
	let class_names = spaces::structure_class_names(thorough);
	let types = type_universe(&class_names);
	let pair_types: Vec<R> = if thorough { types.clone() } else { type_universe(&[class_names[1].clone(), class_names[3].clone(), class_names[5].clone(), class_names[7].clone()]) };
	let triple_types: Vec<R> = vec![
		R::Prim('I'), R::Prim('D'), R::Obj(class_names[0].clone()), R::Arr(1, Box::new(R::Prim('I'))),
		R::Arr(2, Box::new(R::Obj(class_names[7].clone()))), R::Arr(255, Box::new(R::Obj(class_names[1].clone()))),
	];
	let structs = struct_universe(&types, &[], &triple_types);
	let s1 = structs.par_chunks(256).fold(Tally::new, |mut t, chunk| {
		vcore::watched(|| format!("structure sweep from {:?}", chunk.first().map(|(k, sh)| (PARSERS[*k], esc(&ref_print(sh))))), || {
			for (kind, shape) in chunk {
				check_struct(ctx, &mut t, *kind, shape);
			}
		});
		t
	}).reduce(Tally::new, Tally::merge);
	let pair_rets: Vec<Option<R>> = std::iter::once(None).chain(pair_types.iter().cloned().map(Some)).collect();
	let firsts: Vec<&R> = pair_types.iter().collect();
	let s2 = fold_tally(firsts, |t, a| {
		for b in &pair_types {
			vcore::watched(|| format!("structure sweep: methods with the parameters {a:?}, {b:?}"), || {
				for r in &pair_rets {
					check_struct(ctx, t, METHOD, &Shape { params: Some(vec![a.clone(), b.clone()]), ret: r.clone() });
					t.bump("struct:two-parameter-methods");
				}
			});
		}
	});
	let sc = fold_tally(types.par_iter(), |t, r| {
		vcore::watched(|| format!("type as class name: {r:?}"), || check_class(ctx, t, r));
	});
	let s = s1.merge(s2).merge(sc);
	let structures = structs.len() as u64 + s.get("struct:two-parameter-methods");

	// the named constants are what their names say and pass their own predicates
	let mut consts = Tally::new();
	for (what, held, documented, valid) in [
		("MethodName::INIT", MethodName::INIT.as_inner(), "<init>", MethodName::is_valid(MethodName::INIT.as_inner())),
		("MethodName::CLINIT", MethodName::CLINIT.as_inner(), "<clinit>", MethodName::is_valid(MethodName::CLINIT.as_inner())),
		("ObjClassName::JAVA_LANG_OBJECT", ObjClassName::JAVA_LANG_OBJECT.as_inner(), "java/lang/Object", ObjClassName::is_valid(ObjClassName::JAVA_LANG_OBJECT.as_inner())),
	] {
		consts.evals += 2;
		if held != documented || !valid {
			report(ctx, "constant:differs-from-its-name", || format!("{what} holds {} (valid for its own type: {valid}), documented as {documented:?}", q(held)), || format!("kind=name\nstring={}", esc(held)));
		} else {
			consts.bump("constants:as-documented");
		}
	}

	// 9. inner-class split / join
	let name_strings = all_strings(&name_alphabet, split_len.max(parent_len));
	let valid_names: Vec<&JavaString> = name_strings.iter().filter(|s| ref_obj_class_name(s.as_bytes())).collect();
	let outers: Vec<&JavaString> = valid_names.iter().copied().filter(|s| s.len() <= parent_len).collect();
	let inners: Vec<&JavaString> = valid_names.iter().copied().filter(|s| s.len() <= inner_len && !s.contains('$') && !s.contains('/')).collect();
	let wide_strings = all_strings(&wide_name_alphabet, wide_split_len.max(wide_parent_len));
	let chars_of = |s: &JavaString| s.chars().count();
	let wide_valid: Vec<&JavaString> = wide_strings.iter().filter(|s| ref_obj_class_name(s.as_bytes())).collect();
	let wide_outers: Vec<&JavaString> = wide_valid.iter().copied().filter(|s| chars_of(s) <= wide_parent_len).collect();
	let wide_inners: Vec<&JavaString> = wide_valid.iter().copied().filter(|s| chars_of(s) <= wide_inner_len && !s.contains('$') && !s.contains('/')).collect();
	let split_names: Vec<&JavaString> = valid_names.iter().copied().filter(|x| x.len() <= split_len).chain(wide_valid.iter().copied().filter(|x| chars_of(x) <= wide_split_len)).collect();
	let sp = split_names.par_chunks(512).fold(Tally::new, |mut t, chunk| {
		vcore::watched(|| format!("split sweep from {:?}", chunk.first().map(|x| q(x))), || {
			for x in chunk {
				check_split(ctx, &mut t, x);
			}
		});
		t
	}).reduce(Tally::new, Tally::merge);
	let join_rows: Vec<(&JavaString, &Vec<&JavaString>)> = outers.iter().map(|p| (*p, &inners)).chain(wide_outers.iter().map(|p| (*p, &wide_inners))).collect();
	let jo = fold_tally(join_rows, |t, (p, inners)| {
		vcore::watched(|| format!("join sweep parent {}", q(p)), || {
			for i in inners.iter() {
				check_join(ctx, t, p, i);
			}
		});
	});

	let all = [&d, &n, &x, &wd, &wn, &cp, &ld, &lh, &lp, &ll, &s, &consts, &sp, &jo].into_iter().fold(Tally::new(), |a, b| a.merge(b.clone()));

	// vacuity floors
	let (acc_floor, rej_floor) = (100, 1000);
	for k in 0..3 {
		ctx.floor(&format!("{} descriptors accepted by parser and grammar", PARSERS[k]), acc_floor, all.d_both_accept[k]);
		ctx.floor(&format!("{} descriptors rejected by parser and grammar", PARSERS[k]), rej_floor, all.desc_rejects(k));
		ctx.floor(&format!("{} descriptors written back identically", PARSERS[k]), acc_floor, all.d_rewritten_same[k]);
		ctx.floor(&format!("{} descriptors with a lone surrogate written back identically", PARSERS[k]), 1000, all.d_rewritten_same_not_utf8[k]);
		ctx.floor(&format!("{} descriptors over the wide alphabet accepted / rejected by parser and grammar", PARSERS[k]), 10, wd.d_both_accept[k].min(wd.desc_rejects(k)));
	}
	let reason_seen = |k: usize, w: Why| all.d_both_reject[k][w as usize] + all.d_real_only[k][w as usize];
	for w in WHYS {
		let applicable: &[usize] = match w {
			Why::NoOpenParen | Why::NoCloseParen | Why::VoidParam => &[METHOD],
			_ => &[FIELD, METHOD, RETURN],
		};
		for k in applicable {
			ctx.floor(&format!("reference rejection reason {} reached in {} descriptors", w.name(), PARSERS[*k]), 1, reason_seen(*k, w));
		}
	}
	for k in 0..7 {
		ctx.floor(&format!("{} accepted as documented", NAME_TYPES[k]), acc_floor, all.n_both_accept[k]);
		ctx.floor(&format!("{} rejected as documented", NAME_TYPES[k]), rej_floor, all.n_both_reject[k]);
		ctx.floor(&format!("{} with a lone surrogate accepted as documented", NAME_TYPES[k]), 100, all.n_both_accept_not_utf8[k]);
	}
	for k in [0usize, 2, 3, 4, 5, 6] {
		ctx.floor(&format!("{} over the wide alphabet accepted / rejected as documented", NAME_TYPES[k]), 1000, wn.n_both_accept[k].min(wn.n_both_reject[k]));
	}
	ctx.floor("dimension boundary probes (254/255 accepted, 256/257 refused) judged", 16, boundary.values().sum());
	ctx.floor("every code point visited", u64::from(spaces::LAST_CODE_POINT) + 1, cp.get("code-points:visited"));
	ctx.floor("every surrogate visited", 2048, cp.get("code-points:surrogates-visited"));
	ctx.floor("code points: names split", 100_000, cp.get("split:some"));
	ctx.floor("dimension ladder cases", ((max_dims + 1) * spaces::DIM_BASES.len() * spaces::DIM_FORMS.len()) as u64, ld.get("ladder:dimensions:cases"));
	ctx.floor("dimension ladder: descriptors accepted", 1000, ld.d_both_accept.iter().sum());
	ctx.floor("dimension ladder: over 255 dimensions refused", 1000, (0..3).map(|k| ld.d_both_reject[k][Why::TooManyDims as usize]).sum());
	ctx.floor("dimension ladder: array class names accepted / refused", 500, ld.n_both_accept[1].min(ld.n_both_reject[1]));
	ctx.floor("4096 … 2^20 brackets refused by all three parsers", huge_cases.len() as u64, lh.get("ladder:huge-dimensions:refused-by-all-three-parsers"));
	// (beyond 255 slots reading is optional: counted in the outcomes, no floor)
	ctx.floor("parameter ladder: descriptors of up to 255 parameter slots read and written back", ((256 * (spaces::PARAM_UNITS.len() - 1) + 128) * spaces::PARAM_RETURNS.len()) as u64, lp.get("ladder:parameters:up-to-255-slots-read-and-written-back"));
	ctx.floor("long names judged", long_cases.len() as u64, ll.get("ladder:long-names:cases"));
	ctx.floor("long names: descriptors accepted / refused", 1000, ll.d_both_accept.iter().sum::<u64>().min((0..3).map(|k| ll.desc_rejects(k)).sum()));
	ctx.floor("long names: split and joined back", 1000, ll.get("split:join-of-split-is-identity").min(ll.get("join:split-of-join-is-identity")));
	ctx.floor("structures written and parsed back", 1000, s.get("struct:field:round-trip") + s.get("struct:method:round-trip") + s.get("struct:return:round-trip"));
	ctx.floor("structures whose text is not UTF-8 written and parsed back", 1000, s.get("struct:round-trip-of-a-text-that-is-not-utf8"));
	ctx.floor("object class names turned into descriptors", class_names.len() as u64, s.get("class:object-class-name-to-descriptor"));
	ctx.floor("array class names turned into descriptors", (STRUCT_DIMS.len() * (8 + class_names.len())) as u64, s.get("class:array-class-name-to-descriptor"));
	ctx.floor("named constants as documented", 3, consts.get("constants:as-documented"));
	ctx.floor("names split into parent and inner", 100, sp.get("split:some"));
	ctx.floor("names without an inner-class split", 100, sp.get("split:none"));
	ctx.floor("split→join identities", 100, sp.get("split:join-of-split-is-identity"));
	ctx.floor("split→join identities on names with a lone surrogate", 100, sp.get("split:join-of-split-is-identity:not-utf8"));
	ctx.floor("join→split identities", 1000, jo.get("join:split-of-join-is-identity"));
	ctx.floor("join→split identities on names with a lone surrogate", 1000, jo.get("join:split-of-join-is-identity:not-utf8"));

	let mut outcomes: BTreeMap<String, u64> = BTreeMap::new();
	for k in 0..3 {
		outcomes.insert(format!("desc:{}:both-accept", PARSERS[k]), all.d_both_accept[k]);
		outcomes.insert(format!("desc:{}:real-rejects-valid", PARSERS[k]), all.d_ref_only[k]);
		outcomes.insert(format!("desc:{}:rewritten-identically", PARSERS[k]), all.d_rewritten_same[k]);
		outcomes.insert(format!("desc:{}:rewritten-identically:not-utf8", PARSERS[k]), all.d_rewritten_same_not_utf8[k]);
		for w in WHYS {
			outcomes.insert(format!("desc:{}:both-reject:{}", PARSERS[k], w.name()), all.d_both_reject[k][w as usize]);
			if all.d_real_only[k][w as usize] > 0 {
				outcomes.insert(format!("desc:{}:real-accepts-invalid:{}", PARSERS[k], w.name()), all.d_real_only[k][w as usize]);
			}
		}
	}
	for k in 0..7 {
		outcomes.insert(format!("name:{}:both-accept", NAME_TYPES[k]), all.n_both_accept[k]);
		outcomes.insert(format!("name:{}:both-accept:not-utf8", NAME_TYPES[k]), all.n_both_accept_not_utf8[k]);
		outcomes.insert(format!("name:{}:both-reject", NAME_TYPES[k]), all.n_both_reject[k]);
		outcomes.insert(format!("name:{}:real-accepts-undocumented", NAME_TYPES[k]), all.n_real_only[k]);
		outcomes.insert(format!("name:{}:real-rejects-documented", NAME_TYPES[k]), all.n_ref_only[k]);
	}
	for (k, v) in &all.misc {
		outcomes.insert(k.to_string(), *v);
	}
	outcomes.insert("dimension-boundary:agree".into(), boundary.get("agree").copied().unwrap_or(0));
	outcomes.insert("dimension-boundary:disagree".into(), boundary.get("disagree").copied().unwrap_or(0));

	let distinct = all.d_both_accept.iter().sum::<u64>() + all.n_both_accept.iter().sum::<u64>() + s.get("struct:field:round-trip") + s.get("struct:method:round-trip") + s.get("struct:return:round-trip") + all.get("split:some") + all.get("join:split-of-join-is-identity");
	let lone = jstr(&[u32::from(b'L'), u32::from(b'a'), spaces::HIGH, u32::from(b'b'), u32::from(b';')]);
	let samples: Vec<Value> = vec![
		sample_desc("(La/b;[D)V".into()), sample_desc("[[La;".into()), sample_desc("L;".into()), sample_desc("L[a;".into()), sample_desc(&spaces::dims_case(256, 0, 0)),
		sample_desc(&lone), sample_desc(&spaces::long_case("(L?;)V?", &spaces::long_name(3, spaces::FRAKTUR, 0))),
		sample_name("a/b$a".into()), sample_name("[La;".into()), sample_name("[a".into()), sample_name("<init>".into()), sample_name("<inix>".into()), sample_name(&jstr(&[spaces::LOW, spaces::HIGH])), sample_name("a\\ b".into()),
		json!({"kind": "structure", "parser": "method", "structure": format!("{:?}", structs.last().map(|x| &x.1)), "printed": structs.last().map(|x| esc(&ref_print(&x.1)))}),
		sample_split("a/a$a$<".into()), sample_split("a$b/c".into()), sample_split(&jstr(&[spaces::FRAKTUR, u32::from(b'$'), spaces::HIGH])),
	];
	let labels = |t: &[spaces::Template]| t.iter().map(|x| x.label).collect::<Vec<_>>();
	let coverage = json!({
		"evaluations": all.evals,
		"distinct_nontrivial": distinct,
		"rule": "evaluations = calls of real duke functions (parse, write, is_valid, the three TryFroms, split and its two getters, from_inner_class, from_class & co.). distinct_nontrivial = (string, parser) pairs accepted by both the real parser and the grammar + (string, name type) pairs accepted by both + structures that survived write→parse + names split + (parent, inner) pairs joined and split back; the strings of one space are distinct by construction, the spaces overlap in a few short strings",
		"exhaustive": true,
		"samples": samples,
		"bounds": {
			"descriptor_alphabet": DESC_ALPHABET,
			"descriptor_max_len": desc_len,
			"descriptor_strings": d.strings,
			"name_alphabet": NAME_ALPHABET,
			"name_max_len": name_len,
			"name_strings": n.strings,
			"special_name_neighbours": neighbours.len(),
			"explicit_probes": probes.len(),
			"wide_descriptor_alphabet": show_alphabet(&wide_desc_alphabet),
			"wide_descriptor_max_len": wide_desc_len,
			"wide_descriptor_strings": wd.strings,
			"wide_name_alphabet": show_alphabet(&wide_name_alphabet),
			"wide_name_max_len": wide_name_len,
			"wide_name_strings": wn.strings,
			"code_points": {"from": 0, "to": spaces::LAST_CODE_POINT, "descriptor_contexts": labels(&desc_templates), "name_contexts": labels(&name_templates), "split_contexts": labels(&split_templates), "strings": cp.strings},
			"dimension_ladder": {"dimensions": [0, max_dims], "bases": spaces::DIM_BASES, "placements": spaces::DIM_FORMS, "strings": ld.strings, "huge": HUGE_DIMS, "huge_strings": lh.strings},
			"parameter_ladder": {"parameters": [0, max_params], "units": spaces::PARAM_UNITS, "returns": spaces::PARAM_RETURNS, "strings": lp.strings},
			"long_names": {"a_repeated": [0, max_long], "wide_character": long_chars.iter().map(|c| format!("U+{c:04X}")).collect::<Vec<_>>(), "placements": ["last", "last but one", "first"], "descriptor_contexts": spaces::LONG_DESC_FORMS, "name_contexts": spaces::LONG_NAME_FORMS, "strings": ll.strings},
			"structure_class_names": class_names.iter().map(|c| esc(c)).collect::<Vec<_>>(),
			"structure_dimensions": STRUCT_DIMS,
			"structure_types": types.len(),
			"structure_types_for_two_parameters": pair_types.len(),
			"structure_types_for_three_parameters": triple_types.len(),
			"structures": structures,
			"split_names_max_len": split_len,
			"wide_split_names_max_len": wide_split_len,
			"split_names": split_names.len(),
			"join_parent_max_len": parent_len,
			"join_inner_max_len": inner_len,
			"wide_join_parent_max_len": wide_parent_len,
			"wide_join_inner_max_len": wide_inner_len,
			"join_pairs": outers.len() * inners.len() + wide_outers.len() * wide_inners.len(),
		},
		"outcomes": outcomes,
		"reference_language_sizes": {
			"descriptors": count_descriptors(&desc_alphabet, desc_len), "names": count_names(&name_alphabet, name_len),
			"wide_descriptors": count_descriptors(&wide_desc_alphabet, wide_desc_len), "wide_names": count_names(&wide_name_alphabet, wide_name_len),
		},
	});
	ctx.finish(coverage, &[
		"JVMS §4.3.2/§4.3.3 grammar with the class name inside L…; read per §4.2.1 (non-empty identifiers separated by '/', none containing '.', ';', '[', '/') and at most 255 array dimensions",
		"the 255-slot limit on method parameters (§4.3.3) is not part of the grammar: a method descriptor within it (255 slots included) must be read; beyond it the parser may refuse, and if it reads the descriptor, structure and write-back are judged as everywhere",
		"the documentation of a name type is its doc comment, the text of its check_valid error and the doc comment of the predicate it calls; TODO markers do not narrow what the documentation promises",
		"a name is any sequence of code points U+0000..=U+10FFFF including unpaired surrogates (class files carry modified UTF-8; the crate's text type is JavaStr for that reason); every comparison is byte for byte",
		"Display of a name type is compared only for UTF-8 names; for a name with a lone surrogate only a panic of the formatting machinery would be reported",
		"FieldDescriptor::from_class / from_obj_class / from_arr_class, ArrClassNameSlice::dimension and ReturnDescriptor::from(FieldDescriptor) are judged against their documentation (L name ; for an object class name, the name itself for an array class name, the number of leading brackets): they are how a name type prints itself as a descriptor",
		"the split is judged against the doc comments of get_inner_class_name / get_inner_class_parent (last `$` of the last `/`-separated section, both sides non-empty there) and join∘split, split∘join are identities for `$`-free, `/`-free inner names",
		"FieldDescriptor/MethodDescriptor/ReturnDescriptor::is_valid are not name types and are not judged",
		"the size of each reference language over each of the four alphabets was confirmed by an independent counting argument",
	]);
}

fn replay(ctx: &'static Ctx, path: &std::path::Path) -> ! {
	let body = vcore::replay_body(path);
	let field = |name: &str| -> Option<String> {
		body.lines().find_map(|l| l.strip_prefix(name).and_then(|r| r.strip_prefix('=')).map(|r| r.to_owned()))
	};
	let need = |name: &str| -> JavaString {
		let raw = field(name).unwrap_or_else(|| vcore::machinery_fail(&format!("replay file has no {name}= line")));
		unesc(&raw).unwrap_or_else(|| vcore::machinery_fail(&format!("replay file: {name}= is not an escaped string")))
	};
	let kind = field("kind").unwrap_or_else(|| vcore::machinery_fail("replay file has no kind= line"));
	let mut t = Tally::new();
	let describe = |kind: &str| -> String {
		match kind {
			"desc" | "struct" | "class" => sample_desc(&need("string")).to_string(),
			"name" => sample_name(&need("string")).to_string(),
			"split" => sample_split(&need("string")).to_string(),
			"join" => format!("{:?}", obj(&need("parent")).zip(obj(&need("inner"))).map(|(p, i)| vcore::guard(|| esc(ObjClassName::from_inner_class(p.to_owned(), i).as_inner())))),
			other => vcore::machinery_fail(&format!("unknown replay kind {other:?}")),
		}
	};
	let (a, b) = (describe(&kind), describe(&kind));
	if a != b {
		vcore::machinery_fail("replay is not deterministic");
	}
	println!("{a}");
	match kind.as_str() {
		"desc" => check_desc(ctx, &mut t, &need("string")),
		"name" => check_name(ctx, &mut t, &need("string")),
		"struct" => {
			let parser = field("parser").unwrap_or_else(|| vcore::machinery_fail("replay file has no parser= line"));
			let k = PARSERS.iter().position(|p| *p == parser).unwrap_or_else(|| vcore::machinery_fail("unknown parser"));
			let shape = ref_parse(k, need("string").as_bytes()).unwrap_or_else(|w| vcore::machinery_fail(&format!("structure replay string is not a descriptor: {}", w.name())));
			check_struct(ctx, &mut t, k, &shape);
		},
		"class" => {
			let shape = ref_parse(FIELD, need("string").as_bytes()).unwrap_or_else(|w| vcore::machinery_fail(&format!("class replay string is not a field descriptor: {}", w.name())));
			if let Some(r) = &shape.ret {
				check_class(ctx, &mut t, r);
			}
		},
		"split" => check_split(ctx, &mut t, &need("string")),
		"join" => check_join(ctx, &mut t, &need("parent"), &need("inner")),
		_ => {},
	}
	ctx.finish(json!({"evaluations": t.evals, "distinct_nontrivial": 1, "rule": "replay of one case", "samples": [a], "exhaustive": false}), &[]);
}
