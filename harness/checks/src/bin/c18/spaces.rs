//! C18 — generators of the spaces beyond the two ASCII sweeps: code-point alphabets (characters of 1/2/3/4
//! UTF-8 bytes, lone surrogates in both orders, the replacement character itself), templates with one hole
//! for "every code point", and the ladders (dimensions, parameter counts, long texts with one wide character
//! at every offset). Pure string construction: nothing of /repo is called here.

use java_string::{JavaCodePoint, JavaStr, JavaString};

pub const E_ACUTE: u32 = 0xE9; // 2 bytes
pub const CJK: u32 = 0x65E5; // 3 bytes
pub const FRAKTUR: u32 = 0x1D518; // 4 bytes
pub const HIGH: u32 = 0xD800; // lone high surrogate: 3 bytes of semi-UTF-8, not UTF-8
pub const LOW: u32 = 0xDC00; // lone low surrogate
pub const REPLACEMENT: u32 = 0xFFFD; // what a lossy conversion would turn a lone surrogate into
pub const LAST_CODE_POINT: u32 = 0x10FFFF;

/// The characters that are not one ASCII byte, one per encoded width, plus the ones no `str` can hold.
pub const WIDE: [u32; 6] = [E_ACUTE, CJK, FRAKTUR, HIGH, LOW, REPLACEMENT];

pub fn cps(s: &str) -> Vec<u32> {
	s.chars().map(|c| c as u32).collect()
}

pub fn push_cp(out: &mut JavaString, cp: u32) {
	match JavaCodePoint::from_u32(cp) {
		Some(c) => out.push_java(c),
		None => vcore::machinery_fail(&format!("{cp:#x} is not a code point")),
	}
}

pub fn jstr(code_points: &[u32]) -> JavaString {
	let mut out = JavaString::with_capacity(code_points.len());
	for cp in code_points {
		push_cp(&mut out, *cp);
	}
	out
}

/// Printable ASCII other than `\` verbatim, every other code point as `\u{hex}`: the form used in replay
/// files and messages (a lone surrogate has no other spelling).
pub fn esc(s: &JavaStr) -> String {
	let mut out = String::with_capacity(s.len());
	for c in s.chars() {
		let v = c.as_u32();
		if (0x20..0x7F).contains(&v) && v != u32::from(b'\\') {
			out.push(v as u8 as char);
		} else {
			out.push_str(&format!("\\u{{{v:x}}}"));
		}
	}
	out
}

pub fn unesc(s: &str) -> Option<JavaString> {
	let mut out = JavaString::new();
	let mut rest = s;
	while let Some(c) = rest.chars().next() {
		if let Some(after) = rest.strip_prefix("\\u{") {
			let (hex, tail) = after.split_once('}')?;
			push_cp(&mut out, u32::from_str_radix(hex, 16).ok().filter(|v| *v <= LAST_CODE_POINT)?);
			rest = tail;
		} else {
			out.push(c);
			rest = &rest[c.len_utf8()..];
		}
	}
	Some(out)
}

/// Descriptor alphabet with wide characters: the structural characters, one primitive, and [`WIDE`].
pub fn wide_desc_alphabet() -> Vec<u32> {
	let mut a = cps("L;[/()VI");
	a.extend(WIDE);
	a
}

/// Name alphabet with wide characters: the name-relevant ASCII characters, two ASCII characters a
/// "sanitising" predicate might think of (`\` and blank), and [`WIDE`]. No `L` and no primitive letter: no array
/// class name can be spelt (the counting argument relies on that).
pub fn wide_name_alphabet() -> Vec<u32> {
	let mut a = cps(".;[/<>$a\\ ");
	a.extend(WIDE);
	a
}

/// A string with one hole.
pub struct Template {
	pub label: &'static str,
	pre: Vec<u32>,
	post: Vec<u32>,
}

impl Template {
	fn new(label: &'static str) -> Template {
		let (pre, post) = label.split_once('?').unwrap_or_else(|| vcore::machinery_fail("template without hole"));
		Template { label, pre: cps(pre), post: cps(post) }
	}
	pub fn fill(&self, cp: u32, out: &mut JavaString) {
		out.clear();
		for c in &self.pre {
			push_cp(out, *c);
		}
		push_cp(out, cp);
		for c in &self.post {
			push_cp(out, *c);
		}
	}
}

/// Contexts in which every code point is tried as part of a descriptor.
pub fn desc_templates(thorough: bool) -> Vec<Template> {
	let mut t: Vec<Template> = ["?", "?I", "I?", "L?;", "[La/?;", "(?)V", "(L?;)V", "()?"].into_iter().map(Template::new).collect();
	if thorough {
		t.extend(["L?", "L;?", "L?a;", "[[L?;", "[?", "(I?)V", "()L?/a;", "(I)?", "()V?", "?()V", "L?/;", "(L?;L?;)L?;"].into_iter().map(Template::new));
	}
	t
}

/// Contexts in which every code point is tried as part of a name.
pub fn name_templates(thorough: bool) -> Vec<Template> {
	let mut t: Vec<Template> = ["?", "a?", "?/a", "a$?"].into_iter().map(Template::new).collect();
	if thorough {
		t.extend(["?a", "a/?", "?$a", "a?a", "[L?;", "[?", "<?>", "<init>?", "?<clinit>"].into_iter().map(Template::new));
	}
	t
}

/// Contexts in which every code point is tried in a class name that is split (and joined back).
pub fn split_templates(thorough: bool) -> Vec<Template> {
	let mut t: Vec<Template> = ["a$?", "?$a", "?a$a$a", "a/?$a"].into_iter().map(Template::new).collect();
	if thorough {
		t.extend(["a?$a", "a$?a", "a$a?", "?/a$a", "a$a/?", "a$?$a"].into_iter().map(Template::new));
	}
	t
}

// ---------------------------------------------------------------------------------------------
// ladders

pub const DIM_BASES: [&str; 8] = ["I", "La;", "L\u{65E5};", "V", "", "a", "L;", "[J"];
pub const DIM_FORMS: [&str; 5] = ["?", "(?)V", "()?", "(I??)I", "??"];

/// `dims` brackets and `DIM_BASES[base]`, placed in `DIM_FORMS[form]`.
pub fn dims_case(dims: usize, base: usize, form: usize) -> JavaString {
	let mut t = String::with_capacity(dims + 8);
	for _ in 0..dims {
		t.push('[');
	}
	t.push_str(DIM_BASES[base]);
	JavaString::from(DIM_FORMS[form].replace('?', &t))
}

pub const PARAM_UNITS: [&str; 5] = ["I", "D", "La;", "[I", "[[L\u{65E5}/b;"];
pub const PARAM_RETURNS: [&str; 3] = ["V", "I", "[La;"];

/// a method descriptor with `n` parameters `PARAM_UNITS[unit]`
pub fn params_case(n: usize, unit: usize, ret: usize) -> JavaString {
	let mut t = String::with_capacity(n * PARAM_UNITS[unit].len() + 8);
	t.push('(');
	for _ in 0..n {
		t.push_str(PARAM_UNITS[unit]);
	}
	t.push(')');
	t.push_str(PARAM_RETURNS[ret]);
	JavaString::from(t)
}

/// The long names: `k` times `a` with the wide character `w` placed last, last but one, or first.
pub const LONG_PLACEMENTS: usize = 3;
pub fn long_name(k: usize, w: u32, placement: usize) -> JavaString {
	let mut out = JavaString::with_capacity(k + 5);
	let a = |out: &mut JavaString, n: usize| {
		for _ in 0..n {
			out.push('a');
		}
	};
	match placement {
		0 => {
			a(&mut out, k);
			push_cp(&mut out, w);
		},
		1 => {
			a(&mut out, k);
			push_cp(&mut out, w);
			out.push('a');
		},
		_ => {
			push_cp(&mut out, w);
			a(&mut out, k);
		},
	}
	out
}

/// Descriptor contexts of a long name `?`: accepted ones and every way of being refused late or early.
pub const LONG_DESC_FORMS: [&str; 16] = ["L?;", "[L?;", "(L?;)V", "()L?;", "(IL?;L?;)[[L?;", "L?", "L?;?", "L?/;", "L?.;", "?", "(?)V", "(L?;)V?", "()?", "(L?;", "(L?;)", "()[L?"];
/// Name contexts of a long name `?`.
pub const LONG_NAME_FORMS: [&str; 8] = ["?", "?/", "?;", "p/?", "[L?;", "?<", "?.?", "[[L?"];

pub fn long_case(form: &str, name: &JavaStr) -> JavaString {
	let mut out = JavaString::with_capacity(form.len() + 3 * name.len());
	for c in form.chars() {
		if c == '?' {
			out.push_java_str(name);
		} else {
			out.push(c);
		}
	}
	out
}

// ---------------------------------------------------------------------------------------------
// class names of the structure sweep

/// Odd but legal class names (JVMS §4.2.1 forbids only `.` `;` `[` and empty parts): names that look like
/// descriptor syntax, wide characters, lone surrogates in both orders, two surrogates spelt one by one, the
/// replacement character, a blank, NUL, `<init>`.
pub fn structure_class_names(thorough: bool) -> Vec<JavaString> {
	let mut out: Vec<JavaString> = ["a", "a/b", "p/A$B", "L"].into_iter().map(JavaString::from).collect();
	out.push(jstr(&[E_ACUTE, u32::from(b'/'), CJK]));
	out.push(jstr(&[u32::from(b'a'), LOW, HIGH, u32::from(b'b')]));
	out.push(jstr(&[FRAKTUR, REPLACEMENT]));
	out.push(jstr(&[HIGH]));
	if thorough {
		out.extend(["java/lang/Object", "(V)", "I", "LL", "<init>", "a$", "$", " ", "a b/c\t", "-", "V/V"].into_iter().map(JavaString::from));
		out.push(jstr(&[0]));
		out.push(jstr(&[HIGH, LOW]));
		out.push(jstr(&[LOW]));
		out.push(jstr(&[u32::from(b'p'), u32::from(b'/'), HIGH, u32::from(b'$'), LOW]));
		out.push(jstr(&[LAST_CODE_POINT, u32::from(b'/'), 0x7F, 0x80, 0x7FF, 0x800, 0xFFFF, 0x10000]));
	}
	out
}
