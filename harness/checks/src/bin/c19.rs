//! C19 — Maven dependency resolution follows nearest-wins mediation and scope rules.
//!
//! Engine: exhaustive, deviation-bounded enumeration of POM universes (artifacts a<b<c<d × versions
//! {1,2}, dependencies only to later artifacts). Every universe is rendered to POM XML, served from memory
//! through the crate's `Downloader` trait (the XML is bound to `MavenPom` with serde-xml-rs exactly as the
//! application does) and resolved by the real `get_maven_dependencies`; the answer is compared with a
//! reference resolver written from the statement and the Maven documentation (`c19/oracle.rs`).
//!
//! Clauses of the statement and where they are decided:
//!
//! | clause | space | oracle |
//! |---|---|---|
//! | effective POM: group, version, dependencies, management from parents and BOMs | management layouts (14), parent modes (8), groupId/version from parent; chains of 1..=130 (T: 400) parents / nested imports (`deep`) ; parents and BOMs in another group than their child (`names`) | reference effective model |
//! | managed version and scope fill in omitted ones, nothing else | version given/omitted × scope given/omitted × entry in own/parent/BOM/…; an entry that differs from the dependency in group, classifier or type only and stands first (decoy entry); implied classifier of test-jar written on either side | `oracle::complete` |
//! | optional and non-transitive scopes cut; scope table | 5×5 cells (floor per cell), roots of every scope | `oracle::compose` |
//! | nearest wins, declaration order breaks ties, losers' subtrees discarded; identity = group, artifact, classifier, type | every graph with ≤2 (W4: 3) ordered dependencies per POM; root lists of 1–3 roots, also naming one artifact twice (RD3); an artifact below another version of itself (V3); one artifactId in two groups, names that concatenate alike (`names`); rivals at equal and neighbouring depths up to 130 (T: 400) (`deep`) | breadth-first reference with a winner map |
//! | breadth-first order without duplicates | all of the above; lists of up to 2·130 entries | list equality |
//! | several repositories serving different artifacts | three repositories: first / second only / third only / decoys in a later one / parents and BOMs elsewhere; urls with and without trailing slash, ending in a multi-byte character; timestamped snapshot versions stored under their base version, near misses of the pattern | reference layout `model::pom_url` |
//! | coordinates and resolved dependencies survive printing and re-parsing | every value the resolver returns; products of plain values; texts with a 2/3/4-byte character at the first/middle/last position of every field; fields of 0..=140 ASCII characters + one character of 1/2/3/4 bytes | equality after the round trip; every prefix of a printed form parsed without panic |
//! | (environment) | repositories that answer `Pending` 1 or 3 times before every answer | same list as with ready answers |
//! | (outside the domain: only "no panic, no hang") | a POM missing, a dependency without version, another modelVersion, a parent without pom packaging, a repository failing for one file — at every place of every F3 universe with ≤1 deviation under names with a multi-byte character in every field, and of the long-name universe for every length | `vcore::guard` |
//!
//! Spaces (bounds are in the evidence): plans = family × number of deviations × alphabet rank × mode
//! (as generated / every naming / waiting repositories / spoiled); `deep_sweep` (6 shapes × variants × every size);
//! `long_sweep` (4 fields × 141 lengths × 4 last characters, resolved and spoiled); `missing_sweep`; two round-trip sweeps.

#[path = "c19/model.rs"]
mod model;
#[path = "c19/oracle.rs"]
mod oracle;
#[path = "c19/gen.rs"]
mod gen;
#[path = "c19/extra.rs"]
mod extra;

use std::collections::BTreeMap;
use std::future::Future;
use std::str::FromStr;
use std::task::{Context, Poll, RawWaker, RawWakerVTable, Waker};
use maven_dependency_resolver::coord::MavenCoord;
use maven_dependency_resolver::maven_pom::MavenPom;
use maven_dependency_resolver::resolver::Resolver;
use maven_dependency_resolver::{get_maven_dependencies, DependencyScope, Downloader, FoundDependency};
use rayon::prelude::*;
use vcore::{json, Ctx, Stats, Value};
use gen::{Base, Dev};
use model::{Naming, Sc, Universe, SCOPES};
use oracle::{Fail, Facts, Found, Sem};

// ---------------------------------------------------------------------------------------------
// driving the real code

/// Drives a future of the resolver. The in-memory downloader answers at once unless it is told to answer
/// `Pending` first (`may_wait`); then the future is polled again until it is ready.
fn block_on<F: Future>(f: F, may_wait: bool) -> F::Output {
	fn raw() -> RawWaker {
		fn clone(_: *const ()) -> RawWaker {
			raw()
		}
		fn noop(_: *const ()) {}
		static VT: RawWakerVTable = RawWakerVTable::new(clone, noop, noop, noop);
		RawWaker::new(std::ptr::null(), &VT)
	}
	// SAFETY: the vtable functions do nothing and the data pointer is never dereferenced
	let waker = unsafe { Waker::from_raw(raw()) };
	let mut cx = Context::from_waker(&waker);
	let mut f = std::pin::pin!(f);
	let mut polls = 0u64;
	loop {
		match f.as_mut().poll(&mut cx) {
			Poll::Ready(v) => return v,
			Poll::Pending if may_wait && polls < 50_000_000 => polls += 1,
			Poll::Pending if may_wait => vcore::machinery_fail("a future of the resolver is still Pending after 50 million polls"),
			Poll::Pending => vcore::machinery_fail("a future of the resolver returned Pending although the downloader is always ready"),
		}
	}
}

/// How the repositories answer (the environment of the resolver).
#[derive(Clone, Debug, Default, PartialEq, Eq)]
struct Env {
	/// every request is `Pending` that many times before it is answered
	pending: u32,
	/// requests for this url fail (a broken connection)
	fail_url: Option<String>,
}

/// the answer of the downloader: `Pending` (waking itself) a number of times, then the result
struct Answer {
	left: u32,
	result: Option<anyhow::Result<Option<MavenPom>>>,
}

impl Future for Answer {
	type Output = anyhow::Result<Option<MavenPom>>;
	fn poll(self: std::pin::Pin<&mut Self>, cx: &mut Context<'_>) -> Poll<Self::Output> {
		let me = self.get_mut();
		if me.left > 0 {
			me.left -= 1;
			cx.waker().wake_by_ref();
			return Poll::Pending;
		}
		match me.result.take() {
			Some(r) => Poll::Ready(r),
			None => vcore::machinery_fail("the resolver polled an answer of the downloader after it was ready"),
		}
	}
}

/// The repositories: url → POM text. Every request binds the text to `MavenPom` with serde-xml-rs.
struct Mem {
	files: BTreeMap<String, String>,
	env: Env,
}

impl Downloader for Mem {
	#[allow(clippy::manual_async_fn)]
	fn get_maven_pom(&self, url: &str) -> impl Future<Output = anyhow::Result<Option<MavenPom>>> + Send {
		let r: anyhow::Result<Option<MavenPom>> = if self.env.fail_url.as_deref() == Some(url) {
			Err(anyhow::anyhow!("connection to {url} reset"))
		} else {
			match self.files.get(url) {
				None => Ok(None),
				Some(xml) => serde_xml_rs::from_str::<MavenPom>(xml).map(Some).map_err(|e| anyhow::anyhow!("maven pom at {url}: {e}")),
			}
		};
		Answer { left: self.env.pending, result: Some(r) }
	}
}

fn real_scope(s: Sc) -> DependencyScope {
	match s {
		Sc::Compile => DependencyScope::Compile,
		Sc::Runtime => DependencyScope::Runtime,
		Sc::Provided => DependencyScope::Provided,
		Sc::Test => DependencyScope::Test,
		Sc::System => DependencyScope::System,
	}
}

fn model_scope(s: DependencyScope) -> Sc {
	match s {
		DependencyScope::Compile => Sc::Compile,
		DependencyScope::Runtime => Sc::Runtime,
		DependencyScope::Provided => Sc::Provided,
		DependencyScope::Test => Sc::Test,
		DependencyScope::System => Sc::System,
	}
}

#[derive(Debug)]
struct RealOut {
	list: Vec<Found>,
	foreign_group: bool,
	/// Display forms of everything returned, for the round trips
	roundtrip_failures: Vec<(&'static str, String)>,
	roundtrips: u64,
}

fn roundtrip_found(f: &FoundDependency<'_>, fails: &mut Vec<(&'static str, String)>) -> u64 {
	let text = f.to_string();
	match FoundDependency::try_from(text.as_str()) {
		Ok(back) => {
			if back.coord != f.coord || back.scope != f.scope || back.resolver.maven != f.resolver.maven {
				fails.push(("roundtrip:found-dependency", format!("{text:?} parsed back as {back:?}")));
			} else if back.to_string() != text {
				fails.push(("roundtrip:found-dependency", format!("{text:?} printed again as {:?}", back.to_string())));
			}
		},
		Err(e) => fails.push(("roundtrip:found-dependency", format!("{text:?} is not parsed back: {e:#}"))),
	}
	let ctext = f.coord.to_string();
	match MavenCoord::from_str(&ctext) {
		Ok(back) if back == f.coord => {},
		Ok(back) => fails.push(("roundtrip:coord", format!("{ctext:?} parsed back as {back:?}"))),
		Err(e) => fails.push(("roundtrip:coord", format!("{ctext:?} is not parsed back: {e:#}"))),
	}
	let stext = f.scope.to_string();
	match DependencyScope::from_str(&stext) {
		Ok(back) if back == f.scope => {},
		other => fails.push(("roundtrip:scope", format!("{stext:?} parsed back as {other:?}"))),
	}
	3
}

fn run_real(u: &Universe, env: &Env) -> Result<Result<RealOut, String>, vcore::Panic> {
	let mem = Mem { files: u.served(), env: env.clone() };
	let resolvers: Vec<Resolver> = u.repos.iter().map(|(n, url)| Resolver::new(n, url)).collect();
	let roots: Vec<(MavenCoord, DependencyScope)> = u.roots.iter().map(|r| (MavenCoord {
		group: r.group.clone(),
		artifact: r.artifact.clone(),
		version: r.version.clone(),
		classifier: r.classifier.clone(),
		type_: r.type_.clone(),
	}, real_scope(r.scope))).collect();
	let groups: std::collections::BTreeSet<&str> = u.files.iter().map(|(_, p)| p.group.as_str()).chain(u.roots.iter().map(|r| r.group.as_str())).collect();
	vcore::guard(|| {
		let r = block_on(get_maven_dependencies(&mem, &resolvers, &roots), env.pending > 0);
		match r {
			Err(e) => Err(format!("{e:#}")),
			Ok(v) => {
				let mut out = RealOut { list: Vec::new(), foreign_group: false, roundtrip_failures: Vec::new(), roundtrips: 0 };
				for f in &v {
					out.roundtrips += roundtrip_found(f, &mut out.roundtrip_failures);
					if !groups.contains(f.coord.group.as_str()) {
						out.foreign_group = true;
					}
					out.list.push(Found {
						group: f.coord.group.clone(),
						artifact: f.coord.artifact.clone(),
						version: f.coord.version.clone(),
						classifier: f.coord.classifier.clone(),
						type_: f.coord.type_.clone(),
						scope: model_scope(f.scope),
						repo_name: f.resolver.name.to_string(),
						repo_url: f.resolver.maven.to_string(),
					});
				}
				Ok(out)
			},
		}
	})
}

// ---------------------------------------------------------------------------------------------
// accumulators

#[derive(Default, Clone)]
struct Acc {
	st: Stats,
	cases_with_nearer: u64,
	cases_with_tie: u64,
	cases_with_discarded_contribution: u64,
	cells: [[u64; 5]; 5],
	optional_cuts: u64,
	version_fills: [u64; 3],
	scope_fills: [u64; 3],
	second_repo_results: u64,
	third_repo_results: u64,
	classifier_or_type_results: u64,
	implied_classifier_results: u64,
	lost_to_own_ancestor: u64,
	roundtrips: u64,
	invalid_combinations: u64,
	max_result_len: u64,
	max_depth: u64,
	/// resolutions in which the repositories answered Pending first
	waited: u64,
	/// inputs outside the domain (spoiled universes) the resolver was run on
	refusal_cases: u64,
}

impl Acc {
	fn new() -> Acc {
		Acc::default()
	}
	fn facts(&mut self, f: &Facts, len: usize) {
		self.cases_with_nearer += (f.nearer_won > 0) as u64;
		self.cases_with_tie += (f.ties > 0) as u64;
		self.cases_with_discarded_contribution += f.discarded_contribution as u64;
		for i in 0..5 {
			for j in 0..5 {
				self.cells[i][j] += f.cells[i][j] as u64;
			}
		}
		self.optional_cuts += f.optional_cuts as u64;
		for i in 0..3 {
			self.version_fills[i] += f.version_fills[i] as u64;
			self.scope_fills[i] += f.scope_fills[i] as u64;
		}
		self.second_repo_results += f.second_repo_results as u64;
		self.third_repo_results += f.third_repo_results as u64;
		self.classifier_or_type_results += f.classifier_or_type_results as u64;
		self.implied_classifier_results += f.implied_classifier_results as u64;
		self.lost_to_own_ancestor += f.lost_to_own_ancestor as u64;
		self.max_result_len = self.max_result_len.max(len as u64);
		self.max_depth = self.max_depth.max(f.max_depth as u64);
	}
	fn merge(mut self, o: Acc) -> Acc {
		self.st = self.st.merge(o.st);
		self.cases_with_nearer += o.cases_with_nearer;
		self.cases_with_tie += o.cases_with_tie;
		self.cases_with_discarded_contribution += o.cases_with_discarded_contribution;
		for i in 0..5 {
			for j in 0..5 {
				self.cells[i][j] += o.cells[i][j];
			}
		}
		self.optional_cuts += o.optional_cuts;
		for i in 0..3 {
			self.version_fills[i] += o.version_fills[i];
			self.scope_fills[i] += o.scope_fills[i];
		}
		self.second_repo_results += o.second_repo_results;
		self.third_repo_results += o.third_repo_results;
		self.classifier_or_type_results += o.classifier_or_type_results;
		self.implied_classifier_results += o.implied_classifier_results;
		self.lost_to_own_ancestor += o.lost_to_own_ancestor;
		self.roundtrips += o.roundtrips;
		self.invalid_combinations += o.invalid_combinations;
		self.max_result_len = self.max_result_len.max(o.max_result_len);
		self.max_depth = self.max_depth.max(o.max_depth);
		self.waited += o.waited;
		self.refusal_cases += o.refusal_cases;
		self
	}
}

// ---------------------------------------------------------------------------------------------
// one case

const TOLERANCES: [Sem; 4] = [
	Sem { inherited_first: false, system_as_provided: false, parent_context: false },
	Sem { inherited_first: true, system_as_provided: false, parent_context: false },
	Sem { inherited_first: false, system_as_provided: true, parent_context: false },
	Sem { inherited_first: true, system_as_provided: true, parent_context: false },
];

fn show_list(l: &[Found]) -> String {
	if l.is_empty() {
		return "  (nothing)\n".to_owned();
	}
	l.iter().map(|f| format!("  {}\n", f.show())).collect()
}

/// classifies how two lists differ (the kind of the difference, no names)
fn difference_kind(expected: &[Found], actual: &[Found]) -> &'static str {
	let id = |f: &Found| (f.group.clone(), f.artifact.clone(), f.classifier.clone(), f.type_.clone());
	let mut e_ids: Vec<_> = expected.iter().map(id).collect();
	let mut a_ids: Vec<_> = actual.iter().map(id).collect();
	let mut a_sorted = a_ids.clone();
	a_sorted.sort();
	if a_sorted.windows(2).any(|w| w[0] == w[1]) {
		return "duplicate-artifact-in-result";
	}
	if a_ids == e_ids {
		// same artifacts in the same order
		if expected.iter().zip(actual).any(|(e, a)| e.version != a.version) {
			return "wrong-version-selected";
		}
		if expected.iter().zip(actual).any(|(e, a)| e.scope != a.scope) {
			return "wrong-scope";
		}
		return "wrong-repository";
	}
	e_ids.sort();
	a_ids.sort();
	if e_ids == a_ids {
		return "order-not-breadth-first";
	}
	if a_ids.iter().any(|a| !e_ids.contains(a)) {
		if e_ids.iter().any(|e| !a_ids.contains(e)) {
			return "different-artifacts";
		}
		return "extra-artifact";
	}
	"missing-artifact"
}

struct CaseId<'a> {
	family: &'a str,
	base_idx: usize,
	base: &'a Base,
	all: &'a [Dev],
	idxs: &'a [usize],
}

/// What is done to a generated universe before it is resolved; every part is one line of the replay file.
#[derive(Clone, Debug, Default)]
struct Extra {
	/// `alphabet/<artifacts>/<index>`, `all-fields/<index>`, `long/<field>/<length>/<last character>`
	naming: Option<String>,
	pending: u32,
	/// (manner, index), see `extra::SPOILS`; manner 4 = the repository fails for the k-th file
	spoil: Option<(usize, usize)>,
}

impl Extra {
	fn lines(&self) -> String {
		let mut s = String::new();
		if let Some(n) = &self.naming {
			s.push_str(&format!("naming={n}\n"));
		}
		if self.pending > 0 {
			s.push_str(&format!("env=pending/{}\n", self.pending));
		}
		if let Some((how, k)) = self.spoil {
			s.push_str(&format!("spoil={how}/{k}\n"));
		}
		s
	}
}

fn naming_by_id(id: &str) -> Naming {
	let parts: Vec<&str> = id.split('/').collect();
	let num = |i: usize| -> usize { parts.get(i).and_then(|s| s.parse().ok()).unwrap_or_else(|| vcore::machinery_fail(&format!("bad naming id {id:?}"))) };
	let pick = |v: Vec<Naming>, i: usize| v.into_iter().nth(i).unwrap_or_else(|| vcore::machinery_fail(&format!("naming index out of range in {id:?}")));
	match parts[0] {
		"alphabet" => pick(extra::namings(num(1)), num(2)),
		"all-fields" => pick(extra::namings_all_fields(), num(1)),
		"long" if num(1) < extra::LONG_FIELDS.len() && num(3) < extra::LONG_LAST.len() => extra::long_naming(num(1), num(2), num(3)),
		_ => vcore::machinery_fail(&format!("bad naming id {id:?}")),
	}
}

impl CaseId<'_> {
	fn id(&self) -> String {
		format!("{}/{}/{}", self.family, self.base_idx, self.idxs.iter().map(|i| i.to_string()).collect::<Vec<_>>().join("."))
	}
	fn describe(&self, u: &Universe, extra: &Extra) -> String {
		let mut s = format!("case={}\n{}base: {}\ndeviations:\n", self.id(), extra.lines(), self.base.show());
		for i in self.idxs {
			s.push_str(&format!("  {}\n", gen::describe_dev(self.base, &self.all[*i])));
		}
		s.push_str(&u.describe());
		s
	}
}

fn run_case(ctx: &Ctx, acc: &mut Acc, c: &CaseId) {
	let devs: Vec<Dev> = c.idxs.iter().map(|i| c.all[*i]).collect();
	let Some(u) = gen::build(c.base, &devs) else {
		acc.invalid_combinations += 1;
		return;
	};
	let extra = Extra::default();
	judge(ctx, acc, &u, &|| c.describe(&u, &extra), c.idxs.len(), &Env::default());
}

/// One universe of the statement's domain: the resolver's answer is compared with the reference.
fn judge(ctx: &Ctx, acc: &mut Acc, u: &Universe, describe: &dyn Fn() -> String, level: usize, env: &Env) {
	let primary = match oracle::resolve(u, TOLERANCES[0]) {
		Ok(r) => r,
		Err(e) => vcore::machinery_fail(&format!("the generator produced a universe the reference cannot resolve ({e:?}):\n{}", describe())),
	};
	acc.st.eval();
	acc.facts(&primary.facts, primary.list.len());
	let f = &primary.facts;
	let fills: u32 = f.version_fills.iter().sum::<u32>() + f.scope_fills.iter().sum::<u32>();
	let cuts: u32 = f.optional_cuts + (0..5).map(|i| f.cells[i][2] + f.cells[i][3] + f.cells[i][4]).sum::<u32>();
	let nontrivial = f.nearer_won + f.ties + f.duplicates + fills + cuts > 0;
	if nontrivial {
		acc.st.distinct.add(u);
	}
	let class = if f.nearer_won + f.ties > 0 {
		"version-conflict-mediated"
	} else if f.duplicates > 0 {
		"duplicate-dropped"
	} else if cuts > 0 {
		"cut-only"
	} else if fills > 0 {
		"management-only"
	} else {
		"plain"
	};
	let with_text = |extra: String| format!("{}expected (reference):\n{}{}", describe(), show_list(&primary.list), extra);

	if env.pending > 0 {
		acc.waited += 1;
	}
	let real = match run_real(u, env) {
		Err(p) => {
			acc.st.outcome("panic");
			ctx.diff(&format!("panic@{}", p.file()), &format!("resolver panicked at {}: {}", p.site, p.msg), || with_text(String::new()));
			return;
		},
		Ok(r) => r,
	};
	let empty_element = u.files.iter().any(|(_, p)| matches!(p.render, model::Render::EmptyDeps | model::Render::EmptyDmDeps));
	match real {
		Err(msg) => {
			// every generated universe is valid: a refusal is a difference
			let deviant_refuses = TOLERANCES.iter().any(|t| matches!(oracle::resolve(u, Sem { parent_context: true, ..*t }), Err(Fail::NoVersion(_))));
			let key = if empty_element && msg.contains("missing field `dependency`") {
				"xml:empty-dependencies-element-refused"
			} else if deviant_refuses && msg.contains("no dependency found matching") {
				"inherit:child-management-not-applied-to-inherited-dependency"
			} else {
				"resolve:valid-universe-refused"
			};
			acc.st.outcome(&format!("refused:{key}"));
			ctx.diff(key, &format!("a valid universe was refused: {msg}"), || with_text(format!("actual: error: {msg}\n")));
		},
		Ok(out) => {
			acc.roundtrips += out.roundtrips;
			for (key, what) in &out.roundtrip_failures {
				ctx.diff(key, what, || with_text(String::new()));
			}
			if out.foreign_group {
				ctx.diff("resolve:foreign-group", "a result carries a group that occurs nowhere in the universe", || with_text(format!("actual:\n{}", show_list(&out.list))));
			}
			let mut accepted = None;
			if out.list == primary.list {
				accepted = Some(0);
			} else {
				for (i, t) in TOLERANCES.iter().enumerate().skip(1) {
					if oracle::resolve(u, *t).map(|r| r.list == out.list).unwrap_or(false) {
						accepted = Some(i);
						break;
					}
				}
			}
			match accepted {
				Some(0) => {
					acc.st.outcome(&format!("agree:{class}"));
					let tag = format!("{class}/{level}");
					// (the long chains would make samples of hundreds of files)
					let small = u.files.len() <= 24;
					acc.st.sample(&if small { tag } else { "large".to_owned() }, || if !small { json!({"kind": "universe", "class": class, "files": u.files.len(), "resolved": out.list.len()}) } else { json!({
						"kind": "universe",
						"class": class,
						"deviations": level,
						"roots": u.roots.iter().map(|r| format!("{} ({})", model::show_coord(&r.group, &r.artifact, &r.type_, r.classifier.as_deref(), &r.version), r.scope.name())).collect::<Vec<_>>(),
						"files": u.served(),
						"resolved": out.list.iter().map(Found::show).collect::<Vec<_>>(),
					}) });
				},
				Some(i) => {
					let t = TOLERANCES[i];
					acc.st.outcome(&format!("agree-within-tolerance:{}{}", if t.inherited_first { "inherited-dependencies-first;" } else { "" }, if t.system_as_provided { "below-system-reported-as-provided;" } else { "" }));
				},
				None => {
					let deviant = TOLERANCES.iter().any(|t| oracle::resolve(u, Sem { parent_context: true, ..*t }).map(|r| r.list == out.list).unwrap_or(false));
					let kind = difference_kind(&primary.list, &out.list);
					let key = if deviant { "inherit:child-management-not-applied-to-inherited-dependency".to_owned() } else { format!("resolve:{kind}") };
					acc.st.outcome(&format!("differ:{key}"));
					ctx.diff(&key, &format!("resolved list differs from the documented rules ({kind})"), || with_text(format!("actual:\n{}", show_list(&out.list))));
				},
			}
		},
	}
}

// ---------------------------------------------------------------------------------------------
// families, levels

fn family_bases(name: &str) -> Vec<Base> {
	let lists = |n: usize, lens: std::ops::RangeInclusive<usize>| -> Vec<Base> {
		gen::root_lists(n, *lens.end()).into_iter().filter(|l| lens.contains(&l.len())).flat_map(|l| gen::bases(n, &l)).collect()
	};
	match name {
		// one root a:1, every graph over four artifacts
		"F4" => gen::bases(4, &[(0, 1)]),
		// one root a:1, every graph over three artifacts
		"F3" => gen::bases(3, &[(0, 1)]),
		// every root list of one or two roots, every graph over three artifacts
		"R3" => lists(3, 1..=2),
		// every root list of three roots over three artifacts
		"R3x3" => lists(3, 3..=3),
		// every root list of exactly two roots over four artifacts
		"R4x2" => lists(4, 2..=2),
		// every list of two roots that names one artifact twice (equal or rival versions), every graph over three artifacts
		"RD3" => gen::root_lists_dup(3, 2).into_iter().flat_map(|l| gen::bases(3, &l)).collect(),
		// every list of three roots in which an artifact occurs more than once
		"RD3x3" => gen::root_lists_dup(3, 3).into_iter().flat_map(|l| gen::bases(3, &l)).collect(),
		// POMs ordered a1<b1<c1<a2<b2<c2, dependencies on later POMs of other artifacts: an artifact may hang below
		// another version of itself; every single root
		"V3" => gen::root_lists(3, 1).into_iter().flat_map(|l| gen::bases_with(3, &l, true, 2)).collect(),
		// the same with every list of two roots
		"V3x2" => gen::root_lists(3, 2).into_iter().filter(|l| l.len() == 2).flat_map(|l| gen::bases_with(3, &l, true, 2)).collect(),
		// one root a:1 over four artifacts, up to three ordered dependencies per POM
		"W4" => gen::bases_with(4, &[(0, 1)], false, 3).into_iter().filter(|b| b.deps.iter().any(|d| d.len() == 3)).collect(),
		_ => vcore::machinery_fail(&format!("unknown family {name:?}")),
	}
}

#[derive(Clone, Copy, Debug, PartialEq, Eq)]
enum Mode {
	/// the universe as generated
	Plain,
	/// under every naming of the alphabet
	Names,
	/// with repositories that answer Pending once / three times before every answer
	Waiting,
	/// under the namings that put a multi-byte character into every field, spoiled in every manner: no panic, no hang
	Refusals,
}

impl Mode {
	fn name(self) -> &'static str {
		match self {
			Mode::Plain => "as generated",
			Mode::Names => "every naming of the alphabet",
			Mode::Waiting => "repositories answer Pending 1 and 3 times first",
			Mode::Refusals => "every spoiled variant under the every-field namings (no panic, no hang)",
		}
	}
}

struct Plan {
	family: &'static str,
	level: usize,
	max_rank: u8,
	mode: Mode,
}

fn plans(tier: vcore::Tier) -> Vec<Plan> {
	let p = |family: &'static str, level: usize, max_rank: u8, mode: Mode| Plan { family, level, max_rank, mode };
	let mut v = vec![
		p("F4", 0, 0, Mode::Plain),
		p("R3", 0, 0, Mode::Plain),
		p("R3x3", 0, 0, Mode::Plain),
		p("R4x2", 0, 0, Mode::Plain),
		p("F4", 1, 2, Mode::Plain),
		p("R3", 1, 0, Mode::Plain),
		p("F3", 2, 2, Mode::Plain),
		// root lists that name an artifact twice; an artifact below another version of itself; three dependencies per POM
		p("RD3", 0, 0, Mode::Plain),
		p("RD3x3", 0, 0, Mode::Plain),
		p("RD3", 1, 0, Mode::Plain),
		p("V3", 0, 0, Mode::Plain),
		p("V3", 1, 0, Mode::Plain),
		p("W4", 0, 0, Mode::Plain),
		// names
		p("R3", 0, 0, Mode::Names),
		p("F3", 1, 2, Mode::Names),
		// environment
		p("R3", 0, 0, Mode::Waiting),
		p("F3", 1, 2, Mode::Waiting),
		// outside the domain
		p("F3", 0, 0, Mode::Refusals),
		p("F3", 1, 0, Mode::Refusals),
	];
	if tier == vcore::Tier::Thorough {
		v.extend([
			p("R3", 1, 2, Mode::Plain),
			p("R4x2", 1, 0, Mode::Plain),
			p("F4", 2, 0, Mode::Plain),
			p("R3", 2, 0, Mode::Plain),
			p("F3", 3, 0, Mode::Plain),
			p("RD3", 1, 2, Mode::Plain),
			p("RD3x3", 1, 0, Mode::Plain),
			p("V3", 1, 2, Mode::Plain),
			p("V3x2", 0, 0, Mode::Plain),
			// (V3 with two deviations is not run: its nested parallel sweeps pile up on one worker's stack — rayon runs stolen
			// jobs on the waiting thread — and the process dies of a stack overflow in the harness, not in the code under test)
			p("W4", 1, 0, Mode::Plain),
			p("V3", 0, 0, Mode::Names),
			p("RD3", 0, 0, Mode::Names),
			p("R3", 1, 0, Mode::Names),
			p("F3", 2, 0, Mode::Names),
			p("F4", 1, 0, Mode::Waiting),
			p("F3", 1, 2, Mode::Refusals),
		]);
	}
	v
}

/// every k-subset (increasing indices) of the deviations of rank ≤ max_rank that starts with `first`
fn for_each_combo(all: &[Dev], max_rank: u8, level: usize, first: Option<usize>, f: &mut dyn FnMut(&[usize])) {
	let Some(first) = first else {
		f(&[]);
		return;
	};
	fn rec(all: &[Dev], max_rank: u8, left: usize, cur: &mut Vec<usize>, f: &mut dyn FnMut(&[usize])) {
		if left == 0 {
			f(cur);
			return;
		}
		let start = cur.last().map(|l| l + 1).unwrap_or(0);
		for i in start..all.len() {
			if all[i].rank > max_rank {
				continue;
			}
			// two values of one attribute of one site are never combined
			if cur.iter().any(|c| all[*c].site == all[i].site && all[*c].attr == all[i].attr) {
				continue;
			}
			cur.push(i);
			rec(all, max_rank, left - 1, cur, f);
			cur.pop();
		}
	}
	let mut cur = vec![first];
	rec(all, max_rank, level - 1, &mut cur, f);
}

/// the resolver on an input outside the statement's domain: whatever it answers, it must not panic (or hang)
fn run_refusal(ctx: &Ctx, acc: &mut Acc, u: &Universe, env: &Env, manner: &str, describe: &dyn Fn() -> String) {
	acc.st.eval();
	acc.refusal_cases += 1;
	match run_real(u, env) {
		Err(p) => ctx.diff(&format!("outside-domain:panic@{}", p.file()), &format!("resolver panicked at {}: {}", p.site, p.msg), describe),
		Ok(Err(_)) => acc.st.outcome(&format!("outside-domain:{manner}:refused")),
		Ok(Ok(_)) => acc.st.outcome(&format!("outside-domain:{manner}:answered")),
	}
}

const SPOIL_FAILING_REPOSITORY: usize = 4;

fn spoil_name(how: usize) -> &'static str {
	if how == SPOIL_FAILING_REPOSITORY { "a-repository-fails-for-one-file" } else { extra::SPOILS[how] }
}

/// every spoiled variant of the universe
fn run_spoils(ctx: &Ctx, acc: &mut Acc, u: &Universe, describe: &dyn Fn(&Universe, (usize, usize)) -> String) {
	for how in 0..extra::SPOILS.len() {
		for k in 0.. {
			let Some(v) = extra::spoil(u, how, k) else { break };
			run_refusal(ctx, acc, &v, &Env::default(), spoil_name(how), &|| describe(&v, (how, k)));
		}
	}
	for (k, url) in u.served().into_keys().enumerate() {
		run_refusal(ctx, acc, u, &Env { pending: 0, fail_url: Some(url) }, spoil_name(SPOIL_FAILING_REPOSITORY), &|| describe(u, (SPOIL_FAILING_REPOSITORY, k)));
	}
}

fn run_case_mode(ctx: &Ctx, acc: &mut Acc, c: &CaseId, mode: Mode, namings: &[Naming], every_field: &[Naming]) {
	if mode == Mode::Plain {
		return run_case(ctx, acc, c);
	}
	let devs: Vec<Dev> = c.idxs.iter().map(|i| c.all[*i]).collect();
	let Some(u) = gen::build(c.base, &devs) else {
		acc.invalid_combinations += 1;
		return;
	};
	match mode {
		Mode::Plain => {},
		Mode::Names => {
			for (i, nm) in namings.iter().enumerate() {
				let v = nm.apply(&u);
				let extra = Extra { naming: Some(format!("alphabet/{}/{i}", c.base.n)), ..Extra::default() };
				judge(ctx, acc, &v, &|| c.describe(&v, &extra), c.idxs.len(), &Env::default());
			}
		},
		Mode::Waiting => {
			for pending in [1, 3] {
				let extra = Extra { pending, ..Extra::default() };
				judge(ctx, acc, &u, &|| c.describe(&u, &extra), c.idxs.len(), &Env { pending, fail_url: None });
			}
		},
		Mode::Refusals => {
			for (i, nm) in every_field.iter().enumerate() {
				let v = nm.apply(&u);
				run_spoils(ctx, acc, &v, &|w, spoil| c.describe(w, &Extra { naming: Some(format!("all-fields/{i}")), pending: 0, spoil: Some(spoil) }));
			}
		},
	}
}

fn run_plan(ctx: &'static Ctx, plan: &Plan) -> (Acc, u64) {
	let bases = family_bases(plan.family);
	let namings = extra::namings(bases.first().map(|b| b.n).unwrap_or(3));
	let every_field = extra::namings_all_fields();
	let devs: Vec<Vec<Dev>> = bases.iter().map(gen::all_devs).collect();
	let mut items: Vec<(usize, Option<usize>)> = Vec::new();
	for (bi, d) in devs.iter().enumerate() {
		if plan.level == 0 {
			items.push((bi, None));
		} else {
			for (i, dev) in d.iter().enumerate() {
				if dev.rank <= plan.max_rank {
					items.push((bi, Some(i)));
				}
			}
		}
	}
	let n_bases = bases.len() as u64;
	let acc = items.into_par_iter().fold(Acc::new, |mut acc, (bi, first)| {
		vcore::watched(|| format!("case={}/{}/{:?} (level {})", plan.family, bi, first, plan.level), || {
			for_each_combo(&devs[bi], plan.max_rank, plan.level, first, &mut |idxs| {
				run_case_mode(ctx, &mut acc, &CaseId { family: plan.family, base_idx: bi, base: &bases[bi], all: &devs[bi], idxs }, plan.mode, &namings, &every_field);
			});
		});
		acc
	}).reduce(Acc::new, Acc::merge);
	(acc, n_bases)
}

// ---------------------------------------------------------------------------------------------
// outside the statement's domain: a POM that no repository serves. Only "no panic, no hang" is asked.

fn run_missing(ctx: &Ctx, acc: &mut Acc, family: &str, bi: usize, base: &Base, k: usize) {
	let Some(mut u) = gen::build(base, &[]) else { return };
	if k >= u.files.len() {
		return;
	}
	let gone = u.files.remove(k);
	acc.st.eval();
	match run_real(&u, &Env::default()) {
		Err(p) => ctx.diff(&format!("missing-pom:panic@{}", p.file()), &format!("resolver panicked at {}: {}", p.site, p.msg), || format!("case={family}/{bi}/\nmissing={k}\nremoved file: {}:{}\nbase: {}\n{}", gone.1.artifact, gone.1.version, base.show(), u.describe())),
		Ok(Err(_)) => acc.st.outcome("missing-pom:refused"),
		Ok(Ok(_)) => acc.st.outcome("missing-pom:not-needed-or-ignored"),
	}
}

fn missing_sweep(ctx: &'static Ctx, family: &'static str) -> Acc {
	let bases = family_bases(family);
	(0..bases.len()).into_par_iter().fold(Acc::new, |mut acc, bi| {
		vcore::watched(|| format!("case={family}/{bi}/ missing=*"), || {
			for k in 0..bases[bi].n * 2 {
				run_missing(ctx, &mut acc, family, bi, &bases[bi], k);
			}
		});
		acc
	}).reduce(Acc::new, Acc::merge)
}

// ---------------------------------------------------------------------------------------------
// round trips over a product of field values

fn roundtrip_sweep(ctx: &Ctx) -> (u64, u64) {
	let groups = ["o.g", "g", "org.example.deep"];
	let artifacts = ["a", "a-b", "a_b.c"];
	let versions = ["1", "1.0", "1.0-SNAPSHOT", "2.0.1-20230713.025619-1", "v"];
	let classifiers = [None, Some("k"), Some("sources"), Some("natives-linux")];
	let types = ["jar", "ejb", "pom", "test-jar", "zip"];
	let urls = ["mem://one.invalid/repo", "https://two.invalid:8080/maven/"];
	let mut n = 0u64;
	let mut values = 0u64;
	for g in groups {
		for a in artifacts {
			for v in versions {
				for c in classifiers {
					for t in types {
						let coord = MavenCoord { group: g.to_owned(), artifact: a.to_owned(), version: v.to_owned(), classifier: c.map(str::to_owned), type_: t.to_owned() };
						for s in SCOPES {
							for url in urls {
								let f = FoundDependency { resolver: Resolver::new("name", url), coord: coord.clone(), scope: real_scope(s) };
								let mut fails = Vec::new();
								match vcore::guard(|| roundtrip_found(&f, &mut fails)) {
									Ok(k) => n += k,
									Err(p) => ctx.diff(&format!("roundtrip:panic@{}", p.file()), &format!("printing or parsing panicked at {}: {}", p.site, p.msg), || format!("roundtrip={f:?}")),
								}
								for (key, what) in fails {
									ctx.diff(key, &what, || format!("roundtrip={f:?}"));
								}
								values += 1;
							}
						}
						// the short forms documented for MavenCoord: type and classifier may be left out
						if c.is_none() {
							let short = if t == "jar" { format!("{g}:{a}:{v}") } else { format!("{g}:{a}:{t}:{v}") };
							match vcore::guard(|| MavenCoord::from_str(&short)) {
								Ok(Ok(back)) if back == coord => {},
								Ok(other) => ctx.diff("roundtrip:coord-short-form", &format!("{short:?} parsed as {other:?}"), || format!("roundtrip={coord:?}")),
								Err(p) => ctx.diff(&format!("roundtrip:panic@{}", p.file()), &p.msg, || format!("roundtrip={coord:?}")),
							}
							n += 1;
						}
					}
				}
			}
		}
	}
	(n, values)
}

// ---------------------------------------------------------------------------------------------
// long chains and wide lists: every size up to a bound, so that a depth or size limit is met wherever it is put

fn run_deep(ctx: &Ctx, acc: &mut Acc, shape: usize, k: usize, variant: usize) {
	let Some(u) = extra::deep(shape, k, variant) else { return };
	judge(ctx, acc, &u, &|| format!("deep={shape}/{k}/{variant}\n{}\n{}", extra::describe_deep(shape, k, variant), u.describe()), 9, &Env::default());
}

fn deep_sweep(ctx: &'static Ctx, max: usize) -> (Acc, u64) {
	let mut items: Vec<(usize, usize, usize)> = Vec::new();
	for (shape, (_, variants)) in extra::DEEP_SHAPES.iter().enumerate() {
		for variant in 0..*variants {
			// the largest first: they take longest
			for k in (1..=max).rev() {
				// (the smallest sizes of some shapes do not exist)
				if k > 2 || extra::deep(shape, k, variant).is_some() {
					items.push((shape, k, variant));
				}
			}
		}
	}
	let n = items.len() as u64;
	// the resolver recurses once per level; the depth must not depend on the stack the test harness happens to have
	let pool = rayon::ThreadPoolBuilder::new().stack_size(256 << 20).build().unwrap_or_else(|e| vcore::machinery_fail(&format!("cannot build the thread pool of the deep sweep: {e}")));
	let acc = pool.install(|| items.into_par_iter().fold(Acc::new, |mut acc, (shape, k, variant)| {
		vcore::watched(|| format!("deep={shape}/{k}/{variant}"), || run_deep(ctx, &mut acc, shape, k, variant));
		acc
	}).reduce(Acc::new, Acc::merge));
	(acc, n)
}

// ---------------------------------------------------------------------------------------------
// long names: n ASCII characters and one character of 1/2/3/4 bytes, in every text field, resolved and refused

fn run_long(ctx: &Ctx, acc: &mut Acc, field: usize, len: usize, last: usize) {
	let id = format!("long/{field}/{len}/{last}");
	let u = extra::long_naming(field, len, last).apply(&extra::tiny());
	let text = |w: &Universe, spoil: Option<(usize, usize)>| format!("tiny=1\n{}{}", Extra { naming: Some(id.clone()), pending: 0, spoil }.lines(), w.describe());
	judge(ctx, acc, &u, &|| text(&u, None), 8, &Env::default());
	run_spoils(ctx, acc, &u, &|w, spoil| text(w, Some(spoil)));
}

fn long_sweep(ctx: &'static Ctx, max: usize) -> (Acc, u64) {
	let mut items = Vec::new();
	for field in 0..extra::LONG_FIELDS.len() {
		for len in 0..=max {
			for last in 0..extra::LONG_LAST.len() {
				items.push((field, len, last));
			}
		}
	}
	let n = items.len() as u64;
	let acc = items.into_par_iter().fold(Acc::new, |mut acc, (field, len, last)| {
		vcore::watched(|| format!("tiny=1 naming=long/{field}/{len}/{last}"), || run_long(ctx, &mut acc, field, len, last));
		acc
	}).reduce(Acc::new, Acc::merge);
	(acc, n)
}

// ---------------------------------------------------------------------------------------------
// round trips of texts with multi-byte characters and of long texts; every prefix of a printed form is parsed
// (it may be refused or accepted, it must not panic)

fn roundtrip_text_sweep(ctx: &Ctx, max_len: usize) -> (u64, u64, u64) {
	let mut texts: Vec<String> = vec!["p".to_owned()];
	for (_, ch) in extra::CHARS {
		texts.extend([format!("{ch}p"), format!("p{ch}q"), format!("p{ch}"), format!("{ch}")]);
	}
	let mut calls = 0u64;
	let mut values = 0u64;
	let mut prefixes = 0u64;
	let mut one = |f: &FoundDependency<'_>, with_prefixes: bool| {
		let mut fails = Vec::new();
		match vcore::guard(|| roundtrip_found(f, &mut fails)) {
			Ok(k) => calls += k,
			Err(p) => ctx.diff(&format!("roundtrip:panic@{}", p.file()), &format!("printing or parsing panicked at {}: {}", p.site, p.msg), || format!("roundtrip={f:?}")),
		}
		for (key, what) in fails {
			ctx.diff(key, &what, || format!("roundtrip={f:?}"));
		}
		values += 1;
		if with_prefixes {
			let text = f.to_string();
			let ctext = f.coord.to_string();
			for (i, _) in text.char_indices() {
				if let Err(p) = vcore::guard(|| { let _ = FoundDependency::try_from(&text[..i]); }) {
					ctx.diff(&format!("roundtrip:panic@{}", p.file()), &format!("parsing {:?} panicked at {}: {}", &text[..i], p.site, p.msg), || format!("roundtrip={f:?}"));
				}
				prefixes += 1;
			}
			for (i, _) in ctext.char_indices() {
				if let Err(p) = vcore::guard(|| { let _ = MavenCoord::from_str(&ctext[..i]); }) {
					ctx.diff(&format!("roundtrip:panic@{}", p.file()), &format!("parsing {:?} panicked at {}: {}", &ctext[..i], p.site, p.msg), || format!("roundtrip={f:?}"));
				}
				prefixes += 1;
			}
		}
	};
	let mk = |g: &str, a: &str, v: &str, c: Option<&str>, t: &str| MavenCoord { group: g.to_owned(), artifact: a.to_owned(), version: v.to_owned(), classifier: c.map(str::to_owned), type_: t.to_owned() };
	// one field varies over the texts, the others stay plain; then all at once
	for t in &texts {
		for field in 0..7 {
			let pick = |i: usize, plain: &str| if field == i || field == 6 { t.clone() } else { plain.to_owned() };
			let (g, a, v, c, ty, url) = (pick(0, "o.g"), pick(1, "a"), pick(2, "1.0"), pick(3, "k"), pick(4, "jar"), pick(5, "mem://one.invalid/repo"));
			for classifier in [None, Some(c.as_str())] {
				for s in SCOPES {
					let f = FoundDependency { resolver: Resolver::new("name", &url), coord: mk(&g, &a, &v, classifier, &ty), scope: real_scope(s) };
					one(&f, s == Sc::Compile);
				}
			}
		}
	}
	// snapshot versions and their near misses with a multi-byte character somewhere
	for v in ["1.0-20230713.025619-1", "é-20230713.025619-1", "1.0-20230713.025619-1é", "1.0-2023071é.025619-1", "1.0-20230713.02561€-1", "𝄞1.0-SNAPSHOT"] {
		let f = FoundDependency { resolver: Resolver::new("name", "mem://one.invalid/repo"), coord: mk("o.g", "a", v, None, "jar"), scope: DependencyScope::Compile };
		one(&f, true);
	}
	// long fields ending in a character of 1/2/3/4 bytes
	for len in 0..=max_len {
		for last in extra::LONG_LAST {
			let t = format!("{}{last}", "x".repeat(len));
			for field in 0..6 {
				let pick = |i: usize, plain: &str| if field == i { t.clone() } else { plain.to_owned() };
				let (g, a, v, c, ty, url) = (pick(0, "o.g"), pick(1, "a"), pick(2, "1.0"), pick(3, "k"), pick(4, "jar"), pick(5, "mem://one.invalid/repo"));
				let f = FoundDependency { resolver: Resolver::new("name", &url), coord: mk(&g, &a, &v, Some(&c), &ty), scope: DependencyScope::Runtime };
				one(&f, len % 20 == 0);
			}
		}
	}
	(calls, values, prefixes)
}

// ---------------------------------------------------------------------------------------------

fn main() {
	let ctx: &'static Ctx = Box::leak(Box::new(Ctx::new("C19", "exploration")));
	if let Some(path) = ctx.replay.clone() {
		replay(ctx, &path);
	}
	vcore::set_case_budget_ms(180_000);
	// Development aid: C19_DEV_ONLY=<tag prefix>,… runs only those spaces (tags: <family>/<deviations>/<plain|names|
	// waiting|refusals>, deep, long, roundtrip, missing). Such a run can report differences, it never passes.
	let only: Option<Vec<String>> = std::env::var("C19_DEV_ONLY").ok().map(|s| s.split(',').map(|t| t.trim().to_owned()).filter(|t| !t.is_empty()).collect());
	let wanted = |tag: &str| only.as_ref().is_none_or(|o| o.iter().any(|t| tag.starts_with(t.as_str())));
	if only.is_some() {
		ctx.floor("a complete run (C19_DEV_ONLY is set: development aid, never a verdict)", 1, 0);
	}
	let mut total = Acc::new();
	let mut per_plan: Vec<Value> = Vec::new();
	for plan in plans(ctx.tier) {
		if !wanted(&format!("{}/{}/{}", plan.family, plan.level, match plan.mode { Mode::Plain => "plain", Mode::Names => "names", Mode::Waiting => "waiting", Mode::Refusals => "refusals" })) {
			continue;
		}
		let t0 = ctx.elapsed_s();
		let (acc, n_bases) = run_plan(ctx, &plan);
		per_plan.push(json!({
			"family": plan.family,
			"deviations": plan.level,
			"alphabet_rank": plan.max_rank,
			"mode": plan.mode.name(),
			"bases": n_bases,
			"cases": acc.st.evaluations,
			"combinations_without_meaning_skipped": acc.invalid_combinations,
			"wall_s": ((ctx.elapsed_s() - t0) * 100.0).round() / 100.0,
		}));
		total = total.merge(acc);
	}
	let missing = if wanted("missing") { missing_sweep(ctx, "F4") } else { Acc::new() };
	let missing_cases = missing.st.evaluations;
	let missing_outcomes = missing.st.outcomes.clone();
	let (rt_calls, rt_values) = if wanted("roundtrip") { roundtrip_sweep(ctx) } else { (0, 0) };
	let long_max = 140;
	let (rtt_calls, rtt_values, rtt_prefixes) = if wanted("roundtrip") { roundtrip_text_sweep(ctx, long_max) } else { (0, 0, 0) };
	let deep_max = ctx.tier.pick(130, 400);
	let t0 = ctx.elapsed_s();
	let (deep, deep_items) = if wanted("deep") { deep_sweep(ctx, deep_max) } else { (Acc::new(), 0) };
	let deep_wall = ctx.elapsed_s() - t0;
	let (deep_cases, deep_len, deep_depth) = (deep.st.evaluations, deep.max_result_len, deep.max_depth);
	let deep_agree: u64 = deep.st.outcomes.iter().filter(|(k, _)| k.starts_with("agree:")).map(|(_, v)| *v).sum();
	total = total.merge(deep);
	let t0 = ctx.elapsed_s();
	let (long, long_items) = if wanted("long") { long_sweep(ctx, long_max) } else { (Acc::new(), 0) };
	let long_wall = ctx.elapsed_s() - t0;
	let (long_resolved, long_refusals) = (long.st.evaluations - long.refusal_cases, long.refusal_cases);
	total = total.merge(long);
	let refusal_outcomes: BTreeMap<String, u64> = total.st.outcomes.iter().filter(|(k, _)| k.starts_with("outside-domain:")).map(|(k, v)| (k.clone(), *v)).collect();
	let resolutions = total.st.evaluations - total.refusal_cases;

	let agree: u64 = total.st.outcomes.iter().filter(|(k, _)| k.starts_with("agree")).map(|(_, v)| *v).sum();
	ctx.floor("universes where the nearer of two versions was chosen", ctx.tier.pick(20_000, 100_000), total.cases_with_nearer);
	ctx.floor("universes with a tie decided by declaration order", 1_000, total.cases_with_tie);
	ctx.floor("universes where a discarded subtree would have contributed an artifact", 1_000, total.cases_with_discarded_contribution);
	for l in SCOPES {
		for t in SCOPES {
			ctx.floor(&format!("scope table cell dependent={} dependency={}", l.name(), t.name()), 1, total.cells[l.idx()][t.idx()]);
		}
	}
	let names = ["own pom", "parent", "imported bom"];
	for i in 0..3 {
		ctx.floor(&format!("versions filled in from the management of: {}", names[i]), 100, total.version_fills[i]);
		ctx.floor(&format!("scopes filled in from the management of: {}", names[i]), 10, total.scope_fills[i]);
	}
	ctx.floor("optional dependencies cut", 100, total.optional_cuts);
	ctx.floor("results served by the second repository", 100, total.second_repo_results);
	ctx.floor("results with classifier or non-default type", 100, total.classifier_or_type_results);
	ctx.floor("universes on which real resolver and reference agree", resolutions / 2, agree);
	ctx.floor("results served by the third repository", 100, total.third_repo_results);
	ctx.floor("results whose classifier is the one implied by their type", 100, total.implied_classifier_results);
	ctx.floor("occurrences that lost against the same artifact on their own path to the roots", 100, total.lost_to_own_ancestor);
	ctx.floor("resolutions with repositories that answer Pending first", 1_000, total.waited);
	ctx.floor("long chains and wide lists on which resolver and reference agree (every one of them)", deep_items, deep_agree);
	ctx.floor("longest list resolved in the sweep of long chains and wide lists", deep_max as u64, deep_len);
	ctx.floor("deepest level listed in the sweep of long chains", deep_max as u64, deep_depth);
	ctx.floor("universes with a long name that were resolved", long_items, long_resolved);
	for how in 0..=SPOIL_FAILING_REPOSITORY {
		let n: u64 = refusal_outcomes.iter().filter(|(k, _)| k.starts_with(&format!("outside-domain:{}:", spoil_name(how)))).map(|(_, v)| *v).sum();
		ctx.floor(&format!("inputs outside the domain: {}", spoil_name(how)), 100, n);
	}
	ctx.floor("inputs outside the domain that the resolver refused", 1_000, refusal_outcomes.iter().filter(|(k, _)| k.ends_with(":refused")).map(|(_, v)| *v).sum());
	ctx.floor("prefixes of printed forms given to the parsers", 1_000, rtt_prefixes);
	ctx.floor("round trips of values returned by the resolver", 10_000, total.roundtrips);

	let cells: BTreeMap<String, u64> = SCOPES.iter().flat_map(|l| SCOPES.iter().map(move |t| (format!("{}<-{}", l.name(), t.name()), 0u64))).map(|(k, _)| k).zip(total.cells.iter().flatten().copied()).collect();
	let coverage = json!({
		"evaluations": total.st.evaluations + missing_cases + rt_calls + rtt_calls + rtt_prefixes + total.roundtrips,
		"outside_domain_sweep": {"cases": total.refusal_cases, "outcomes": refusal_outcomes, "manners": (0..=SPOIL_FAILING_REPOSITORY).map(spoil_name).collect::<Vec<_>>(), "rule": "F3 universes (no deviation, one deviation) under the 10 every-field namings and the universe of the long-name sweep, spoiled in every manner at every place; only panics and hangs are differences"},
		"deep_sweep": {"shapes": extra::DEEP_SHAPES.iter().map(|(n, v)| json!({"shape": n, "variants": v})).collect::<Vec<_>>(), "sizes": format!("1..={deep_max}"), "cases": deep_cases, "longest_list": deep_len, "deepest_level": deep_depth, "wall_s": (deep_wall * 100.0).round() / 100.0},
		"long_name_sweep": {"fields": extra::LONG_FIELDS, "ascii_characters": format!("0..={long_max}"), "last_character_bytes": [1, 2, 3, 4], "resolved": long_resolved, "spoiled_and_run": long_refusals, "wall_s": (long_wall * 100.0).round() / 100.0},
		"roundtrip_text_sweep": {"values": rtt_values, "calls": rtt_calls, "prefixes_parsed": rtt_prefixes},
		"waiting_resolutions": total.waited,
		"missing_pom_sweep": {"cases": missing_cases, "outcomes": missing_outcomes, "rule": "every F4 base with each one of its 8 POM files removed in turn; outside the statement's domain, only panics and hangs are differences"},
		"resolutions": resolutions,
		"roundtrip_calls": rt_calls + rtt_calls + total.roundtrips,
		"roundtrip_sweep_values": rt_values,
		"distinct_nontrivial": total.st.distinct.len(),
		"rule": "one evaluation = one call of the real get_maven_dependencies on a generated universe served as POM XML through the Downloader trait (or one Display→parse round trip of a real value). distinct_nontrivial = distinct universes (files + roots) in which the reference saw at least one mediation loser, cut (optional / non-transitive scope) or management fill-in",
		"exhaustive": true,
		"samples": total.st.samples,
		"outcomes": total.st.outcomes,
		"plans": per_plan,
		"scope_table_cells": cells,
		"max_result_length": total.max_result_len,
		"bounds": {
			"artifacts": "a<b<c<d in group o.g (families F4/R4x2) or a<b<c (F3/R3/R3x3), versions {1,2}; dependencies only on later artifacts, at most 2 ordered dependencies per POM on distinct artifacts",
			"families": {
				"F4": "root list [a:1], every graph over 4 artifacts (POMs unreachable from the roots stay empty)",
				"F3": "root list [a:1], every graph over 3 artifacts",
				"R3": "every root list of 1 or 2 roots on distinct artifacts × every graph over 3 artifacts",
				"R3x3": "every root list of 3 roots × every graph over 3 artifacts",
				"R4x2": "every root list of exactly 2 roots × every graph over 4 artifacts",
				"RD3": "every list of 2 roots naming one artifact twice (equal or rival versions) × every graph over 3 artifacts",
				"RD3x3": "every list of 3 roots in which an artifact occurs more than once × every graph over 3 artifacts",
				"V3": "POMs ordered a1<b1<c1<a2<b2<c2, dependencies on later POMs of other artifacts (an artifact may hang below another version of itself), every single root",
				"V3x2": "the same with every list of 2 roots on distinct artifacts",
				"W4": "root list [a:1], every graph over 4 artifacts in which some POM has 3 ordered dependencies",
			},
			"modes": {
				"as generated": "the universe as built",
				"every naming of the alphabet": extra::namings(3).iter().map(|n| n.label.clone()).collect::<Vec<_>>(),
				"every-field namings": extra::namings_all_fields().iter().map(|n| n.label.clone()).collect::<Vec<_>>(),
				"waiting": "every answer of the repositories is Pending 1 or 3 times first",
				"spoiled": (0..=SPOIL_FAILING_REPOSITORY).map(spoil_name).collect::<Vec<_>>(),
			},
			"deviation_alphabet": {
				"per dependency": "scope ∈ {compile (explicit), runtime, provided, test, system}; optional ∈ {true, false}; classifier k; type ∈ {ejb, jar (explicit), test-jar (implied classifier tests: written nowhere / on the dependency only / in the management entry only), zip}; a first management entry for the same artifact with another group / classifier / type (other version, scope test); 14 management layouts (version omitted + managed in own POM / parent / imported BOM / grandparent / BOM of the parent / BOM of the BOM / parent of the BOM; own over BOM, own over parent, first BOM over second BOM, parent over grandparent with the other version in the lower place; version given while own/parent/BOM manage the other version); managed scope ∈ {compile, runtime, provided, test}",
				"per POM": "groupId from parent; version from parent; parent declares one more dependency (every later artifact × version not declared by the child) in 8 modes (plain; version managed by the parent; by the parent but the child manages another version; only by the child; scope managed by the child; runtime; optional; declared by the grandparent); served by the second repository only / by both with different content in the second / parents and BOMs in the second / by the third only / by the second with different content in the third; packaging ∈ {bundle, pom, war}; 6 XML renderings (unrelated elements and namespaces, reversed element order, indentation and comments, empty <dependencies/>, empty <dependencyManagement/>, empty managed <dependencies/>)",
				"roots": "scope ∈ {runtime, provided, test, system}; classifier; type ejb; a second root (every other artifact × version) before or after",
				"rank": "alphabet_rank 0 = core values only (scope runtime/test, optional true, classifier, type ejb, the 4 basic management layouts, managed scope runtime/test, groupId from parent, parent dependency and its 4 management modes, repository modes, empty <dependencies/>, root scope runtime/test, second root); 2 = everything",
			},
			"tolerances": [
				"dependencies inherited from a parent may be listed before or after the child's own ones (the documentation does not say; Maven itself lists the child's first)",
				"what hangs below a root of scope system may be reported with scope system or provided (system is not in the scope table; 'similar to provided')",
				"a transitive dependency of scope system is expected to be cut like provided",
				"the scope of a mediation winner is the scope of the winning occurrence (the statement does not ask for Maven's widening of scopes across occurrences)",
			],
			"outside": "property interpolation, version ranges, exclusions, profiles, imports declared before managed entries, a child re-declaring a parent's dependency, optional in dependencyManagement, conflicting management between a parent's entry and a child's import, cycles; missing POMs, version-less unmanaged dependencies, other model versions, parents without pom packaging and failing repositories are run for 'no panic, no hang' only",
		},
	});
	ctx.finish(coverage, &[
		"with the ready downloader every future of the resolver is ready at first poll (checked: a Pending future aborts the run); the waiting downloader wakes itself and is polled again",
		"the implied classifiers are those of Maven's default artifact handlers (test-jar → tests, ejb-client → client, java-source → sources, javadoc → javadoc)",
		"a timestamped snapshot version <base>-<8 digits>.<6 digits>-<digits> (ASCII digits) is stored in the directory <base>-SNAPSHOT (Maven repository layout)",
		"serde-xml-rs 0.6.0 (the version the application uses) binds the POM text to MavenPom inside the in-memory Downloader",
		"the reference resolver in c19/oracle.rs is the independent reading of the Maven documentation",
	]);
}

fn replay(ctx: &'static Ctx, path: &std::path::Path) -> ! {
	let body = vcore::replay_body(path);
	let mut acc = Acc::new();
	let line = |prefix: &str| body.lines().find(|l| l.starts_with(prefix)).map(|l| l[prefix.len()..].trim().to_owned());
	let nums = |s: &str| -> Vec<usize> { s.split('/').map(|p| p.parse().unwrap_or_else(|_| vcore::machinery_fail(&format!("bad number in {s:?}")))).collect() };
	if body.starts_with("roundtrip=") {
		roundtrip_sweep(ctx);
		roundtrip_text_sweep(ctx, 140);
		ctx.finish(json!({"evaluations": 1, "distinct_nontrivial": 1, "rule": "replay", "samples": ["replay"], "exhaustive": false, "outcomes": acc.st.outcomes}), &[]);
	}
	if let (Some(id), Some(m)) = (line("case="), line("missing=")) {
		let parts: Vec<&str> = id.split('/').collect();
		let bases = family_bases(parts[0]);
		let bi: usize = parts.get(1).and_then(|s| s.parse().ok()).unwrap_or_else(|| vcore::machinery_fail("bad base index"));
		let k: usize = m.parse().unwrap_or_else(|_| vcore::machinery_fail("bad file index"));
		let base = bases.get(bi).unwrap_or_else(|| vcore::machinery_fail("base index out of range"));
		run_missing(ctx, &mut acc, parts[0], bi, base, k);
		ctx.finish(json!({"evaluations": 1, "distinct_nontrivial": 1, "rule": "replay", "samples": ["replay"], "exhaustive": false, "outcomes": acc.st.outcomes}), &[]);
	}
	// the universe as generated
	let header;
	let level;
	let mut u = if let Some(id) = line("case=") {
		let parts: Vec<&str> = id.split('/').collect();
		if parts.len() != 3 {
			vcore::machinery_fail("bad case id in replay");
		}
		let bases = family_bases(parts[0]);
		let bi: usize = parts[1].parse().unwrap_or_else(|_| vcore::machinery_fail("bad base index"));
		let base = bases.get(bi).unwrap_or_else(|| vcore::machinery_fail("base index out of range"));
		let all = gen::all_devs(base);
		let idxs: Vec<usize> = parts[2].split('.').filter(|s| !s.is_empty()).map(|s| s.parse().unwrap_or_else(|_| vcore::machinery_fail("bad deviation index"))).collect();
		if idxs.iter().any(|i| *i >= all.len()) {
			vcore::machinery_fail("deviation index out of range");
		}
		let devs: Vec<Dev> = idxs.iter().map(|i| all[*i]).collect();
		header = format!("case={id}\nbase: {}\ndeviations:\n{}", base.show(), devs.iter().map(|d| format!("  {}\n", gen::describe_dev(base, d))).collect::<String>());
		level = idxs.len();
		gen::build(base, &devs).unwrap_or_else(|| vcore::machinery_fail("the replayed combination has no meaning"))
	} else if let Some(d) = line("deep=") {
		let n = nums(&d);
		if n.len() != 3 {
			vcore::machinery_fail("bad deep= line in replay");
		}
		header = format!("deep={d}\n{}\n", extra::describe_deep(n[0], n[1], n[2]));
		level = 9;
		extra::deep(n[0], n[1], n[2]).unwrap_or_else(|| vcore::machinery_fail("no such long chain or wide list"))
	} else if line("tiny=").is_some() {
		header = "tiny=1\n".to_owned();
		level = 8;
		extra::tiny()
	} else {
		vcore::machinery_fail("replay file has no case=, deep= or tiny= line");
	};
	let mut extra_ = Extra::default();
	let mut env = Env::default();
	if let Some(id) = line("naming=") {
		u = naming_by_id(&id).apply(&u);
		extra_.naming = Some(id);
	}
	if let Some(e) = line("env=") {
		let p = e.strip_prefix("pending/").and_then(|p| p.parse().ok()).unwrap_or_else(|| vcore::machinery_fail("bad env= line in replay"));
		extra_.pending = p;
		env.pending = p;
	}
	let mut manner = None;
	if let Some(sp) = line("spoil=") {
		let n = nums(&sp);
		if n.len() != 2 {
			vcore::machinery_fail("bad spoil= line in replay");
		}
		extra_.spoil = Some((n[0], n[1]));
		manner = Some(spoil_name(n[0]));
		if n[0] == SPOIL_FAILING_REPOSITORY {
			env.fail_url = Some(u.served().into_keys().nth(n[1]).unwrap_or_else(|| vcore::machinery_fail("spoil index out of range")));
		} else {
			u = extra::spoil(&u, n[0], n[1]).unwrap_or_else(|| vcore::machinery_fail("spoil index out of range"));
		}
	}
	let text = format!("{header}{}{}", extra_.lines(), u.describe());
	println!("{text}");
	let a = run_real(&u, &env).map(|r| r.map(|o| o.list));
	let b = run_real(&u, &env).map(|r| r.map(|o| o.list));
	if a != b {
		vcore::machinery_fail("replay is not deterministic");
	}
	match &a {
		Ok(Ok(l)) => println!("real:\n{}", show_list(l)),
		other => println!("real: {other:?}"),
	}
	match manner {
		Some(m) => run_refusal(ctx, &mut acc, &u, &env, m, &|| text.clone()),
		None => {
			println!("reference:\n{}", oracle::resolve(&u, TOLERANCES[0]).map(|r| show_list(&r.list)).unwrap_or_else(|e| format!("  {e:?}\n")));
			judge(ctx, &mut acc, &u, &|| text.clone(), level, &env);
		},
	}
	ctx.finish(json!({"evaluations": acc.st.evaluations.max(1), "distinct_nontrivial": 1, "rule": "replay", "samples": ["replay"], "exhaustive": false, "outcomes": acc.st.outcomes}), &[]);
}
