//! C19 — Maven dependency resolution follows nearest-wins mediation and scope rules.
//!
//! Engine: exhaustive, deviation-bounded enumeration of POM universes (artifacts a<b<c<d × versions
//! {1,2}, dependencies only to later artifacts). Every universe is rendered to POM XML, served from memory
//! through the crate's `Downloader` trait (the XML is bound to `MavenPom` with serde-xml-rs exactly as the
//! application does) and resolved by the real `get_maven_dependencies`; the answer is compared with a
//! reference resolver written from the statement and the Maven documentation (`c19/oracle.rs`).

#[path = "c19/model.rs"]
mod model;
#[path = "c19/oracle.rs"]
mod oracle;
#[path = "c19/gen.rs"]
mod gen;

use std::collections::BTreeMap;
use std::future::Future;
use std::str::FromStr;
use std::task::{Context, Poll, RawWaker, RawWakerVTable, Waker};
use maven_dependency_resolver::coord::MavenCoord;
use maven_dependency_resolver::maven_pom::MavenPom;
use maven_dependency_resolver::resolver::Resolver;
use maven_dependency_resolver::{get_maven_dependencies, DependencyScope, Downloader, FoundDependency};
use rayon::prelude::*;
use vcore::{json, Ctx, Stats, Value};
use gen::{Base, Dev};
use model::{Sc, Universe, GROUP, SCOPES};
use oracle::{Fail, Facts, Found, Sem};

// ---------------------------------------------------------------------------------------------
// driving the real code

fn block_on<F: Future>(f: F) -> F::Output {
	fn raw() -> RawWaker {
		fn clone(_: *const ()) -> RawWaker {
			raw()
		}
		fn noop(_: *const ()) {}
		static VT: RawWakerVTable = RawWakerVTable::new(clone, noop, noop, noop);
		RawWaker::new(std::ptr::null(), &VT)
	}
	// SAFETY: the vtable functions do nothing and the data pointer is never dereferenced
	let waker = unsafe { Waker::from_raw(raw()) };
	let mut cx = Context::from_waker(&waker);
	let mut f = std::pin::pin!(f);
	match f.as_mut().poll(&mut cx) {
		Poll::Ready(v) => v,
		Poll::Pending => vcore::machinery_fail("a future of the resolver returned Pending although the downloader is always ready"),
	}
}

/// The repositories: url → POM text. Every request binds the text to `MavenPom` with serde-xml-rs.
struct Mem {
	files: BTreeMap<String, String>,
}

impl Downloader for Mem {
	#[allow(clippy::manual_async_fn)]
	fn get_maven_pom(&self, url: &str) -> impl Future<Output = anyhow::Result<Option<MavenPom>>> + Send {
		let r: anyhow::Result<Option<MavenPom>> = match self.files.get(url) {
			None => Ok(None),
			Some(xml) => serde_xml_rs::from_str::<MavenPom>(xml).map(Some).map_err(|e| anyhow::anyhow!("maven pom at {url}: {e}")),
		};
		async move { r }
	}
}

fn real_scope(s: Sc) -> DependencyScope {
	match s {
		Sc::Compile => DependencyScope::Compile,
		Sc::Runtime => DependencyScope::Runtime,
		Sc::Provided => DependencyScope::Provided,
		Sc::Test => DependencyScope::Test,
		Sc::System => DependencyScope::System,
	}
}

fn model_scope(s: DependencyScope) -> Sc {
	match s {
		DependencyScope::Compile => Sc::Compile,
		DependencyScope::Runtime => Sc::Runtime,
		DependencyScope::Provided => Sc::Provided,
		DependencyScope::Test => Sc::Test,
		DependencyScope::System => Sc::System,
	}
}

#[derive(Debug)]
struct RealOut {
	list: Vec<Found>,
	foreign_group: bool,
	/// Display forms of everything returned, for the round trips
	roundtrip_failures: Vec<(&'static str, String)>,
	roundtrips: u64,
}

fn roundtrip_found(f: &FoundDependency<'_>, fails: &mut Vec<(&'static str, String)>) -> u64 {
	let text = f.to_string();
	match FoundDependency::try_from(text.as_str()) {
		Ok(back) => {
			if back.coord != f.coord || back.scope != f.scope || back.resolver.maven != f.resolver.maven {
				fails.push(("roundtrip:found-dependency", format!("{text:?} parsed back as {back:?}")));
			} else if back.to_string() != text {
				fails.push(("roundtrip:found-dependency", format!("{text:?} printed again as {:?}", back.to_string())));
			}
		},
		Err(e) => fails.push(("roundtrip:found-dependency", format!("{text:?} is not parsed back: {e:#}"))),
	}
	let ctext = f.coord.to_string();
	match MavenCoord::from_str(&ctext) {
		Ok(back) if back == f.coord => {},
		Ok(back) => fails.push(("roundtrip:coord", format!("{ctext:?} parsed back as {back:?}"))),
		Err(e) => fails.push(("roundtrip:coord", format!("{ctext:?} is not parsed back: {e:#}"))),
	}
	let stext = f.scope.to_string();
	match DependencyScope::from_str(&stext) {
		Ok(back) if back == f.scope => {},
		other => fails.push(("roundtrip:scope", format!("{stext:?} parsed back as {other:?}"))),
	}
	3
}

fn run_real(u: &Universe) -> Result<Result<RealOut, String>, vcore::Panic> {
	let mem = Mem { files: u.served() };
	let resolvers: Vec<Resolver> = u.repos.iter().map(|(n, url)| Resolver::new(n, url)).collect();
	let roots: Vec<(MavenCoord, DependencyScope)> = u.roots.iter().map(|r| (MavenCoord {
		group: GROUP.to_owned(),
		artifact: r.artifact.clone(),
		version: r.version.clone(),
		classifier: r.classifier.clone(),
		type_: r.type_.clone(),
	}, real_scope(r.scope))).collect();
	vcore::guard(|| {
		let r = block_on(get_maven_dependencies(&mem, &resolvers, &roots));
		match r {
			Err(e) => Err(format!("{e:#}")),
			Ok(v) => {
				let mut out = RealOut { list: Vec::new(), foreign_group: false, roundtrip_failures: Vec::new(), roundtrips: 0 };
				for f in &v {
					out.roundtrips += roundtrip_found(f, &mut out.roundtrip_failures);
					if f.coord.group != GROUP {
						out.foreign_group = true;
					}
					out.list.push(Found {
						artifact: f.coord.artifact.clone(),
						version: f.coord.version.clone(),
						classifier: f.coord.classifier.clone(),
						type_: f.coord.type_.clone(),
						scope: model_scope(f.scope),
						repo_name: f.resolver.name.to_string(),
						repo_url: f.resolver.maven.to_string(),
					});
				}
				Ok(out)
			},
		}
	})
}

// ---------------------------------------------------------------------------------------------
// accumulators

#[derive(Default, Clone)]
struct Acc {
	st: Stats,
	cases_with_nearer: u64,
	cases_with_tie: u64,
	cases_with_discarded_contribution: u64,
	cells: [[u64; 5]; 5],
	optional_cuts: u64,
	version_fills: [u64; 3],
	scope_fills: [u64; 3],
	second_repo_results: u64,
	classifier_or_type_results: u64,
	roundtrips: u64,
	invalid_combinations: u64,
	max_result_len: u64,
}

impl Acc {
	fn new() -> Acc {
		Acc::default()
	}
	fn facts(&mut self, f: &Facts, len: usize) {
		self.cases_with_nearer += (f.nearer_won > 0) as u64;
		self.cases_with_tie += (f.ties > 0) as u64;
		self.cases_with_discarded_contribution += f.discarded_contribution as u64;
		for i in 0..5 {
			for j in 0..5 {
				self.cells[i][j] += f.cells[i][j] as u64;
			}
		}
		self.optional_cuts += f.optional_cuts as u64;
		for i in 0..3 {
			self.version_fills[i] += f.version_fills[i] as u64;
			self.scope_fills[i] += f.scope_fills[i] as u64;
		}
		self.second_repo_results += f.second_repo_results as u64;
		self.classifier_or_type_results += f.classifier_or_type_results as u64;
		self.max_result_len = self.max_result_len.max(len as u64);
	}
	fn merge(mut self, o: Acc) -> Acc {
		self.st = self.st.merge(o.st);
		self.cases_with_nearer += o.cases_with_nearer;
		self.cases_with_tie += o.cases_with_tie;
		self.cases_with_discarded_contribution += o.cases_with_discarded_contribution;
		for i in 0..5 {
			for j in 0..5 {
				self.cells[i][j] += o.cells[i][j];
			}
		}
		self.optional_cuts += o.optional_cuts;
		for i in 0..3 {
			self.version_fills[i] += o.version_fills[i];
			self.scope_fills[i] += o.scope_fills[i];
		}
		self.second_repo_results += o.second_repo_results;
		self.classifier_or_type_results += o.classifier_or_type_results;
		self.roundtrips += o.roundtrips;
		self.invalid_combinations += o.invalid_combinations;
		self.max_result_len = self.max_result_len.max(o.max_result_len);
		self
	}
}

// ---------------------------------------------------------------------------------------------
// one case

const TOLERANCES: [Sem; 4] = [
	Sem { inherited_first: false, system_as_provided: false, parent_context: false },
	Sem { inherited_first: true, system_as_provided: false, parent_context: false },
	Sem { inherited_first: false, system_as_provided: true, parent_context: false },
	Sem { inherited_first: true, system_as_provided: true, parent_context: false },
];

fn show_list(l: &[Found]) -> String {
	if l.is_empty() {
		return "  (nothing)\n".to_owned();
	}
	l.iter().map(|f| format!("  {}\n", f.show())).collect()
}

/// classifies how two lists differ (the kind of the difference, no names)
fn difference_kind(expected: &[Found], actual: &[Found]) -> &'static str {
	let id = |f: &Found| (f.artifact.clone(), f.classifier.clone(), f.type_.clone());
	let mut e_ids: Vec<_> = expected.iter().map(id).collect();
	let mut a_ids: Vec<_> = actual.iter().map(id).collect();
	let mut a_sorted = a_ids.clone();
	a_sorted.sort();
	if a_sorted.windows(2).any(|w| w[0] == w[1]) {
		return "duplicate-artifact-in-result";
	}
	if a_ids == e_ids {
		// same artifacts in the same order
		if expected.iter().zip(actual).any(|(e, a)| e.version != a.version) {
			return "wrong-version-selected";
		}
		if expected.iter().zip(actual).any(|(e, a)| e.scope != a.scope) {
			return "wrong-scope";
		}
		return "wrong-repository";
	}
	e_ids.sort();
	a_ids.sort();
	if e_ids == a_ids {
		return "order-not-breadth-first";
	}
	if a_ids.iter().any(|a| !e_ids.contains(a)) {
		if e_ids.iter().any(|e| !a_ids.contains(e)) {
			return "different-artifacts";
		}
		return "extra-artifact";
	}
	"missing-artifact"
}

struct CaseId<'a> {
	family: &'a str,
	base_idx: usize,
	base: &'a Base,
	all: &'a [Dev],
	idxs: &'a [usize],
}

impl CaseId<'_> {
	fn id(&self) -> String {
		format!("{}/{}/{}", self.family, self.base_idx, self.idxs.iter().map(|i| i.to_string()).collect::<Vec<_>>().join("."))
	}
	fn describe(&self, u: &Universe) -> String {
		let mut s = format!("case={}\nbase: {}\ndeviations:\n", self.id(), self.base.show());
		for i in self.idxs {
			s.push_str(&format!("  {}\n", gen::describe_dev(self.base, &self.all[*i])));
		}
		s.push_str(&u.describe());
		s
	}
}

fn run_case(ctx: &Ctx, acc: &mut Acc, c: &CaseId) {
	let devs: Vec<Dev> = c.idxs.iter().map(|i| c.all[*i]).collect();
	let Some(u) = gen::build(c.base, &devs) else {
		acc.invalid_combinations += 1;
		return;
	};
	judge(ctx, acc, &u, &|| c.describe(&u), c.idxs.len());
}

fn judge(ctx: &Ctx, acc: &mut Acc, u: &Universe, describe: &dyn Fn() -> String, level: usize) {
	let primary = match oracle::resolve(u, TOLERANCES[0]) {
		Ok(r) => r,
		Err(e) => vcore::machinery_fail(&format!("the generator produced a universe the reference cannot resolve ({e:?}):\n{}", describe())),
	};
	acc.st.eval();
	acc.facts(&primary.facts, primary.list.len());
	let f = &primary.facts;
	let fills: u32 = f.version_fills.iter().sum::<u32>() + f.scope_fills.iter().sum::<u32>();
	let cuts: u32 = f.optional_cuts + (0..5).map(|i| f.cells[i][2] + f.cells[i][3] + f.cells[i][4]).sum::<u32>();
	let nontrivial = f.nearer_won + f.ties + f.duplicates + fills + cuts > 0;
	if nontrivial {
		acc.st.distinct.add(u);
	}
	let class = if f.nearer_won + f.ties > 0 {
		"version-conflict-mediated"
	} else if f.duplicates > 0 {
		"duplicate-dropped"
	} else if cuts > 0 {
		"cut-only"
	} else if fills > 0 {
		"management-only"
	} else {
		"plain"
	};
	let with_text = |extra: String| format!("{}expected (reference):\n{}{}", describe(), show_list(&primary.list), extra);

	let real = match run_real(u) {
		Err(p) => {
			acc.st.outcome("panic");
			ctx.diff(&format!("panic@{}", p.file()), &format!("resolver panicked at {}: {}", p.site, p.msg), || with_text(String::new()));
			return;
		},
		Ok(r) => r,
	};
	let empty_element = u.files.iter().any(|(_, p)| matches!(p.render, model::Render::EmptyDeps | model::Render::EmptyDmDeps));
	match real {
		Err(msg) => {
			// every generated universe is valid: a refusal is a difference
			let deviant_refuses = TOLERANCES.iter().any(|t| matches!(oracle::resolve(u, Sem { parent_context: true, ..*t }), Err(Fail::NoVersion(_))));
			let key = if empty_element && msg.contains("missing field `dependency`") {
				"xml:empty-dependencies-element-refused"
			} else if deviant_refuses && msg.contains("no dependency found matching") {
				"inherit:child-management-not-applied-to-inherited-dependency"
			} else {
				"resolve:valid-universe-refused"
			};
			acc.st.outcome(&format!("refused:{key}"));
			ctx.diff(key, &format!("a valid universe was refused: {msg}"), || with_text(format!("actual: error: {msg}\n")));
		},
		Ok(out) => {
			acc.roundtrips += out.roundtrips;
			for (key, what) in &out.roundtrip_failures {
				ctx.diff(key, what, || with_text(String::new()));
			}
			if out.foreign_group {
				ctx.diff("resolve:foreign-group", "a result carries a group that occurs nowhere in the universe", || with_text(format!("actual:\n{}", show_list(&out.list))));
			}
			let mut accepted = None;
			if out.list == primary.list {
				accepted = Some(0);
			} else {
				for (i, t) in TOLERANCES.iter().enumerate().skip(1) {
					if oracle::resolve(u, *t).map(|r| r.list == out.list).unwrap_or(false) {
						accepted = Some(i);
						break;
					}
				}
			}
			match accepted {
				Some(0) => {
					acc.st.outcome(&format!("agree:{class}"));
					let tag = format!("{class}/{level}");
					acc.st.sample(&tag, || json!({
						"kind": "universe",
						"class": class,
						"deviations": level,
						"roots": u.roots.iter().map(|r| format!("{}:{}:{}{}:{} ({})", GROUP, r.artifact, r.type_, r.classifier.as_deref().map(|c| format!(":{c}")).unwrap_or_default(), r.version, r.scope.name())).collect::<Vec<_>>(),
						"files": u.served(),
						"resolved": out.list.iter().map(Found::show).collect::<Vec<_>>(),
					}));
				},
				Some(i) => {
					let t = TOLERANCES[i];
					acc.st.outcome(&format!("agree-within-tolerance:{}{}", if t.inherited_first { "inherited-dependencies-first;" } else { "" }, if t.system_as_provided { "below-system-reported-as-provided;" } else { "" }));
				},
				None => {
					let deviant = TOLERANCES.iter().any(|t| oracle::resolve(u, Sem { parent_context: true, ..*t }).map(|r| r.list == out.list).unwrap_or(false));
					let kind = difference_kind(&primary.list, &out.list);
					let key = if deviant { "inherit:child-management-not-applied-to-inherited-dependency".to_owned() } else { format!("resolve:{kind}") };
					acc.st.outcome(&format!("differ:{key}"));
					ctx.diff(&key, &format!("resolved list differs from the documented rules ({kind})"), || with_text(format!("actual:\n{}", show_list(&out.list))));
				},
			}
		},
	}
}

// ---------------------------------------------------------------------------------------------
// families, levels

fn family_bases(name: &str) -> Vec<Base> {
	let lists = |n: usize, lens: std::ops::RangeInclusive<usize>| -> Vec<Base> {
		gen::root_lists(n, *lens.end()).into_iter().filter(|l| lens.contains(&l.len())).flat_map(|l| gen::bases(n, &l)).collect()
	};
	match name {
		// one root a:1, every graph over four artifacts
		"F4" => gen::bases(4, &[(0, 1)]),
		// one root a:1, every graph over three artifacts
		"F3" => gen::bases(3, &[(0, 1)]),
		// every root list of one or two roots, every graph over three artifacts
		"R3" => lists(3, 1..=2),
		// every root list of three roots over three artifacts
		"R3x3" => lists(3, 3..=3),
		// every root list of exactly two roots over four artifacts
		"R4x2" => lists(4, 2..=2),
		_ => vcore::machinery_fail(&format!("unknown family {name:?}")),
	}
}

struct Plan {
	family: &'static str,
	level: usize,
	max_rank: u8,
}

fn plans(tier: vcore::Tier) -> Vec<Plan> {
	let mut v = vec![
		Plan { family: "F4", level: 0, max_rank: 0 },
		Plan { family: "R3", level: 0, max_rank: 0 },
		Plan { family: "R3x3", level: 0, max_rank: 0 },
		Plan { family: "R4x2", level: 0, max_rank: 0 },
		Plan { family: "F4", level: 1, max_rank: 2 },
		Plan { family: "R3", level: 1, max_rank: 0 },
		Plan { family: "F3", level: 2, max_rank: 2 },
	];
	if tier == vcore::Tier::Thorough {
		v.extend([
			Plan { family: "R3", level: 1, max_rank: 2 },
			Plan { family: "R4x2", level: 1, max_rank: 0 },
			Plan { family: "F4", level: 2, max_rank: 0 },
			Plan { family: "R3", level: 2, max_rank: 0 },
			Plan { family: "F3", level: 3, max_rank: 0 },
		]);
	}
	v
}

/// every k-subset (increasing indices) of the deviations of rank ≤ max_rank that starts with `first`
fn for_each_combo(all: &[Dev], max_rank: u8, level: usize, first: Option<usize>, f: &mut dyn FnMut(&[usize])) {
	let Some(first) = first else {
		f(&[]);
		return;
	};
	fn rec(all: &[Dev], max_rank: u8, left: usize, cur: &mut Vec<usize>, f: &mut dyn FnMut(&[usize])) {
		if left == 0 {
			f(cur);
			return;
		}
		let start = cur.last().map(|l| l + 1).unwrap_or(0);
		for i in start..all.len() {
			if all[i].rank > max_rank {
				continue;
			}
			// two values of one attribute of one site are never combined
			if cur.iter().any(|c| all[*c].site == all[i].site && all[*c].attr == all[i].attr) {
				continue;
			}
			cur.push(i);
			rec(all, max_rank, left - 1, cur, f);
			cur.pop();
		}
	}
	let mut cur = vec![first];
	rec(all, max_rank, level - 1, &mut cur, f);
}

fn run_plan(ctx: &'static Ctx, plan: &Plan) -> (Acc, u64) {
	let bases = family_bases(plan.family);
	let devs: Vec<Vec<Dev>> = bases.iter().map(gen::all_devs).collect();
	let mut items: Vec<(usize, Option<usize>)> = Vec::new();
	for (bi, d) in devs.iter().enumerate() {
		if plan.level == 0 {
			items.push((bi, None));
		} else {
			for (i, dev) in d.iter().enumerate() {
				if dev.rank <= plan.max_rank {
					items.push((bi, Some(i)));
				}
			}
		}
	}
	let n_bases = bases.len() as u64;
	let acc = items.into_par_iter().fold(Acc::new, |mut acc, (bi, first)| {
		vcore::watched(|| format!("case={}/{}/{:?} (level {})", plan.family, bi, first, plan.level), || {
			for_each_combo(&devs[bi], plan.max_rank, plan.level, first, &mut |idxs| {
				run_case(ctx, &mut acc, &CaseId { family: plan.family, base_idx: bi, base: &bases[bi], all: &devs[bi], idxs });
			});
		});
		acc
	}).reduce(Acc::new, Acc::merge);
	(acc, n_bases)
}

// ---------------------------------------------------------------------------------------------
// outside the statement's domain: a POM that no repository serves. Only "no panic, no hang" is asked.

fn run_missing(ctx: &Ctx, acc: &mut Acc, family: &str, bi: usize, base: &Base, k: usize) {
	let Some(mut u) = gen::build(base, &[]) else { return };
	if k >= u.files.len() {
		return;
	}
	let gone = u.files.remove(k);
	acc.st.eval();
	match run_real(&u) {
		Err(p) => ctx.diff(&format!("missing-pom:panic@{}", p.file()), &format!("resolver panicked at {}: {}", p.site, p.msg), || format!("case={family}/{bi}/\nmissing={k}\nremoved file: {}:{}\nbase: {}\n{}", gone.1.artifact, gone.1.version, base.show(), u.describe())),
		Ok(Err(_)) => acc.st.outcome("missing-pom:refused"),
		Ok(Ok(_)) => acc.st.outcome("missing-pom:not-needed-or-ignored"),
	}
}

fn missing_sweep(ctx: &'static Ctx, family: &'static str) -> Acc {
	let bases = family_bases(family);
	(0..bases.len()).into_par_iter().fold(Acc::new, |mut acc, bi| {
		vcore::watched(|| format!("case={family}/{bi}/ missing=*"), || {
			for k in 0..bases[bi].n * 2 {
				run_missing(ctx, &mut acc, family, bi, &bases[bi], k);
			}
		});
		acc
	}).reduce(Acc::new, Acc::merge)
}

// ---------------------------------------------------------------------------------------------
// round trips over a product of field values

fn roundtrip_sweep(ctx: &Ctx) -> (u64, u64) {
	let groups = ["o.g", "g", "org.example.deep"];
	let artifacts = ["a", "a-b", "a_b.c"];
	let versions = ["1", "1.0", "1.0-SNAPSHOT", "2.0.1-20230713.025619-1", "v"];
	let classifiers = [None, Some("k"), Some("sources"), Some("natives-linux")];
	let types = ["jar", "ejb", "pom", "test-jar", "zip"];
	let urls = ["mem://one.invalid/repo", "https://two.invalid:8080/maven/"];
	let mut n = 0u64;
	let mut values = 0u64;
	for g in groups {
		for a in artifacts {
			for v in versions {
				for c in classifiers {
					for t in types {
						let coord = MavenCoord { group: g.to_owned(), artifact: a.to_owned(), version: v.to_owned(), classifier: c.map(str::to_owned), type_: t.to_owned() };
						for s in SCOPES {
							for url in urls {
								let f = FoundDependency { resolver: Resolver::new("name", url), coord: coord.clone(), scope: real_scope(s) };
								let mut fails = Vec::new();
								match vcore::guard(|| roundtrip_found(&f, &mut fails)) {
									Ok(k) => n += k,
									Err(p) => ctx.diff(&format!("roundtrip:panic@{}", p.file()), &format!("printing or parsing panicked at {}: {}", p.site, p.msg), || format!("roundtrip={f:?}")),
								}
								for (key, what) in fails {
									ctx.diff(key, &what, || format!("roundtrip={f:?}"));
								}
								values += 1;
							}
						}
						// the short forms documented for MavenCoord: type and classifier may be left out
						if c.is_none() {
							let short = if t == "jar" { format!("{g}:{a}:{v}") } else { format!("{g}:{a}:{t}:{v}") };
							match vcore::guard(|| MavenCoord::from_str(&short)) {
								Ok(Ok(back)) if back == coord => {},
								Ok(other) => ctx.diff("roundtrip:coord-short-form", &format!("{short:?} parsed as {other:?}"), || format!("roundtrip={coord:?}")),
								Err(p) => ctx.diff(&format!("roundtrip:panic@{}", p.file()), &p.msg, || format!("roundtrip={coord:?}")),
							}
							n += 1;
						}
					}
				}
			}
		}
	}
	(n, values)
}

// ---------------------------------------------------------------------------------------------

fn main() {
	let ctx: &'static Ctx = Box::leak(Box::new(Ctx::new("C19", "exploration")));
	if let Some(path) = ctx.replay.clone() {
		replay(ctx, &path);
	}
	vcore::set_case_budget_ms(180_000);
	let mut total = Acc::new();
	let mut per_plan: Vec<Value> = Vec::new();
	for plan in plans(ctx.tier) {
		let t0 = ctx.elapsed_s();
		let (acc, n_bases) = run_plan(ctx, &plan);
		per_plan.push(json!({
			"family": plan.family,
			"deviations": plan.level,
			"alphabet_rank": plan.max_rank,
			"bases": n_bases,
			"cases": acc.st.evaluations,
			"combinations_without_meaning_skipped": acc.invalid_combinations,
			"wall_s": ((ctx.elapsed_s() - t0) * 100.0).round() / 100.0,
		}));
		total = total.merge(acc);
	}
	let missing = missing_sweep(ctx, "F4");
	let missing_cases = missing.st.evaluations;
	let missing_outcomes = missing.st.outcomes.clone();
	let (rt_calls, rt_values) = roundtrip_sweep(ctx);

	let agree: u64 = total.st.outcomes.iter().filter(|(k, _)| k.starts_with("agree")).map(|(_, v)| *v).sum();
	ctx.floor("universes where the nearer of two versions was chosen", ctx.tier.pick(20_000, 100_000), total.cases_with_nearer);
	ctx.floor("universes with a tie decided by declaration order", 1_000, total.cases_with_tie);
	ctx.floor("universes where a discarded subtree would have contributed an artifact", 1_000, total.cases_with_discarded_contribution);
	for l in SCOPES {
		for t in SCOPES {
			ctx.floor(&format!("scope table cell dependent={} dependency={}", l.name(), t.name()), 1, total.cells[l.idx()][t.idx()]);
		}
	}
	let names = ["own pom", "parent", "imported bom"];
	for i in 0..3 {
		ctx.floor(&format!("versions filled in from the management of: {}", names[i]), 100, total.version_fills[i]);
		ctx.floor(&format!("scopes filled in from the management of: {}", names[i]), 10, total.scope_fills[i]);
	}
	ctx.floor("optional dependencies cut", 100, total.optional_cuts);
	ctx.floor("results served by the second repository", 100, total.second_repo_results);
	ctx.floor("results with classifier or non-default type", 100, total.classifier_or_type_results);
	ctx.floor("universes on which real resolver and reference agree", total.st.evaluations / 2, agree);
	ctx.floor("round trips of values returned by the resolver", 10_000, total.roundtrips);

	let cells: BTreeMap<String, u64> = SCOPES.iter().flat_map(|l| SCOPES.iter().map(move |t| (format!("{}<-{}", l.name(), t.name()), 0u64))).map(|(k, _)| k).zip(total.cells.iter().flatten().copied()).collect();
	let coverage = json!({
		"evaluations": total.st.evaluations + missing_cases + rt_calls + total.roundtrips,
		"missing_pom_sweep": {"cases": missing_cases, "outcomes": missing_outcomes, "rule": "every F4 base with each one of its 8 POM files removed in turn; outside the statement's domain, only panics and hangs are differences"},
		"resolutions": total.st.evaluations,
		"roundtrip_calls": rt_calls + total.roundtrips,
		"roundtrip_sweep_values": rt_values,
		"distinct_nontrivial": total.st.distinct.len(),
		"rule": "one evaluation = one call of the real get_maven_dependencies on a generated universe served as POM XML through the Downloader trait (or one Display→parse round trip of a real value). distinct_nontrivial = distinct universes (files + roots) in which the reference saw at least one mediation loser, cut (optional / non-transitive scope) or management fill-in",
		"exhaustive": true,
		"samples": total.st.samples,
		"outcomes": total.st.outcomes,
		"plans": per_plan,
		"scope_table_cells": cells,
		"max_result_length": total.max_result_len,
		"bounds": {
			"artifacts": "a<b<c<d in group o.g (families F4/R4x2) or a<b<c (F3/R3/R3x3), versions {1,2}; dependencies only on later artifacts, at most 2 ordered dependencies per POM on distinct artifacts",
			"families": {
				"F4": "root list [a:1], every graph over 4 artifacts (POMs unreachable from the roots stay empty)",
				"F3": "root list [a:1], every graph over 3 artifacts",
				"R3": "every root list of 1 or 2 roots on distinct artifacts × every graph over 3 artifacts",
				"R3x3": "every root list of 3 roots × every graph over 3 artifacts",
				"R4x2": "every root list of exactly 2 roots × every graph over 4 artifacts",
			},
			"deviation_alphabet": {
				"per dependency": "scope ∈ {compile (explicit), runtime, provided, test, system}; optional ∈ {true, false}; classifier k; type ∈ {ejb, jar (explicit)}; 14 management layouts (version omitted + managed in own POM / parent / imported BOM / grandparent / BOM of the parent / BOM of the BOM / parent of the BOM; own over BOM, own over parent, first BOM over second BOM, parent over grandparent with the other version in the lower place; version given while own/parent/BOM manage the other version); managed scope ∈ {compile, runtime, provided, test}",
				"per POM": "groupId from parent; version from parent; parent declares one more dependency (every later artifact × version not declared by the child) in 8 modes (plain; version managed by the parent; by the parent but the child manages another version; only by the child; scope managed by the child; runtime; optional; declared by the grandparent); served by the second repository only / by both with different content in the second / parents and BOMs in the second; 6 XML renderings (unrelated elements and namespaces, reversed element order, indentation and comments, empty <dependencies/>, empty <dependencyManagement/>, empty managed <dependencies/>)",
				"roots": "scope ∈ {runtime, provided, test, system}; classifier; type ejb; a second root (every other artifact × version) before or after",
				"rank": "alphabet_rank 0 = core values only (scope runtime/test, optional true, classifier, type ejb, the 4 basic management layouts, managed scope runtime/test, groupId from parent, parent dependency and its 4 management modes, repository modes, empty <dependencies/>, root scope runtime/test, second root); 2 = everything",
			},
			"tolerances": [
				"dependencies inherited from a parent may be listed before or after the child's own ones (the documentation does not say; Maven itself lists the child's first)",
				"what hangs below a root of scope system may be reported with scope system or provided (system is not in the scope table; 'similar to provided')",
				"a transitive dependency of scope system is expected to be cut like provided",
				"the scope of a mediation winner is the scope of the winning occurrence (the statement does not ask for Maven's widening of scopes across occurrences)",
			],
			"outside": "property interpolation, version ranges, exclusions, profiles, imports declared before managed entries, a child re-declaring a parent's dependency, optional in dependencyManagement, conflicting management between a parent's entry and a child's import, missing POMs, cycles",
		},
	});
	ctx.finish(coverage, &[
		"every future of the resolver is ready at first poll (checked: a Pending future aborts the run)",
		"serde-xml-rs 0.6.0 (the version the application uses) binds the POM text to MavenPom inside the in-memory Downloader",
		"the reference resolver in c19/oracle.rs is the independent reading of the Maven documentation",
	]);
}

fn replay(ctx: &'static Ctx, path: &std::path::Path) -> ! {
	let body = vcore::replay_body(path);
	let mut acc = Acc::new();
	if let Some(line) = body.lines().find(|l| l.starts_with("case=")) {
		let id = line["case=".len()..].trim();
		if let Some(m) = body.lines().find(|l| l.starts_with("missing=")) {
			let parts: Vec<&str> = id.split('/').collect();
			let bases = family_bases(parts[0]);
			let bi: usize = parts.get(1).and_then(|s| s.parse().ok()).unwrap_or_else(|| vcore::machinery_fail("bad base index"));
			let k: usize = m["missing=".len()..].trim().parse().unwrap_or_else(|_| vcore::machinery_fail("bad file index"));
			let base = bases.get(bi).unwrap_or_else(|| vcore::machinery_fail("base index out of range"));
			run_missing(ctx, &mut acc, parts[0], bi, base, k);
			ctx.finish(json!({"evaluations": 1, "distinct_nontrivial": 1, "rule": "replay", "samples": ["replay"], "exhaustive": false, "outcomes": acc.st.outcomes}), &[]);
		}
		let parts: Vec<&str> = id.split('/').collect();
		if parts.len() != 3 {
			vcore::machinery_fail("bad case id in replay");
		}
		let bases = family_bases(parts[0]);
		let bi: usize = parts[1].parse().unwrap_or_else(|_| vcore::machinery_fail("bad base index"));
		let base = bases.get(bi).unwrap_or_else(|| vcore::machinery_fail("base index out of range"));
		let all = gen::all_devs(base);
		let idxs: Vec<usize> = parts[2].split('.').filter(|s| !s.is_empty()).map(|s| s.parse().unwrap_or_else(|_| vcore::machinery_fail("bad deviation index"))).collect();
		if idxs.iter().any(|i| *i >= all.len()) {
			vcore::machinery_fail("deviation index out of range");
		}
		let case = CaseId { family: parts[0], base_idx: bi, base, all: &all, idxs: &idxs };
		let devs: Vec<Dev> = idxs.iter().map(|i| all[*i]).collect();
		let u = gen::build(base, &devs).unwrap_or_else(|| vcore::machinery_fail("the replayed combination has no meaning"));
		println!("{}", case.describe(&u));
		let a = run_real(&u).map(|r| r.map(|o| o.list));
		let b = run_real(&u).map(|r| r.map(|o| o.list));
		if a != b {
			vcore::machinery_fail("replay is not deterministic");
		}
		println!("reference:\n{}", oracle::resolve(&u, TOLERANCES[0]).map(|r| show_list(&r.list)).unwrap_or_else(|e| format!("  {e:?}\n")));
		match &a {
			Ok(Ok(l)) => println!("real:\n{}", show_list(l)),
			other => println!("real: {other:?}"),
		}
		run_case(ctx, &mut acc, &case);
	} else if body.starts_with("roundtrip=") {
		roundtrip_sweep(ctx);
	} else {
		vcore::machinery_fail("replay file has no case= line");
	}
	ctx.finish(json!({"evaluations": acc.st.evaluations.max(1), "distinct_nontrivial": 1, "rule": "replay", "samples": ["replay"], "exhaustive": false, "outcomes": acc.st.outcomes}), &[]);
}
