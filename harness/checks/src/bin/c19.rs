use maven_dependency_resolver::maven_pom::MavenPom;

fn main() {
	let cases = [
		"<project><modelVersion>4.0.0</modelVersion><groupId>g</groupId><artifactId>a</artifactId><version>1</version><dependencies/></project>",
		"<project><modelVersion>4.0.0</modelVersion><groupId>g</groupId><artifactId>a</artifactId><version>1</version><dependencies></dependencies></project>",
		"<project><modelVersion>4.0.0</modelVersion><groupId>g</groupId><artifactId>a</artifactId><version>1</version><dependencyManagement/></project>",
		"<project><modelVersion>4.0.0</modelVersion><groupId>g</groupId><artifactId>a</artifactId><version>1</version><dependencyManagement><dependencies/></dependencyManagement></project>",
		"<?xml version=\"1.0\" encoding=\"UTF-8\"?>\n<project xmlns=\"http://maven.apache.org/POM/4.0.0\" xmlns:xsi=\"http://www.w3.org/2001/XMLSchema-instance\" xsi:schemaLocation=\"http://maven.apache.org/POM/4.0.0 http://maven.apache.org/xsd/maven-4.0.0.xsd\"><modelVersion>4.0.0</modelVersion><name>x</name><licenses><license><name>MIT</name></license></licenses><groupId>g</groupId><artifactId>a</artifactId><version>1</version><dependencies><dependency><groupId>g</groupId><artifactId>b</artifactId><version>1</version><optional>true</optional><scope>test</scope><exclusions><exclusion><groupId>x</groupId><artifactId>y</artifactId></exclusion></exclusions></dependency></dependencies></project>",
		"<project><modelVersion>4.0.0</modelVersion><artifactId>a</artifactId><dependencies><dependency><artifactId>b</artifactId><groupId>g</groupId></dependency></dependencies><version>1</version><parent><version>1</version><groupId>g</groupId><artifactId>p</artifactId></parent></project>",
		"<project><modelVersion>4.0.0</modelVersion><groupId>g</groupId><artifactId>a</artifactId><version>1</version><dependencies><dependency><groupId>g</groupId><artifactId>b</artifactId><version>1</version></dependency></dependencies><name>n</name><dependencies><dependency><groupId>g</groupId><artifactId>c</artifactId><version>1</version></dependency></dependencies></project>",
		"<project><modelVersion>4.0.0</modelVersion><groupId>g</groupId><artifactId>a</artifactId><version>1</version><dependencies><dependency><groupId>g</groupId><artifactId>b</artifactId><version>1</version><scope>import</scope></dependency></dependencies></project>",
		"<project>\n  <modelVersion>4.0.0</modelVersion>\n  <groupId>g</groupId>\n  <artifactId>a</artifactId>\n  <version>1</version>\n  <dependencies>\n    <dependency>\n      <groupId>g</groupId>\n      <artifactId>b</artifactId>\n      <version>1</version>\n      <optional> true </optional>\n    </dependency>\n  </dependencies>\n</project>",
	];
	for c in cases {
		let r: Result<MavenPom, _> = serde_xml_rs::from_str(c);
		println!("{:?}\n", r);
	}
}
