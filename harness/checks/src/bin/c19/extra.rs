//! The spaces beside the deviation-bounded one: name alphabets, long chains and wide lists, inputs the
//! resolver has to refuse. Nothing in here knows anything about resolution.

use crate::model::*;

// ---------------------------------------------------------------------------------------------
// namings

pub const CHARS: [(&str, char); 3] = [("2-byte", 'é'), ("3-byte", '€'), ("4-byte", '𝄞')];
const POSITIONS: [&str; 3] = ["first", "middle", "last"];

fn place(base: &str, ch: char, pos: usize) -> String {
	match pos {
		0 => format!("{ch}{base}"),
		1 => format!("{base}{ch}{base}"),
		_ => format!("{base}{ch}"),
	}
}

/// versions as repositories really hold them: snapshots, timestamped snapshot builds (stored in the directory of
/// their base version) and near misses of the timestamp pattern (stored under their own name)
const VERSION_PAIRS: [(&str, &str, &str); 10] = [
	("snapshots", "1.0-SNAPSHOT", "2.0-SNAPSHOT"),
	("two-builds-of-one-snapshot", "1.0-20230713.025619-1", "1.0-20230713.025619-28"),
	("snapshot-and-its-build", "1.0-SNAPSHOT", "1.0-20230713.025619-1"),
	("build-of-a-qualified-version", "1.0-rc-1-20230713.025619-3", "1.0-rc-1"),
	("near-miss:date-and-time-widths", "1.0-2023071.3025619-1", "1.0-202307130.25619-1"),
	("near-miss:build-number", "1.0-20230713.025619-", "1.0-20230713.025619-1x"),
	("near-miss:non-ascii-digits", "1.0-202307٣.025619-1", "1.0-20230713.0256٣-1"),
	("near-miss:separators", "1.0-20230713-025619-1", "1.0-20230713.025619.1"),
	("near-miss:no-base", "20230713.025619-1", "1.0.20230713.025619-1"),
	("dotted", "1.0", "1.0.1"),
];

/// every naming of the alphabet for universes over `n` artifacts
pub fn namings(n: usize) -> Vec<Naming> {
	let mut out = Vec::new();
	let id = Naming::identity;
	let arts = ["a", "b", "c", "d"];
	let mut m = id("deep-group");
	for a in &mut m.arts {
		a.0 = "org.example.deep".to_owned();
	}
	out.push(m);
	let mut m = id("group-per-artifact");
	for (i, a) in m.arts.iter_mut().enumerate() {
		a.0 = format!("o.{}", arts[i]);
	}
	out.push(m);
	for i in 0..n {
		for j in i + 1..n {
			// one artifactId in two groups: two artifacts
			let mut m = id(&format!("same-artifactId-in-two-groups:{}{}", arts[i], arts[j]));
			m.arts[i] = ("o.g".to_owned(), "x".to_owned());
			m.arts[j] = ("o.h".to_owned(), "x".to_owned());
			out.push(m);
			// group and artifactId that read the same when written one after the other
			let mut m = id(&format!("group+artifactId-concatenate-alike:{}{}", arts[i], arts[j]));
			m.arts[i] = ("o.g".to_owned(), "xy".to_owned());
			m.arts[j] = ("o.gx".to_owned(), "y".to_owned());
			out.push(m);
		}
	}
	for (label, v) in [("artifactId+version-concatenate-alike:1,11", ["1", "11"]), ("artifactId+version-concatenate-alike:11,1", ["11", "1"])] {
		let mut m = id(label);
		m.arts[1].1 = "x1".to_owned();
		m.arts[2].1 = "x".to_owned();
		m.versions = [v[0].to_owned(), v[1].to_owned()];
		out.push(m);
	}
	let mut m = id("parents-and-boms-in-another-group");
	m.aux_group_suffix = Some(".parents".to_owned());
	out.push(m);
	let mut m = id("parents-and-boms-in-another-group,group-per-artifact");
	m.aux_group_suffix = Some(".parents".to_owned());
	for (i, a) in m.arts.iter_mut().enumerate() {
		a.0 = format!("o.{}", arts[i]);
	}
	out.push(m);
	let mut m = id("punctuated-ids");
	for (i, v) in ["a-b", "a_b.c", "a-b-c", "a.b"].iter().enumerate() {
		m.arts[i].1 = (*v).to_owned();
	}
	m.classifier = "natives-linux".to_owned();
	out.push(m);
	for (cl, ch) in CHARS {
		for (pi, pos) in POSITIONS.iter().enumerate() {
			let mut m = id(&format!("{cl}-character-{pos}-in-group"));
			for a in &mut m.arts {
				a.0 = format!("o.{}", place("g", ch, pi));
			}
			out.push(m);
			let mut m = id(&format!("{cl}-character-{pos}-in-artifactId"));
			for (i, a) in m.arts.iter_mut().enumerate() {
				a.1 = place(arts[i], ch, pi);
			}
			out.push(m);
			let mut m = id(&format!("{cl}-character-{pos}-in-version"));
			m.versions = [place("1", ch, pi), place("2", ch, pi)];
			out.push(m);
			let mut m = id(&format!("{cl}-character-{pos}-in-classifier"));
			m.classifier = place("k", ch, pi);
			out.push(m);
		}
	}
	for (cl, ch) in CHARS {
		let mut m = id(&format!("repository-urls-end-in-a-{cl}-character"));
		m.repo_tail = Some(format!("d{ch}"));
		out.push(m);
	}
	for (label, v1, v2) in VERSION_PAIRS {
		let mut m = id(&format!("versions:{label}"));
		m.versions = [v1.to_owned(), v2.to_owned()];
		out.push(m);
	}
	out
}

/// one naming per (character width, position) that puts the character into every field at once
pub fn namings_all_fields() -> Vec<Naming> {
	let arts = ["a", "b", "c", "d"];
	let mut out = vec![Naming::identity("plain")];
	for (cl, ch) in CHARS {
		for (pi, pos) in POSITIONS.iter().enumerate() {
			let mut m = Naming::identity(&format!("{cl}-character-{pos}-in-every-field"));
			for (i, a) in m.arts.iter_mut().enumerate() {
				a.0 = format!("o.{}", place("g", ch, pi));
				a.1 = place(arts[i], ch, pi);
			}
			m.versions = [place("1", ch, pi), place("2", ch, pi)];
			m.classifier = place("k", ch, pi);
			out.push(m);
		}
	}
	out
}

pub const LONG_FIELDS: [&str; 4] = ["group", "artifactId", "version", "classifier"];
pub const LONG_LAST: [char; 4] = ['z', 'é', '€', '𝄞'];

/// `len` ASCII characters and then one character of 1/2/3/4 bytes in one field
pub fn long_naming(field: usize, len: usize, last: usize) -> Naming {
	let text = format!("{}{}", "x".repeat(len), LONG_LAST[last]);
	let mut m = Naming::identity(&format!("{}-of-{len}-ascii-characters-and-one-of-{}-bytes", LONG_FIELDS[field], LONG_LAST[last].len_utf8()));
	let arts = ["a", "b", "c", "d"];
	match field {
		0 => {
			for a in &mut m.arts {
				a.0 = format!("o.{text}");
			}
		},
		1 => {
			for (i, a) in m.arts.iter_mut().enumerate() {
				a.1 = format!("{}{text}", arts[i]);
			}
		},
		2 => m.versions = [format!("1{text}"), format!("2{text}")],
		_ => m.classifier = text,
	}
	m
}

// ---------------------------------------------------------------------------------------------
// small hand-built universes

fn pom(artifact: &str, version: &str) -> Pom {
	Pom {
		group: GROUP.to_owned(),
		artifact: artifact.to_owned(),
		version: version.to_owned(),
		write_group: true,
		write_version: true,
		parent: None,
		packaging: None,
		model_version: "4.0.0".to_owned(),
		dm: vec![],
		deps: vec![],
		render: Render::Compact,
	}
}

fn dep(artifact: &str, version: Option<&str>) -> DepDecl {
	DepDecl { group: GROUP.to_owned(), artifact: artifact.to_owned(), version: version.map(str::to_owned), scope: None, optional: None, classifier: None, type_: None }
}

fn entry(artifact: &str, version: &str) -> MgDecl {
	MgDecl { group: GROUP.to_owned(), artifact: artifact.to_owned(), version: version.to_owned(), scope: None, classifier: None, type_: None, import: false }
}

fn import(artifact: &str, version: &str) -> MgDecl {
	MgDecl { import: true, ..entry(artifact, version) }
}

fn root(artifact: &str, version: &str) -> RootDecl {
	RootDecl { group: GROUP.to_owned(), artifact: artifact.to_owned(), version: version.to_owned(), classifier: None, type_: "jar".to_owned(), scope: Sc::Compile }
}

fn repos() -> Vec<(String, String)> {
	vec![
		("first".to_owned(), "mem://one.invalid/repo".to_owned()),
		("second".to_owned(), "mem://two.invalid/maven/".to_owned()),
		("third".to_owned(), "mem://three.invalid".to_owned()),
	]
}

/// The universe of the length sweep: a:1 depends on b with classifier k, version and scope managed by a itself;
/// b:1 takes its group from a parent and depends on c:2.
pub fn tiny() -> Universe {
	let mut a = pom("a", "1");
	a.dm.push(MgDecl { classifier: Some("k".to_owned()), scope: Some(Sc::Runtime), ..entry("b", "1") });
	a.deps.push(DepDecl { classifier: Some("k".to_owned()), ..dep("b", None) });
	let mut b = pom("b", "1");
	b.parent = Some((GROUP.to_owned(), "b-parent".to_owned(), "1".to_owned()));
	b.write_group = false;
	b.deps.push(dep("c", Some("2")));
	let mut bp = pom("b-parent", "1");
	bp.packaging = Some("pom".to_owned());
	let c = pom("c", "2");
	Universe { repos: repos(), files: vec![(0, a), (1, b), (0, bp), (2, c)], roots: vec![root("a", "1")] }
}

// ---------------------------------------------------------------------------------------------
// long chains and wide lists: one universe per (shape, size, variant)

pub const DEEP_SHAPES: [(&str, usize); 6] = [
	("chain-of-dependencies", 2),
	("two-chains-ending-in-rival-versions", 3),
	("chain-of-parents", 3),
	("chain-of-bom-imports", 2),
	("pom-with-many-dependencies", 3),
	("many-roots", 2),
];

pub fn describe_deep(shape: usize, k: usize, variant: usize) -> String {
	let what = match (shape, variant) {
		(0, 0) => "n0 → n1 → … → nk, all compile, the POM of ni served by repository i mod 3".to_owned(),
		(0, _) => "n0 → n1 → … → nk, the edge in the middle has scope runtime".to_owned(),
		(1, v) => format!("root → l1 → … → lk → z:1 → w and root → r1 → … → rj → z:2 → v with j = k{}", ["-1", "", "+1"][v]),
		(2, 0) => "x inherits group and version through k parents that all leave them out except the top one, which manages y (version, scope runtime) and declares w".to_owned(),
		(2, 1) => "x below k parents that spell out group and version; the top one manages y and declares w".to_owned(),
		(2, _) => "x below k parents; the top one manages y=1, the nearest one manages y=2".to_owned(),
		(3, 0) => "x imports b1, bi imports b(i+1), bk manages y".to_owned(),
		(3, _) => "x imports b1, bi manages qi and then imports b(i+1), bk manages y".to_owned(),
		(4, 0) => "x depends on d1 … dk with versions".to_owned(),
		(4, 1) => "x depends on d1 … dk without versions; x manages dk … d1 (in that order)".to_owned(),
		(4, _) => "x depends on d1 … dk without versions; x imports bom1 … bomk, bomi manages di, and every bomi but the first manages d1=2".to_owned(),
		(5, 0) => "roots r1 … rk, ri → z (version 1 below r1, 2 below the others)".to_owned(),
		_ => "the root r:1 listed k times".to_owned(),
	};
	format!("{} of size k={k}: {what}", DEEP_SHAPES[shape].0)
}

pub fn deep(shape: usize, k: usize, variant: usize) -> Option<Universe> {
	if k == 0 || shape >= DEEP_SHAPES.len() || variant >= DEEP_SHAPES[shape].1 {
		return None;
	}
	let mut files: Vec<(usize, Pom)> = Vec::new();
	let mut roots = Vec::new();
	match shape {
		0 => {
			for i in 0..=k {
				let mut p = pom(&format!("n{i}"), "1");
				if i < k {
					let mut d = dep(&format!("n{}", i + 1), Some("1"));
					if variant == 1 && i == k / 2 {
						d.scope = Some(Sc::Runtime);
					}
					p.deps.push(d);
				}
				files.push((i % 3, p));
			}
			roots.push(root("n0", "1"));
		},
		1 => {
			let j = (k + variant).checked_sub(1).filter(|j| *j >= 1)?;
			let mut r = pom("root", "1");
			r.deps.push(dep("l1", Some("1")));
			r.deps.push(dep("r1", Some("1")));
			files.push((0, r));
			for (side, len, zv) in [("l", k, "1"), ("r", j, "2")] {
				for i in 1..=len {
					let mut p = pom(&format!("{side}{i}"), "1");
					p.deps.push(if i < len { dep(&format!("{side}{}", i + 1), Some("1")) } else { dep("z", Some(zv)) });
					files.push((0, p));
				}
			}
			let mut z1 = pom("z", "1");
			z1.deps.push(dep("w", Some("1")));
			let mut z2 = pom("z", "2");
			z2.deps.push(dep("v", Some("1")));
			files.extend([(0, z1), (0, z2), (0, pom("w", "1")), (0, pom("v", "1"))]);
			roots.push(root("root", "1"));
		},
		2 => {
			let mut x = pom("x", "1");
			x.parent = Some((GROUP.to_owned(), "p1".to_owned(), "1".to_owned()));
			x.write_group = variant != 0;
			x.write_version = variant != 0;
			x.deps.push(dep("y", None));
			files.push((0, x));
			for i in 1..=k {
				let mut p = pom(&format!("p{i}"), "1");
				p.packaging = Some("pom".to_owned());
				if i < k {
					p.parent = Some((GROUP.to_owned(), format!("p{}", i + 1), "1".to_owned()));
					p.write_group = variant != 0;
					p.write_version = variant != 0;
				}
				if i == k {
					p.dm.push(MgDecl { scope: Some(Sc::Runtime), ..entry("y", "1") });
					p.deps.push(dep("w", Some("1")));
				}
				if i == 1 && variant == 2 && k > 1 {
					p.dm.push(entry("y", "2"));
				}
				files.push((i % 2, p));
			}
			files.extend([(0, pom("y", "1")), (0, pom("y", "2")), (0, pom("w", "1"))]);
			roots.push(root("x", "1"));
		},
		3 => {
			let mut x = pom("x", "1");
			x.dm.push(import("b1", "1"));
			x.deps.push(dep("y", None));
			files.push((0, x));
			for i in 1..=k {
				let mut p = pom(&format!("b{i}"), "1");
				p.packaging = Some("pom".to_owned());
				if variant == 1 {
					p.dm.push(entry(&format!("q{i}"), "1"));
				}
				if i < k {
					p.dm.push(import(&format!("b{}", i + 1), "1"));
				} else {
					p.dm.push(entry("y", "1"));
				}
				files.push((i % 2, p));
			}
			files.push((0, pom("y", "1")));
			roots.push(root("x", "1"));
		},
		4 => {
			let mut x = pom("x", "1");
			for i in 1..=k {
				x.deps.push(dep(&format!("d{i}"), (variant == 0).then_some("1")));
				files.push((0, pom(&format!("d{i}"), "1")));
			}
			if variant == 1 {
				for i in (1..=k).rev() {
					x.dm.push(entry(&format!("d{i}"), "1"));
				}
			}
			if variant == 2 {
				for i in 1..=k {
					x.dm.push(import(&format!("bom{i}"), "1"));
					let mut b = pom(&format!("bom{i}"), "1");
					b.packaging = Some("pom".to_owned());
					b.dm.push(entry(&format!("d{i}"), "1"));
					if i > 1 {
						b.dm.push(entry("d1", "2"));
					}
					files.push((0, b));
				}
				files.push((0, pom("d1", "2")));
			}
			files.push((0, x));
			roots.push(root("x", "1"));
		},
		_ => {
			if variant == 0 {
				for i in 1..=k {
					let mut r = pom(&format!("r{i}"), "1");
					r.deps.push(dep("z", Some(if i == 1 { "1" } else { "2" })));
					files.push((0, r));
					roots.push(root(&format!("r{i}"), "1"));
				}
				files.extend([(0, pom("z", "1")), (0, pom("z", "2"))]);
			} else {
				let mut r = pom("r", "1");
				r.deps.push(dep("z", Some("1")));
				files.extend([(0, r), (0, pom("z", "1"))]);
				for _ in 0..k {
					roots.push(root("r", "1"));
				}
			}
		},
	}
	Some(Universe { repos: repos(), files, roots })
}

// ---------------------------------------------------------------------------------------------
// inputs the resolver has to refuse (or may refuse): outside the statement's domain

pub const SPOILS: [&str; 4] = [
	"a-pom-is-missing",
	"a-dependency-loses-its-version",
	"a-pom-has-another-model-version",
	"a-parent-or-bom-has-no-pom-packaging",
];

/// the `k`-th way of spoiling the universe in the given manner; `None` when there are fewer
pub fn spoil(u: &Universe, how: usize, k: usize) -> Option<Universe> {
	let mut out = u.clone();
	match how {
		0 => {
			if k >= out.files.len() {
				return None;
			}
			out.files.remove(k);
		},
		1 => {
			let d = out.files.iter_mut().flat_map(|(_, p)| p.deps.iter_mut()).filter(|d| d.version.is_some()).nth(k)?;
			d.version = None;
		},
		2 => {
			out.files.get_mut(k)?.1.model_version = "4.1.0".to_owned();
		},
		_ => {
			let p = out.files.iter_mut().map(|(_, p)| p).filter(|p| p.packaging.as_deref() == Some("pom")).nth(k)?;
			p.packaging = None;
		},
	}
	Some(out)
}
