//! Exhaustive generator: base universes (dependency graphs × versions × root lists) and the
//! deviation alphabet applied on top of them.

use std::collections::BTreeMap;
use crate::model::*;

pub const ARTS: [&str; 4] = ["a", "b", "c", "d"];

/// (artifact index, version 1|2)
pub type Av = (u8, u8);

pub fn pom_idx(av: Av) -> usize {
	av.0 as usize * 2 + (av.1 as usize - 1)
}

fn other(v: u8) -> u8 {
	3 - v
}

#[derive(Clone, Debug, PartialEq, Eq)]
pub struct Base {
	pub n: usize,
	/// false: dependencies only on later artifacts (a<b<c<d, any version). true: the POMs are ordered
	/// a1<b1<c1<(d1<)a2<b2<c2(<d2) and depend only on later POMs of other artifacts, so an artifact can
	/// hang below another version of itself (a1 → b1 → a2)
	pub vmajor: bool,
	pub roots: Vec<Av>,
	/// indexed by [`pom_idx`]: the ordered dependencies of that POM
	pub deps: Vec<Vec<Av>>,
}

impl Base {
	pub fn reachable(&self) -> Vec<bool> {
		let mut r = vec![false; self.n * 2];
		let mut stack: Vec<Av> = self.roots.clone();
		while let Some(av) = stack.pop() {
			if !std::mem::replace(&mut r[pom_idx(av)], true) {
				stack.extend(self.deps[pom_idx(av)].iter().copied());
			}
		}
		r
	}

	pub fn show(&self) -> String {
		let mut s = format!("{}roots=[{}]", if self.vmajor { "order=a1<b1<..<a2<b2<.. " } else { "" }, self.roots.iter().map(|(a, v)| format!("{}{}", ARTS[*a as usize], v)).collect::<Vec<_>>().join(","));
		for a in 0..self.n as u8 {
			for v in 1..=2u8 {
				let d = &self.deps[pom_idx((a, v))];
				if !d.is_empty() {
					s.push_str(&format!(" {}{}->[{}]", ARTS[a as usize], v, d.iter().map(|(a, v)| format!("{}{}", ARTS[*a as usize], v)).collect::<Vec<_>>().join(",")));
				}
			}
		}
		s
	}
}

/// position of a POM in the order that keeps the universe acyclic
fn position(n: usize, vmajor: bool, av: Av) -> usize {
	if vmajor { (av.1 as usize - 1) * n + av.0 as usize } else { pom_idx(av) }
}

/// the POMs the POM with index `p` may depend on
pub fn targets(n: usize, vmajor: bool, p: usize) -> Vec<Av> {
	let me: Av = ((p / 2) as u8, (p % 2) as u8 + 1);
	let mut t: Vec<Av> = (0..n as u8).flat_map(|t| [(t, 1u8), (t, 2u8)]).filter(|t| t.0 != me.0 && position(n, vmajor, *t) > position(n, vmajor, me)).collect();
	t.sort_by_key(|t| position(n, vmajor, *t));
	if !vmajor {
		t.sort();
	}
	t
}

/// every ordered list of at most `max` dependencies on distinct artifacts among `targets`
fn dep_lists(targets: &[Av], max: usize) -> Vec<Vec<Av>> {
	let mut out = vec![vec![]];
	if max >= 1 {
		for t in targets {
			out.push(vec![*t]);
		}
	}
	if max >= 2 {
		for t in targets {
			for s in targets {
				if t.0 != s.0 {
					out.push(vec![*t, *s]);
				}
			}
		}
	}
	if max >= 3 {
		for t in targets {
			for s in targets {
				for r in targets {
					if t.0 != s.0 && t.0 != r.0 && s.0 != r.0 {
						out.push(vec![*t, *s, *r]);
					}
				}
			}
		}
	}
	out
}

/// every ordered root list of two or three roots in which some artifact occurs more than once
pub fn root_lists_dup(n: usize, len: usize) -> Vec<Vec<Av>> {
	let all: Vec<Av> = (0..n as u8).flat_map(|t| [(t, 1u8), (t, 2u8)]).collect();
	let mut out: Vec<Vec<Av>> = Vec::new();
	let mut frontier: Vec<Vec<Av>> = vec![vec![]];
	for _ in 0..len {
		let mut next = Vec::new();
		for l in &frontier {
			for t in &all {
				let mut m = l.clone();
				m.push(*t);
				next.push(m);
			}
		}
		frontier = next;
	}
	for l in frontier {
		let mut arts: Vec<u8> = l.iter().map(|x| x.0).collect();
		arts.sort();
		arts.dedup();
		if arts.len() < l.len() {
			out.push(l);
		}
	}
	out
}

/// every ordered root list of `1..=max` roots on distinct artifacts
pub fn root_lists(n: usize, max: usize) -> Vec<Vec<Av>> {
	let all: Vec<Av> = (0..n as u8).flat_map(|t| [(t, 1u8), (t, 2u8)]).collect();
	let mut out: Vec<Vec<Av>> = Vec::new();
	let mut frontier: Vec<Vec<Av>> = vec![vec![]];
	for _ in 0..max {
		let mut next = Vec::new();
		for l in &frontier {
			for t in &all {
				if !l.iter().any(|x| x.0 == t.0) {
					let mut m = l.clone();
					m.push(*t);
					next.push(m);
				}
			}
		}
		out.extend(next.iter().cloned());
		frontier = next;
	}
	out
}

/// Every dependency graph over `n` artifacts × 2 versions with at most two ordered dependencies per POM
/// (edges only to later artifacts), for the given roots. POMs that cannot be reached from the roots stay
/// without dependencies (they could not be observed).
pub fn bases(n: usize, roots: &[Av]) -> Vec<Base> {
	bases_with(n, roots, false, 2)
}

/// like [`bases`], in the given order of POMs and with at most `max_deps` dependencies per POM
pub fn bases_with(n: usize, roots: &[Av], vmajor: bool, max_deps: usize) -> Vec<Base> {
	let mut out = Vec::new();
	let mut cur = Base { n, vmajor, roots: roots.to_vec(), deps: vec![vec![]; n * 2] };
	let mut reach = vec![false; n * 2];
	for r in roots {
		reach[pom_idx(*r)] = true;
	}
	// the POM indices in topological order
	let mut order: Vec<usize> = (0..n * 2).collect();
	order.sort_by_key(|p| position(n, vmajor, ((*p / 2) as u8, (*p % 2) as u8 + 1)));
	fn rec(at: usize, order: &[usize], max_deps: usize, cur: &mut Base, reach: &mut Vec<bool>, out: &mut Vec<Base>) {
		let n = cur.n;
		if at == n * 2 {
			out.push(cur.clone());
			return;
		}
		let i = order[at];
		if !reach[i] {
			rec(at + 1, order, max_deps, cur, reach, out);
			return;
		}
		for l in dep_lists(&targets(n, cur.vmajor, i), max_deps) {
			let newly: Vec<usize> = l.iter().map(|t| pom_idx(*t)).filter(|t| !reach[*t]).collect();
			for t in &newly {
				reach[*t] = true;
			}
			cur.deps[i] = l;
			rec(at + 1, order, max_deps, cur, reach, out);
			for t in &newly {
				reach[*t] = false;
			}
		}
		cur.deps[i] = vec![];
	}
	rec(0, &order, max_deps, &mut cur, &mut reach, &mut out);
	out
}

// ---------------------------------------------------------------------------------------------
// deviations

#[derive(Clone, Copy, Debug, PartialEq, Eq, PartialOrd, Ord)]
pub enum Site {
	/// dependency `slot` of the POM with that index
	Edge(u8, u8),
	Pom(u8),
	Root(u8),
	Roots,
}

#[derive(Clone, Copy, Debug, PartialEq, Eq, PartialOrd, Ord)]
pub enum Attr {
	Scope,
	Optional,
	Classifier,
	Type,
	Mgmt,
	ManagedScope,
	DecoyEntry,
	InheritGroup,
	InheritVersion,
	ParentDep,
	ParentDepMode,
	Repo,
	Render,
	Packaging,
	RootScope,
	RootClassifier,
	RootType,
	ExtraRoot,
}

#[derive(Clone, Copy, Debug, PartialEq, Eq)]
pub struct Dev {
	pub site: Site,
	pub attr: Attr,
	pub val: u8,
	/// 0 = core alphabet, larger = only in the wider alphabets
	pub rank: u8,
}

#[derive(Clone, Copy, Debug, PartialEq, Eq, PartialOrd, Ord)]
pub enum Src {
	Own,
	Parent,
	Bom,
	Bom2,
	Grand,
	ParentBom,
	BomBom,
	BomParent,
}

/// (dependency states its version, where the entry is, a lower-precedence place holding the other version)
const MGMT: [(bool, Src, Option<Src>, u8, &str); 14] = [
	(false, Src::Own, None, 0, "version-omitted,managed-in-own-pom"),
	(false, Src::Parent, None, 0, "version-omitted,managed-in-parent"),
	(false, Src::Bom, None, 0, "version-omitted,managed-in-imported-bom"),
	(true, Src::Own, None, 0, "version-given,own-pom-manages-other-version"),
	(false, Src::Own, Some(Src::Bom), 1, "version-omitted,own-pom-over-imported-bom"),
	(false, Src::Own, Some(Src::Parent), 1, "version-omitted,own-pom-over-parent"),
	(false, Src::Bom, Some(Src::Bom2), 1, "version-omitted,first-bom-over-second-bom"),
	(false, Src::Parent, Some(Src::Grand), 1, "version-omitted,parent-over-grandparent"),
	(true, Src::Parent, None, 1, "version-given,parent-manages-other-version"),
	(true, Src::Bom, None, 1, "version-given,bom-manages-other-version"),
	(false, Src::Grand, None, 2, "version-omitted,managed-in-grandparent"),
	(false, Src::ParentBom, None, 2, "version-omitted,managed-in-bom-imported-by-parent"),
	(false, Src::BomBom, None, 2, "version-omitted,managed-in-bom-imported-by-bom"),
	(false, Src::BomParent, None, 2, "version-omitted,managed-in-parent-of-bom"),
];

const EDGE_SCOPES: [(Sc, u8); 5] = [(Sc::Runtime, 0), (Sc::Test, 0), (Sc::Provided, 1), (Sc::Compile, 1), (Sc::System, 1)];
const MANAGED_SCOPES: [(Sc, u8); 4] = [(Sc::Runtime, 0), (Sc::Test, 0), (Sc::Provided, 1), (Sc::Compile, 1)];
const ROOT_SCOPES: [(Sc, u8); 4] = [(Sc::Runtime, 0), (Sc::Test, 0), (Sc::Provided, 1), (Sc::System, 1)];
/// (type, classifier written on the dependency, classifier written in its management entry, rank): test-jar
/// implies the classifier `tests` (default artifact handlers), so all three spellings name one artifact
const TYPES: [(&str, Option<&str>, Option<&str>, u8); 6] = [
	("ejb", None, None, 0),
	("jar", None, None, 1),
	("test-jar", None, None, 1),
	("test-jar", Some("tests"), None, 2),
	("test-jar", None, Some("tests"), 2),
	("zip", None, None, 2),
];
/// a management entry that differs from the dependency in exactly one part of its identity, written before every
/// other entry of the POM, managing the other version and the scope test: it must not touch the dependency
const DECOY_ENTRIES: [(&str, u8); 3] = [("other-group", 1), ("other-classifier", 1), ("other-type", 1)];
const PACKAGINGS: [(&str, u8); 3] = [("bundle", 1), ("pom", 2), ("war", 2)];
const RENDERS: [(Render, u8); 6] = [(Render::EmptyDeps, 0), (Render::Extras, 1), (Render::Reordered, 1), (Render::Pretty, 1), (Render::EmptyDm, 1), (Render::EmptyDmDeps, 1)];

#[derive(Clone, Copy, Debug, PartialEq, Eq)]
pub enum PdMode {
	Plain,
	ManagedByParent,
	ChildOverridesVersion,
	ManagedByChildOnly,
	ChildManagesScope,
	RuntimeScope,
	OptionalTrue,
	InGrandparent,
}
const PD_MODES: [(PdMode, u8, &str); 7] = [
	(PdMode::ManagedByParent, 0, "parent-dependency-version-managed-by-parent"),
	(PdMode::ChildOverridesVersion, 0, "parent-dependency-version-managed-by-parent,child-manages-other-version"),
	(PdMode::ManagedByChildOnly, 0, "parent-dependency-version-managed-only-by-child"),
	(PdMode::ChildManagesScope, 0, "parent-dependency-scope-managed-by-child"),
	(PdMode::RuntimeScope, 1, "parent-dependency-scope-runtime"),
	(PdMode::OptionalTrue, 1, "parent-dependency-optional"),
	(PdMode::InGrandparent, 1, "dependency-declared-by-grandparent"),
];

#[derive(Clone, Copy, Debug, PartialEq, Eq)]
pub enum RepoMode {
	First,
	SecondOnly,
	BothWithDecoy,
	AuxInSecond,
	ThirdOnly,
	SecondWithDecoyInThird,
}
const REPO_MODES: [(RepoMode, u8, &str); 5] = [
	(RepoMode::SecondOnly, 0, "served-by-second-repository-only"),
	(RepoMode::BothWithDecoy, 0, "served-by-both-repositories,second-has-different-content"),
	(RepoMode::AuxInSecond, 1, "parents-and-boms-served-by-second-repository"),
	(RepoMode::ThirdOnly, 1, "served-by-third-repository-only"),
	(RepoMode::SecondWithDecoyInThird, 2, "served-by-second-and-third-repository,third-has-different-content"),
];

/// targets a parent may provide for the POM `p`: later artifacts the POM does not depend on itself
fn parent_dep_targets(b: &Base, p: usize) -> Vec<Av> {
	targets(b.n, b.vmajor, p).into_iter().filter(|t| !b.deps[p].iter().any(|d| d.0 == t.0)).collect()
}

fn extra_roots(b: &Base) -> Vec<(Av, bool)> {
	if b.roots.len() != 1 {
		return vec![];
	}
	let mut out = Vec::new();
	for t in 0..b.n as u8 {
		if t == b.roots[0].0 {
			continue;
		}
		for v in 1..=2u8 {
			out.push(((t, v), false));
			out.push(((t, v), true));
		}
	}
	out
}

/// The complete, tier-independent list of single deviations of a base (indices into it identify a case).
pub fn all_devs(b: &Base) -> Vec<Dev> {
	let mut out = Vec::new();
	let reach = b.reachable();
	for p in 0..b.n * 2 {
		if !reach[p] {
			continue;
		}
		for slot in 0..b.deps[p].len() {
			let site = Site::Edge(p as u8, slot as u8);
			for (i, (_, rank)) in EDGE_SCOPES.iter().enumerate() {
				out.push(Dev { site, attr: Attr::Scope, val: i as u8, rank: *rank });
			}
			out.push(Dev { site, attr: Attr::Optional, val: 1, rank: 0 });
			out.push(Dev { site, attr: Attr::Optional, val: 0, rank: 1 });
			out.push(Dev { site, attr: Attr::Classifier, val: 0, rank: 0 });
			for (i, t) in TYPES.iter().enumerate() {
				out.push(Dev { site, attr: Attr::Type, val: i as u8, rank: t.3 });
			}
			for (i, m) in MGMT.iter().enumerate() {
				out.push(Dev { site, attr: Attr::Mgmt, val: i as u8, rank: m.3 });
			}
			for (i, (_, rank)) in MANAGED_SCOPES.iter().enumerate() {
				out.push(Dev { site, attr: Attr::ManagedScope, val: i as u8, rank: *rank });
			}
			for (i, (_, rank)) in DECOY_ENTRIES.iter().enumerate() {
				out.push(Dev { site, attr: Attr::DecoyEntry, val: i as u8, rank: *rank });
			}
		}
		let site = Site::Pom(p as u8);
		out.push(Dev { site, attr: Attr::InheritGroup, val: 0, rank: 0 });
		out.push(Dev { site, attr: Attr::InheritVersion, val: 0, rank: 1 });
		for (i, _) in parent_dep_targets(b, p).iter().enumerate() {
			out.push(Dev { site, attr: Attr::ParentDep, val: i as u8, rank: 0 });
		}
		if !parent_dep_targets(b, p).is_empty() {
			for (i, m) in PD_MODES.iter().enumerate() {
				out.push(Dev { site, attr: Attr::ParentDepMode, val: i as u8, rank: m.1 });
			}
		}
		for (i, m) in REPO_MODES.iter().enumerate() {
			out.push(Dev { site, attr: Attr::Repo, val: i as u8, rank: m.1 });
		}
		for (i, (_, rank)) in RENDERS.iter().enumerate() {
			out.push(Dev { site, attr: Attr::Render, val: i as u8, rank: *rank });
		}
		for (i, (_, rank)) in PACKAGINGS.iter().enumerate() {
			out.push(Dev { site, attr: Attr::Packaging, val: i as u8, rank: *rank });
		}
	}
	for r in 0..b.roots.len() {
		let site = Site::Root(r as u8);
		for (i, (_, rank)) in ROOT_SCOPES.iter().enumerate() {
			out.push(Dev { site, attr: Attr::RootScope, val: i as u8, rank: *rank });
		}
		out.push(Dev { site, attr: Attr::RootClassifier, val: 0, rank: 0 });
		out.push(Dev { site, attr: Attr::RootType, val: 0, rank: 0 });
	}
	for (i, _) in extra_roots(b).iter().enumerate() {
		out.push(Dev { site: Site::Roots, attr: Attr::ExtraRoot, val: i as u8, rank: 0 });
	}
	out
}

pub fn describe_dev(b: &Base, d: &Dev) -> String {
	let name = |p: u8| format!("{}{}", ARTS[p as usize / 2], p % 2 + 1);
	let site = match d.site {
		Site::Edge(p, s) => format!("dependency #{s} of {}", name(p)),
		Site::Pom(p) => format!("pom {}", name(p)),
		Site::Root(r) => format!("root #{r}"),
		Site::Roots => "root list".to_owned(),
	};
	let v = d.val as usize;
	let what = match d.attr {
		Attr::Scope => format!("scope={}", EDGE_SCOPES[v].0.name()),
		Attr::Optional => format!("optional={}", d.val == 1),
		Attr::Classifier => "classifier=k".to_owned(),
		Attr::Type => format!("type={}{}{}", TYPES[v].0, TYPES[v].1.map(|c| format!(",classifier={c}-written-on-the-dependency-only")).unwrap_or_default(), TYPES[v].2.map(|c| format!(",classifier={c}-written-in-the-management-entry-only")).unwrap_or_default()),
		Attr::Mgmt => MGMT[v].4.to_owned(),
		Attr::ManagedScope => format!("managed-scope={}", MANAGED_SCOPES[v].0.name()),
		Attr::DecoyEntry => format!("own-pom-first-manages-the-same-artifact-with-{}", DECOY_ENTRIES[v].0),
		Attr::InheritGroup => "groupId-from-parent".to_owned(),
		Attr::InheritVersion => "version-from-parent".to_owned(),
		Attr::ParentDep => match d.site {
			Site::Pom(p) => {
				let t = parent_dep_targets(b, p as usize)[v];
				format!("parent-declares-dependency-on-{}{}", ARTS[t.0 as usize], t.1)
			},
			_ => "?".to_owned(),
		},
		Attr::ParentDepMode => PD_MODES[v].2.to_owned(),
		Attr::Repo => REPO_MODES[v].2.to_owned(),
		Attr::Render => format!("xml={:?}", RENDERS[v].0),
		Attr::Packaging => format!("packaging={}", PACKAGINGS[v].0),
		Attr::RootScope => format!("scope={}", ROOT_SCOPES[v].0.name()),
		Attr::RootClassifier => "classifier=k".to_owned(),
		Attr::RootType => "type=ejb".to_owned(),
		Attr::ExtraRoot => {
			let (t, before) = extra_roots(b)[v];
			format!("second-root-{}{}-{}", ARTS[t.0 as usize], t.1, if before { "before" } else { "after" })
		},
	};
	format!("{site}: {what}")
}

// ---------------------------------------------------------------------------------------------
// building the universe

#[derive(Clone, Debug, Default)]
struct EdgeAttr {
	scope: Option<Sc>,
	optional: Option<bool>,
	classifier: bool,
	type_: Option<usize>,
	mgmt: Option<usize>,
	mscope: Option<Sc>,
	decoy: Option<usize>,
}

#[derive(Clone, Debug)]
struct PomAttr {
	inherit_group: bool,
	inherit_version: bool,
	pdep: Option<Av>,
	pdep_mode: Option<PdMode>,
	repo: RepoMode,
	render: Render,
	packaging: Option<&'static str>,
}

struct PomB {
	pom: Pom,
	entries: Vec<MgDecl>,
	imports: Vec<String>,
}

/// the POM of one (artifact, version) together with its parents and BOMs
struct Family {
	name: String,
	version: String,
	poms: BTreeMap<&'static str, PomB>,
}

impl Family {
	fn pom(&mut self, suffix: &'static str) -> &mut PomB {
		let (name, version) = (self.name.clone(), self.version.clone());
		self.poms.entry(suffix).or_insert_with(|| PomB {
			pom: Pom {
				group: GROUP.to_owned(),
				artifact: format!("{name}{suffix}"),
				version,
				write_group: true,
				write_version: true,
				parent: None,
				packaging: (!suffix.is_empty()).then(|| "pom".to_owned()),
				model_version: "4.0.0".to_owned(),
				dm: vec![],
				deps: vec![],
				render: Render::Compact,
			},
			entries: vec![],
			imports: vec![],
		})
	}
	fn set_parent(&mut self, child: &'static str, parent: &'static str) {
		let pa = self.pom(parent).pom.artifact.clone();
		let v = self.version.clone();
		self.pom(child).pom.parent = Some((GROUP.to_owned(), pa, v));
	}
	fn add_import(&mut self, of: &'static str, bom: &'static str) {
		let ba = self.pom(bom).pom.artifact.clone();
		let p = self.pom(of);
		if !p.imports.contains(&ba) {
			p.imports.push(ba);
		}
	}
	/// makes sure the place exists and is linked, returns the suffix of the POM that holds entries of that source
	fn ensure(&mut self, src: Src) -> &'static str {
		match src {
			Src::Own => "",
			Src::Parent => {
				self.set_parent("", "-parent");
				"-parent"
			},
			Src::Grand => {
				self.set_parent("", "-parent");
				self.set_parent("-parent", "-grand");
				"-grand"
			},
			Src::Bom => {
				self.add_import("", "-bom");
				"-bom"
			},
			Src::Bom2 => {
				self.add_import("", "-bom");
				self.add_import("", "-bom2");
				"-bom2"
			},
			Src::ParentBom => {
				self.set_parent("", "-parent");
				self.add_import("-parent", "-pbom");
				"-pbom"
			},
			Src::BomBom => {
				self.add_import("", "-bom");
				self.add_import("-bom", "-bombom");
				"-bombom"
			},
			Src::BomParent => {
				self.add_import("", "-bom");
				self.set_parent("-bom", "-bomparent");
				"-bomparent"
			},
		}
	}
	fn add_entry(&mut self, src: Src, e: MgDecl) {
		let at = self.ensure(src);
		self.pom(at).entries.push(e);
	}
}

fn vs(v: u8) -> String {
	v.to_string()
}

/// Applies the deviations to the base. `None` = the combination is not meaningful (two values for one
/// attribute, a mode without its subject, an empty element where there is content, …).
pub fn build(b: &Base, devs: &[Dev]) -> Option<Universe> {
	for (i, d) in devs.iter().enumerate() {
		if devs[..i].iter().any(|e| e.site == d.site && e.attr == d.attr) {
			return None;
		}
	}
	let mut edge: BTreeMap<(u8, u8), EdgeAttr> = BTreeMap::new();
	let mut pattr: Vec<PomAttr> = (0..b.n * 2).map(|_| PomAttr { inherit_group: false, inherit_version: false, pdep: None, pdep_mode: None, repo: RepoMode::First, render: Render::Compact, packaging: None }).collect();
	let mut roots: Vec<RootDecl> = b.roots.iter().map(|(a, v)| RootDecl { group: GROUP.to_owned(), artifact: ARTS[*a as usize].to_owned(), version: vs(*v), classifier: None, type_: "jar".to_owned(), scope: Sc::Compile }).collect();
	let mut extra: Option<(Av, bool)> = None;
	for d in devs {
		let v = d.val as usize;
		match (d.site, d.attr) {
			(Site::Edge(p, s), attr) => {
				let e = edge.entry((p, s)).or_default();
				match attr {
					Attr::Scope => e.scope = Some(EDGE_SCOPES[v].0),
					Attr::Optional => e.optional = Some(d.val == 1),
					Attr::Classifier => e.classifier = true,
					Attr::Type => e.type_ = Some(v),
					Attr::Mgmt => e.mgmt = Some(v),
					Attr::ManagedScope => e.mscope = Some(MANAGED_SCOPES[v].0),
					Attr::DecoyEntry => e.decoy = Some(v),
					_ => return None,
				}
			},
			(Site::Pom(p), attr) => {
				let a = &mut pattr[p as usize];
				match attr {
					Attr::InheritGroup => a.inherit_group = true,
					Attr::InheritVersion => a.inherit_version = true,
					Attr::ParentDep => a.pdep = Some(parent_dep_targets(b, p as usize)[v]),
					Attr::ParentDepMode => a.pdep_mode = Some(PD_MODES[v].0),
					Attr::Repo => a.repo = REPO_MODES[v].0,
					Attr::Render => a.render = RENDERS[v].0,
					Attr::Packaging => a.packaging = Some(PACKAGINGS[v].0),
					_ => return None,
				}
			},
			(Site::Root(r), attr) => {
				let root = &mut roots[r as usize];
				match attr {
					Attr::RootScope => root.scope = ROOT_SCOPES[v].0,
					Attr::RootClassifier => root.classifier = Some("k".to_owned()),
					Attr::RootType => root.type_ = "ejb".to_owned(),
					_ => return None,
				}
			},
			(Site::Roots, Attr::ExtraRoot) => extra = Some(extra_roots(b)[v]),
			_ => return None,
		}
	}
	if let Some(((a, v), before)) = extra {
		let r = RootDecl { group: GROUP.to_owned(), artifact: ARTS[a as usize].to_owned(), version: vs(v), classifier: None, type_: "jar".to_owned(), scope: Sc::Compile };
		if before {
			roots.insert(0, r);
		} else {
			roots.push(r);
		}
	}

	let mut files: Vec<(usize, Pom)> = Vec::new();
	for p in 0..b.n * 2 {
		let art = (p / 2) as u8;
		let ver = (p % 2) as u8 + 1;
		let pa = &pattr[p];
		if pa.pdep_mode.is_some() && pa.pdep.is_none() {
			return None;
		}
		let mut fam = Family { name: ARTS[art as usize].to_owned(), version: vs(ver), poms: BTreeMap::new() };
		fam.pom("");
		for (slot, (t, v)) in b.deps[p].iter().enumerate() {
			let ea = edge.get(&(p as u8, slot as u8)).cloned().unwrap_or_default();
			let tname = ARTS[*t as usize].to_owned();
			let ty = ea.type_.map(|i| TYPES[i]);
			// a written classifier stands on both sides; otherwise the type decides where its implied one is spelled out
			let classifier = if ea.classifier { Some("k".to_owned()) } else { ty.and_then(|t| t.1).map(str::to_owned) };
			let entry_classifier = if ea.classifier { Some("k".to_owned()) } else { ty.and_then(|t| t.2).map(str::to_owned) };
			// an explicit "jar" on the dependency meets an entry that leaves the type out (jar is the default)
			let entry_type = ty.map(|t| t.0).filter(|t| *t != "jar").map(str::to_owned);
			let mk = |version: u8, scope: Option<Sc>| MgDecl { group: GROUP.to_owned(), artifact: tname.clone(), version: vs(version), scope, classifier: entry_classifier.clone(), type_: entry_type.clone(), import: false };
			if ty.is_some_and(|t| t.2.is_some()) && ea.mgmt.is_none() && ea.mscope.is_none() {
				// a spelling of the management entry, and there is no entry
				return None;
			}
			if let Some(dv) = ea.decoy {
				let mut e = mk(other(*v), Some(Sc::Test));
				e.classifier = classifier.clone();
				match dv {
					0 => e.group = "o.x".to_owned(),
					1 => e.classifier = Some("z".to_owned()),
					_ => e.type_ = Some("war".to_owned()),
				}
				fam.pom("").entries.insert(0, e);
			}
			let mut version_given = true;
			if let Some(m) = ea.mgmt {
				let (given, primary, shadow, _, _) = MGMT[m];
				version_given = given;
				let pv = if given { other(*v) } else { *v };
				fam.add_entry(primary, mk(pv, ea.mscope));
				if let Some(sh) = shadow {
					let shadow_scope = ea.mscope.map(|s| if s == Sc::Test { Sc::Runtime } else { Sc::Test });
					fam.add_entry(sh, mk(other(pv), shadow_scope));
				}
			} else if let Some(s) = ea.mscope {
				fam.add_entry(Src::Own, mk(*v, Some(s)));
			}
			fam.pom("").pom.deps.push(DepDecl {
				group: GROUP.to_owned(),
				artifact: tname.clone(),
				version: version_given.then(|| vs(*v)),
				scope: ea.scope,
				optional: ea.optional,
				classifier: classifier.clone(),
				type_: ty.map(|t| t.0.to_owned()),
			});
		}
		if let Some((t, v)) = pa.pdep {
			let tname = ARTS[t as usize].to_owned();
			let dep = |version: Option<u8>, scope: Option<Sc>, optional: Option<bool>| DepDecl { group: GROUP.to_owned(), artifact: tname.clone(), version: version.map(vs), scope, optional, classifier: None, type_: None };
			let ent = |version: u8, scope: Option<Sc>| MgDecl { group: GROUP.to_owned(), artifact: tname.clone(), version: vs(version), scope, classifier: None, type_: None, import: false };
			let at = fam.ensure(Src::Parent);
			match pa.pdep_mode.unwrap_or(PdMode::Plain) {
				PdMode::Plain => fam.pom(at).pom.deps.push(dep(Some(v), None, None)),
				PdMode::ManagedByParent => {
					fam.pom(at).pom.deps.push(dep(None, None, None));
					fam.add_entry(Src::Parent, ent(v, None));
				},
				PdMode::ChildOverridesVersion => {
					fam.pom(at).pom.deps.push(dep(None, None, None));
					fam.add_entry(Src::Parent, ent(other(v), None));
					fam.add_entry(Src::Own, ent(v, None));
				},
				PdMode::ManagedByChildOnly => {
					fam.pom(at).pom.deps.push(dep(None, None, None));
					fam.add_entry(Src::Own, ent(v, None));
				},
				PdMode::ChildManagesScope => {
					fam.pom(at).pom.deps.push(dep(Some(v), None, None));
					fam.add_entry(Src::Own, ent(v, Some(Sc::Test)));
				},
				PdMode::RuntimeScope => fam.pom(at).pom.deps.push(dep(Some(v), Some(Sc::Runtime), None)),
				PdMode::OptionalTrue => fam.pom(at).pom.deps.push(dep(Some(v), None, Some(true))),
				PdMode::InGrandparent => {
					let g = fam.ensure(Src::Grand);
					fam.pom(g).pom.deps.push(dep(Some(v), None, None));
				},
			}
		}
		if pa.inherit_group {
			fam.ensure(Src::Parent);
			fam.pom("").pom.write_group = false;
		}
		if pa.inherit_version {
			fam.ensure(Src::Parent);
			fam.pom("").pom.write_version = false;
		}
		fam.pom("").pom.render = pa.render;
		if let Some(pk) = pa.packaging {
			fam.pom("").pom.packaging = Some(pk.to_owned());
		}
		let has_aux = fam.poms.len() > 1;
		if pa.repo == RepoMode::AuxInSecond && !has_aux {
			return None;
		}
		for (suffix, pb) in fam.poms {
			let mut pom = pb.pom;
			// managed entries are declared before the imports (supported subset)
			pom.dm = pb.entries;
			let version = pom.version.clone();
			pom.dm.extend(pb.imports.into_iter().map(|a| MgDecl { group: GROUP.to_owned(), artifact: a, version: version.clone(), scope: None, classifier: None, type_: None, import: true }));
			match pom.render {
				Render::EmptyDeps if !pom.deps.is_empty() => return None,
				Render::EmptyDm | Render::EmptyDmDeps if !pom.dm.is_empty() => return None,
				_ => {},
			}
			if suffix.is_empty() {
				match pa.repo {
					RepoMode::First | RepoMode::AuxInSecond => files.push((0, pom)),
					RepoMode::SecondOnly => files.push((1, pom)),
					RepoMode::ThirdOnly => files.push((2, pom)),
					RepoMode::BothWithDecoy | RepoMode::SecondWithDecoyInThird => {
						let mut decoy = pom.clone();
						for d in &mut decoy.deps {
							if let Some(v) = &mut d.version {
								*v = if v == "1" { "2".to_owned() } else { "1".to_owned() };
							}
						}
						if decoy.deps.is_empty() && (art as usize) + 1 < b.n {
							decoy.deps.push(DepDecl { group: GROUP.to_owned(), artifact: ARTS[art as usize + 1].to_owned(), version: Some("1".to_owned()), scope: None, optional: None, classifier: None, type_: None });
							if decoy.render == Render::EmptyDeps {
								decoy.render = Render::Compact;
							}
						}
						if decoy == pom {
							return None;
						}
						let at = if pa.repo == RepoMode::BothWithDecoy { 0 } else { 1 };
						files.push((at, pom));
						files.push((at + 1, decoy));
					},
				}
			} else {
				files.push((if pa.repo == RepoMode::AuxInSecond { 1 } else { 0 }, pom));
			}
		}
	}
	Some(Universe {
		repos: vec![
			("first".to_owned(), "mem://one.invalid/repo".to_owned()),
			("second".to_owned(), "mem://two.invalid/maven/".to_owned()),
			("third".to_owned(), "mem://three.invalid".to_owned()),
		],
		files,
		roots,
	})
}
