//! Exhaustive generator: base universes (dependency graphs × versions × root lists) and the
//! deviation alphabet applied on top of them.

use std::collections::BTreeMap;
use crate::model::*;

pub const ARTS: [&str; 4] = ["a", "b", "c", "d"];

/// (artifact index, version 1|2)
pub type Av = (u8, u8);

pub fn pom_idx(av: Av) -> usize {
	av.0 as usize * 2 + (av.1 as usize - 1)
}

fn other(v: u8) -> u8 {
	3 - v
}

#[derive(Clone, Debug, PartialEq, Eq)]
pub struct Base {
	pub n: usize,
	pub roots: Vec<Av>,
	/// indexed by [`pom_idx`]: the ordered dependencies of that POM
	pub deps: Vec<Vec<Av>>,
}

impl Base {
	pub fn reachable(&self) -> Vec<bool> {
		let mut r = vec![false; self.n * 2];
		let mut stack: Vec<Av> = self.roots.clone();
		while let Some(av) = stack.pop() {
			if !std::mem::replace(&mut r[pom_idx(av)], true) {
				stack.extend(self.deps[pom_idx(av)].iter().copied());
			}
		}
		r
	}

	pub fn show(&self) -> String {
		let mut s = format!("roots=[{}]", self.roots.iter().map(|(a, v)| format!("{}{}", ARTS[*a as usize], v)).collect::<Vec<_>>().join(","));
		for a in 0..self.n as u8 {
			for v in 1..=2u8 {
				let d = &self.deps[pom_idx((a, v))];
				if !d.is_empty() {
					s.push_str(&format!(" {}{}->[{}]", ARTS[a as usize], v, d.iter().map(|(a, v)| format!("{}{}", ARTS[*a as usize], v)).collect::<Vec<_>>().join(",")));
				}
			}
		}
		s
	}
}

/// every ordered list of at most `max` dependencies on distinct artifacts above `art`
fn dep_lists(n: usize, art: u8, max: usize) -> Vec<Vec<Av>> {
	let targets: Vec<Av> = ((art + 1)..n as u8).flat_map(|t| [(t, 1u8), (t, 2u8)]).collect();
	let mut out = vec![vec![]];
	if max >= 1 {
		for t in &targets {
			out.push(vec![*t]);
		}
	}
	if max >= 2 {
		for t in &targets {
			for s in &targets {
				if t.0 != s.0 {
					out.push(vec![*t, *s]);
				}
			}
		}
	}
	out
}

/// every ordered root list of `1..=max` roots on distinct artifacts
pub fn root_lists(n: usize, max: usize) -> Vec<Vec<Av>> {
	let all: Vec<Av> = (0..n as u8).flat_map(|t| [(t, 1u8), (t, 2u8)]).collect();
	let mut out: Vec<Vec<Av>> = Vec::new();
	let mut frontier: Vec<Vec<Av>> = vec![vec![]];
	for _ in 0..max {
		let mut next = Vec::new();
		for l in &frontier {
			for t in &all {
				if !l.iter().any(|x| x.0 == t.0) {
					let mut m = l.clone();
					m.push(*t);
					next.push(m);
				}
			}
		}
		out.extend(next.iter().cloned());
		frontier = next;
	}
	out
}

/// Every dependency graph over `n` artifacts × 2 versions with at most two ordered dependencies per POM
/// (edges only to later artifacts), for the given roots. POMs that cannot be reached from the roots stay
/// without dependencies (they could not be observed).
pub fn bases(n: usize, roots: &[Av]) -> Vec<Base> {
	let mut out = Vec::new();
	let mut cur = Base { n, roots: roots.to_vec(), deps: vec![vec![]; n * 2] };
	let mut reach = vec![false; n * 2];
	for r in roots {
		reach[pom_idx(*r)] = true;
	}
	fn rec(i: usize, cur: &mut Base, reach: &mut Vec<bool>, out: &mut Vec<Base>) {
		let n = cur.n;
		if i == n * 2 {
			out.push(cur.clone());
			return;
		}
		if !reach[i] {
			rec(i + 1, cur, reach, out);
			return;
		}
		for l in dep_lists(n, (i / 2) as u8, 2) {
			let newly: Vec<usize> = l.iter().map(|t| pom_idx(*t)).filter(|t| !reach[*t]).collect();
			for t in &newly {
				reach[*t] = true;
			}
			cur.deps[i] = l;
			rec(i + 1, cur, reach, out);
			for t in &newly {
				reach[*t] = false;
			}
		}
		cur.deps[i] = vec![];
	}
	rec(0, &mut cur, &mut reach, &mut out);
	out
}

// ---------------------------------------------------------------------------------------------
// deviations

#[derive(Clone, Copy, Debug, PartialEq, Eq, PartialOrd, Ord)]
pub enum Site {
	/// dependency `slot` of the POM with that index
	Edge(u8, u8),
	Pom(u8),
	Root(u8),
	Roots,
}

#[derive(Clone, Copy, Debug, PartialEq, Eq, PartialOrd, Ord)]
pub enum Attr {
	Scope,
	Optional,
	Classifier,
	Type,
	Mgmt,
	ManagedScope,
	InheritGroup,
	InheritVersion,
	ParentDep,
	ParentDepMode,
	Repo,
	Render,
	RootScope,
	RootClassifier,
	RootType,
	ExtraRoot,
}

#[derive(Clone, Copy, Debug, PartialEq, Eq)]
pub struct Dev {
	pub site: Site,
	pub attr: Attr,
	pub val: u8,
	/// 0 = core alphabet, larger = only in the wider alphabets
	pub rank: u8,
}

#[derive(Clone, Copy, Debug, PartialEq, Eq, PartialOrd, Ord)]
pub enum Src {
	Own,
	Parent,
	Bom,
	Bom2,
	Grand,
	ParentBom,
	BomBom,
	BomParent,
}

/// (dependency states its version, where the entry is, a lower-precedence place holding the other version)
const MGMT: [(bool, Src, Option<Src>, u8, &str); 14] = [
	(false, Src::Own, None, 0, "version-omitted,managed-in-own-pom"),
	(false, Src::Parent, None, 0, "version-omitted,managed-in-parent"),
	(false, Src::Bom, None, 0, "version-omitted,managed-in-imported-bom"),
	(true, Src::Own, None, 0, "version-given,own-pom-manages-other-version"),
	(false, Src::Own, Some(Src::Bom), 1, "version-omitted,own-pom-over-imported-bom"),
	(false, Src::Own, Some(Src::Parent), 1, "version-omitted,own-pom-over-parent"),
	(false, Src::Bom, Some(Src::Bom2), 1, "version-omitted,first-bom-over-second-bom"),
	(false, Src::Parent, Some(Src::Grand), 1, "version-omitted,parent-over-grandparent"),
	(true, Src::Parent, None, 1, "version-given,parent-manages-other-version"),
	(true, Src::Bom, None, 1, "version-given,bom-manages-other-version"),
	(false, Src::Grand, None, 2, "version-omitted,managed-in-grandparent"),
	(false, Src::ParentBom, None, 2, "version-omitted,managed-in-bom-imported-by-parent"),
	(false, Src::BomBom, None, 2, "version-omitted,managed-in-bom-imported-by-bom"),
	(false, Src::BomParent, None, 2, "version-omitted,managed-in-parent-of-bom"),
];

const EDGE_SCOPES: [(Sc, u8); 5] = [(Sc::Runtime, 0), (Sc::Test, 0), (Sc::Provided, 1), (Sc::Compile, 1), (Sc::System, 1)];
const MANAGED_SCOPES: [(Sc, u8); 4] = [(Sc::Runtime, 0), (Sc::Test, 0), (Sc::Provided, 1), (Sc::Compile, 1)];
const ROOT_SCOPES: [(Sc, u8); 4] = [(Sc::Runtime, 0), (Sc::Test, 0), (Sc::Provided, 1), (Sc::System, 1)];
const TYPES: [(&str, u8); 2] = [("ejb", 0), ("jar", 1)];
const RENDERS: [(Render, u8); 6] = [(Render::EmptyDeps, 0), (Render::Extras, 1), (Render::Reordered, 1), (Render::Pretty, 1), (Render::EmptyDm, 1), (Render::EmptyDmDeps, 1)];

#[derive(Clone, Copy, Debug, PartialEq, Eq)]
pub enum PdMode {
	Plain,
	ManagedByParent,
	ChildOverridesVersion,
	ManagedByChildOnly,
	ChildManagesScope,
	RuntimeScope,
	OptionalTrue,
	InGrandparent,
}
const PD_MODES: [(PdMode, u8, &str); 7] = [
	(PdMode::ManagedByParent, 0, "parent-dependency-version-managed-by-parent"),
	(PdMode::ChildOverridesVersion, 0, "parent-dependency-version-managed-by-parent,child-manages-other-version"),
	(PdMode::ManagedByChildOnly, 0, "parent-dependency-version-managed-only-by-child"),
	(PdMode::ChildManagesScope, 0, "parent-dependency-scope-managed-by-child"),
	(PdMode::RuntimeScope, 1, "parent-dependency-scope-runtime"),
	(PdMode::OptionalTrue, 1, "parent-dependency-optional"),
	(PdMode::InGrandparent, 1, "dependency-declared-by-grandparent"),
];

#[derive(Clone, Copy, Debug, PartialEq, Eq)]
pub enum RepoMode {
	First,
	SecondOnly,
	BothWithDecoy,
	AuxInSecond,
}
const REPO_MODES: [(RepoMode, u8, &str); 3] = [
	(RepoMode::SecondOnly, 0, "served-by-second-repository-only"),
	(RepoMode::BothWithDecoy, 0, "served-by-both-repositories,second-has-different-content"),
	(RepoMode::AuxInSecond, 1, "parents-and-boms-served-by-second-repository"),
];

/// targets a parent may provide for the POM `p`: later artifacts the POM does not depend on itself
fn parent_dep_targets(b: &Base, p: usize) -> Vec<Av> {
	let art = (p / 2) as u8;
	((art + 1)..b.n as u8).filter(|t| !b.deps[p].iter().any(|d| d.0 == *t)).flat_map(|t| [(t, 1u8), (t, 2u8)]).collect()
}

fn extra_roots(b: &Base) -> Vec<(Av, bool)> {
	if b.roots.len() != 1 {
		return vec![];
	}
	let mut out = Vec::new();
	for t in 0..b.n as u8 {
		if t == b.roots[0].0 {
			continue;
		}
		for v in 1..=2u8 {
			out.push(((t, v), false));
			out.push(((t, v), true));
		}
	}
	out
}

/// The complete, tier-independent list of single deviations of a base (indices into it identify a case).
pub fn all_devs(b: &Base) -> Vec<Dev> {
	let mut out = Vec::new();
	let reach = b.reachable();
	for p in 0..b.n * 2 {
		if !reach[p] {
			continue;
		}
		for slot in 0..b.deps[p].len() {
			let site = Site::Edge(p as u8, slot as u8);
			for (i, (_, rank)) in EDGE_SCOPES.iter().enumerate() {
				out.push(Dev { site, attr: Attr::Scope, val: i as u8, rank: *rank });
			}
			out.push(Dev { site, attr: Attr::Optional, val: 1, rank: 0 });
			out.push(Dev { site, attr: Attr::Optional, val: 0, rank: 1 });
			out.push(Dev { site, attr: Attr::Classifier, val: 0, rank: 0 });
			for (i, (_, rank)) in TYPES.iter().enumerate() {
				out.push(Dev { site, attr: Attr::Type, val: i as u8, rank: *rank });
			}
			for (i, m) in MGMT.iter().enumerate() {
				out.push(Dev { site, attr: Attr::Mgmt, val: i as u8, rank: m.3 });
			}
			for (i, (_, rank)) in MANAGED_SCOPES.iter().enumerate() {
				out.push(Dev { site, attr: Attr::ManagedScope, val: i as u8, rank: *rank });
			}
		}
		let site = Site::Pom(p as u8);
		out.push(Dev { site, attr: Attr::InheritGroup, val: 0, rank: 0 });
		out.push(Dev { site, attr: Attr::InheritVersion, val: 0, rank: 1 });
		for (i, _) in parent_dep_targets(b, p).iter().enumerate() {
			out.push(Dev { site, attr: Attr::ParentDep, val: i as u8, rank: 0 });
		}
		if !parent_dep_targets(b, p).is_empty() {
			for (i, m) in PD_MODES.iter().enumerate() {
				out.push(Dev { site, attr: Attr::ParentDepMode, val: i as u8, rank: m.1 });
			}
		}
		for (i, m) in REPO_MODES.iter().enumerate() {
			out.push(Dev { site, attr: Attr::Repo, val: i as u8, rank: m.1 });
		}
		for (i, (_, rank)) in RENDERS.iter().enumerate() {
			out.push(Dev { site, attr: Attr::Render, val: i as u8, rank: *rank });
		}
	}
	for r in 0..b.roots.len() {
		let site = Site::Root(r as u8);
		for (i, (_, rank)) in ROOT_SCOPES.iter().enumerate() {
			out.push(Dev { site, attr: Attr::RootScope, val: i as u8, rank: *rank });
		}
		out.push(Dev { site, attr: Attr::RootClassifier, val: 0, rank: 1 });
		out.push(Dev { site, attr: Attr::RootType, val: 0, rank: 1 });
	}
	for (i, _) in extra_roots(b).iter().enumerate() {
		out.push(Dev { site: Site::Roots, attr: Attr::ExtraRoot, val: i as u8, rank: 0 });
	}
	out
}

pub fn describe_dev(b: &Base, d: &Dev) -> String {
	let name = |p: u8| format!("{}{}", ARTS[p as usize / 2], p % 2 + 1);
	let site = match d.site {
		Site::Edge(p, s) => format!("dependency #{s} of {}", name(p)),
		Site::Pom(p) => format!("pom {}", name(p)),
		Site::Root(r) => format!("root #{r}"),
		Site::Roots => "root list".to_owned(),
	};
	let v = d.val as usize;
	let what = match d.attr {
		Attr::Scope => format!("scope={}", EDGE_SCOPES[v].0.name()),
		Attr::Optional => format!("optional={}", d.val == 1),
		Attr::Classifier => "classifier=k".to_owned(),
		Attr::Type => format!("type={}", TYPES[v].0),
		Attr::Mgmt => MGMT[v].4.to_owned(),
		Attr::ManagedScope => format!("managed-scope={}", MANAGED_SCOPES[v].0.name()),
		Attr::InheritGroup => "groupId-from-parent".to_owned(),
		Attr::InheritVersion => "version-from-parent".to_owned(),
		Attr::ParentDep => match d.site {
			Site::Pom(p) => {
				let t = parent_dep_targets(b, p as usize)[v];
				format!("parent-declares-dependency-on-{}{}", ARTS[t.0 as usize], t.1)
			},
			_ => "?".to_owned(),
		},
		Attr::ParentDepMode => PD_MODES[v].2.to_owned(),
		Attr::Repo => REPO_MODES[v].2.to_owned(),
		Attr::Render => format!("xml={:?}", RENDERS[v].0),
		Attr::RootScope => format!("scope={}", ROOT_SCOPES[v].0.name()),
		Attr::RootClassifier => "classifier=k".to_owned(),
		Attr::RootType => "type=ejb".to_owned(),
		Attr::ExtraRoot => {
			let (t, before) = extra_roots(b)[v];
			format!("second-root-{}{}-{}", ARTS[t.0 as usize], t.1, if before { "before" } else { "after" })
		},
	};
	format!("{site}: {what}")
}

// ---------------------------------------------------------------------------------------------
// building the universe

#[derive(Clone, Debug, Default)]
struct EdgeAttr {
	scope: Option<Sc>,
	optional: Option<bool>,
	classifier: bool,
	type_: Option<&'static str>,
	mgmt: Option<usize>,
	mscope: Option<Sc>,
}

#[derive(Clone, Debug)]
struct PomAttr {
	inherit_group: bool,
	inherit_version: bool,
	pdep: Option<Av>,
	pdep_mode: Option<PdMode>,
	repo: RepoMode,
	render: Render,
}

struct PomB {
	pom: Pom,
	entries: Vec<MgDecl>,
	imports: Vec<String>,
}

/// the POM of one (artifact, version) together with its parents and BOMs
struct Family {
	name: String,
	version: String,
	poms: BTreeMap<&'static str, PomB>,
}

impl Family {
	fn pom(&mut self, suffix: &'static str) -> &mut PomB {
		let (name, version) = (self.name.clone(), self.version.clone());
		self.poms.entry(suffix).or_insert_with(|| PomB {
			pom: Pom {
				artifact: format!("{name}{suffix}"),
				version,
				write_group: true,
				write_version: true,
				parent: None,
				packaging_pom: !suffix.is_empty(),
				dm: vec![],
				deps: vec![],
				render: Render::Compact,
			},
			entries: vec![],
			imports: vec![],
		})
	}
	fn set_parent(&mut self, child: &'static str, parent: &'static str) {
		let pa = self.pom(parent).pom.artifact.clone();
		let v = self.version.clone();
		self.pom(child).pom.parent = Some((pa, v));
	}
	fn add_import(&mut self, of: &'static str, bom: &'static str) {
		let ba = self.pom(bom).pom.artifact.clone();
		let p = self.pom(of);
		if !p.imports.contains(&ba) {
			p.imports.push(ba);
		}
	}
	/// makes sure the place exists and is linked, returns the suffix of the POM that holds entries of that source
	fn ensure(&mut self, src: Src) -> &'static str {
		match src {
			Src::Own => "",
			Src::Parent => {
				self.set_parent("", "-parent");
				"-parent"
			},
			Src::Grand => {
				self.set_parent("", "-parent");
				self.set_parent("-parent", "-grand");
				"-grand"
			},
			Src::Bom => {
				self.add_import("", "-bom");
				"-bom"
			},
			Src::Bom2 => {
				self.add_import("", "-bom");
				self.add_import("", "-bom2");
				"-bom2"
			},
			Src::ParentBom => {
				self.set_parent("", "-parent");
				self.add_import("-parent", "-pbom");
				"-pbom"
			},
			Src::BomBom => {
				self.add_import("", "-bom");
				self.add_import("-bom", "-bombom");
				"-bombom"
			},
			Src::BomParent => {
				self.add_import("", "-bom");
				self.set_parent("-bom", "-bomparent");
				"-bomparent"
			},
		}
	}
	fn add_entry(&mut self, src: Src, e: MgDecl) {
		let at = self.ensure(src);
		self.pom(at).entries.push(e);
	}
}

fn vs(v: u8) -> String {
	v.to_string()
}

/// Applies the deviations to the base. `None` = the combination is not meaningful (two values for one
/// attribute, a mode without its subject, an empty element where there is content, …).
pub fn build(b: &Base, devs: &[Dev]) -> Option<Universe> {
	for (i, d) in devs.iter().enumerate() {
		if devs[..i].iter().any(|e| e.site == d.site && e.attr == d.attr) {
			return None;
		}
	}
	let mut edge: BTreeMap<(u8, u8), EdgeAttr> = BTreeMap::new();
	let mut pattr: Vec<PomAttr> = (0..b.n * 2).map(|_| PomAttr { inherit_group: false, inherit_version: false, pdep: None, pdep_mode: None, repo: RepoMode::First, render: Render::Compact }).collect();
	let mut roots: Vec<RootDecl> = b.roots.iter().map(|(a, v)| RootDecl { artifact: ARTS[*a as usize].to_owned(), version: vs(*v), classifier: None, type_: "jar".to_owned(), scope: Sc::Compile }).collect();
	let mut extra: Option<(Av, bool)> = None;
	for d in devs {
		let v = d.val as usize;
		match (d.site, d.attr) {
			(Site::Edge(p, s), attr) => {
				let e = edge.entry((p, s)).or_default();
				match attr {
					Attr::Scope => e.scope = Some(EDGE_SCOPES[v].0),
					Attr::Optional => e.optional = Some(d.val == 1),
					Attr::Classifier => e.classifier = true,
					Attr::Type => e.type_ = Some(TYPES[v].0),
					Attr::Mgmt => e.mgmt = Some(v),
					Attr::ManagedScope => e.mscope = Some(MANAGED_SCOPES[v].0),
					_ => return None,
				}
			},
			(Site::Pom(p), attr) => {
				let a = &mut pattr[p as usize];
				match attr {
					Attr::InheritGroup => a.inherit_group = true,
					Attr::InheritVersion => a.inherit_version = true,
					Attr::ParentDep => a.pdep = Some(parent_dep_targets(b, p as usize)[v]),
					Attr::ParentDepMode => a.pdep_mode = Some(PD_MODES[v].0),
					Attr::Repo => a.repo = REPO_MODES[v].0,
					Attr::Render => a.render = RENDERS[v].0,
					_ => return None,
				}
			},
			(Site::Root(r), attr) => {
				let root = &mut roots[r as usize];
				match attr {
					Attr::RootScope => root.scope = ROOT_SCOPES[v].0,
					Attr::RootClassifier => root.classifier = Some("k".to_owned()),
					Attr::RootType => root.type_ = "ejb".to_owned(),
					_ => return None,
				}
			},
			(Site::Roots, Attr::ExtraRoot) => extra = Some(extra_roots(b)[v]),
			_ => return None,
		}
	}
	if let Some(((a, v), before)) = extra {
		let r = RootDecl { artifact: ARTS[a as usize].to_owned(), version: vs(v), classifier: None, type_: "jar".to_owned(), scope: Sc::Compile };
		if before {
			roots.insert(0, r);
		} else {
			roots.push(r);
		}
	}

	let mut files: Vec<(usize, Pom)> = Vec::new();
	for p in 0..b.n * 2 {
		let art = (p / 2) as u8;
		let ver = (p % 2) as u8 + 1;
		let pa = &pattr[p];
		if pa.pdep_mode.is_some() && pa.pdep.is_none() {
			return None;
		}
		let mut fam = Family { name: ARTS[art as usize].to_owned(), version: vs(ver), poms: BTreeMap::new() };
		fam.pom("");
		for (slot, (t, v)) in b.deps[p].iter().enumerate() {
			let ea = edge.get(&(p as u8, slot as u8)).cloned().unwrap_or_default();
			let tname = ARTS[*t as usize].to_owned();
			let classifier = ea.classifier.then(|| "k".to_owned());
			// an explicit "jar" on the dependency meets an entry that leaves the type out (jar is the default)
			let entry_type = ea.type_.filter(|t| *t != "jar").map(str::to_owned);
			let mk = |version: u8, scope: Option<Sc>| MgDecl { artifact: tname.clone(), version: vs(version), scope, classifier: classifier.clone(), type_: entry_type.clone(), import: false };
			let mut version_given = true;
			if let Some(m) = ea.mgmt {
				let (given, primary, shadow, _, _) = MGMT[m];
				version_given = given;
				let pv = if given { other(*v) } else { *v };
				fam.add_entry(primary, mk(pv, ea.mscope));
				if let Some(sh) = shadow {
					let shadow_scope = ea.mscope.map(|s| if s == Sc::Test { Sc::Runtime } else { Sc::Test });
					fam.add_entry(sh, mk(other(pv), shadow_scope));
				}
			} else if let Some(s) = ea.mscope {
				fam.add_entry(Src::Own, mk(*v, Some(s)));
			}
			fam.pom("").pom.deps.push(DepDecl {
				artifact: tname.clone(),
				version: version_given.then(|| vs(*v)),
				scope: ea.scope,
				optional: ea.optional,
				classifier: classifier.clone(),
				type_: ea.type_.map(str::to_owned),
			});
		}
		if let Some((t, v)) = pa.pdep {
			let tname = ARTS[t as usize].to_owned();
			let dep = |version: Option<u8>, scope: Option<Sc>, optional: Option<bool>| DepDecl { artifact: tname.clone(), version: version.map(vs), scope, optional, classifier: None, type_: None };
			let ent = |version: u8, scope: Option<Sc>| MgDecl { artifact: tname.clone(), version: vs(version), scope, classifier: None, type_: None, import: false };
			let at = fam.ensure(Src::Parent);
			match pa.pdep_mode.unwrap_or(PdMode::Plain) {
				PdMode::Plain => fam.pom(at).pom.deps.push(dep(Some(v), None, None)),
				PdMode::ManagedByParent => {
					fam.pom(at).pom.deps.push(dep(None, None, None));
					fam.add_entry(Src::Parent, ent(v, None));
				},
				PdMode::ChildOverridesVersion => {
					fam.pom(at).pom.deps.push(dep(None, None, None));
					fam.add_entry(Src::Parent, ent(other(v), None));
					fam.add_entry(Src::Own, ent(v, None));
				},
				PdMode::ManagedByChildOnly => {
					fam.pom(at).pom.deps.push(dep(None, None, None));
					fam.add_entry(Src::Own, ent(v, None));
				},
				PdMode::ChildManagesScope => {
					fam.pom(at).pom.deps.push(dep(Some(v), None, None));
					fam.add_entry(Src::Own, ent(v, Some(Sc::Test)));
				},
				PdMode::RuntimeScope => fam.pom(at).pom.deps.push(dep(Some(v), Some(Sc::Runtime), None)),
				PdMode::OptionalTrue => fam.pom(at).pom.deps.push(dep(Some(v), None, Some(true))),
				PdMode::InGrandparent => {
					let g = fam.ensure(Src::Grand);
					fam.pom(g).pom.deps.push(dep(Some(v), None, None));
				},
			}
		}
		if pa.inherit_group {
			fam.ensure(Src::Parent);
			fam.pom("").pom.write_group = false;
		}
		if pa.inherit_version {
			fam.ensure(Src::Parent);
			fam.pom("").pom.write_version = false;
		}
		fam.pom("").pom.render = pa.render;
		let has_aux = fam.poms.len() > 1;
		if pa.repo == RepoMode::AuxInSecond && !has_aux {
			return None;
		}
		for (suffix, pb) in fam.poms {
			let mut pom = pb.pom;
			// managed entries are declared before the imports (supported subset)
			pom.dm = pb.entries;
			let version = pom.version.clone();
			pom.dm.extend(pb.imports.into_iter().map(|a| MgDecl { artifact: a, version: version.clone(), scope: None, classifier: None, type_: None, import: true }));
			match pom.render {
				Render::EmptyDeps if !pom.deps.is_empty() => return None,
				Render::EmptyDm | Render::EmptyDmDeps if !pom.dm.is_empty() => return None,
				_ => {},
			}
			if suffix.is_empty() {
				match pa.repo {
					RepoMode::First | RepoMode::AuxInSecond => files.push((0, pom)),
					RepoMode::SecondOnly => files.push((1, pom)),
					RepoMode::BothWithDecoy => {
						let mut decoy = pom.clone();
						for d in &mut decoy.deps {
							if let Some(v) = &mut d.version {
								*v = if v == "1" { "2".to_owned() } else { "1".to_owned() };
							}
						}
						if decoy.deps.is_empty() && (art as usize) + 1 < b.n {
							decoy.deps.push(DepDecl { artifact: ARTS[art as usize + 1].to_owned(), version: Some("1".to_owned()), scope: None, optional: None, classifier: None, type_: None });
							if decoy.render == Render::EmptyDeps {
								decoy.render = Render::Compact;
							}
						}
						if decoy == pom {
							return None;
						}
						files.push((0, pom));
						files.push((1, decoy));
					},
				}
			} else {
				files.push((if pa.repo == RepoMode::AuxInSecond { 1 } else { 0 }, pom));
			}
		}
	}
	Some(Universe {
		repos: vec![("first".to_owned(), "mem://one.invalid/repo".to_owned()), ("second".to_owned(), "mem://two.invalid/maven/".to_owned())],
		files,
		roots,
	})
}
