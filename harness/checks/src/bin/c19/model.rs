//! The declared POM universe (what is written in the files), its XML rendering and the repository layout.
//! Nothing in here knows anything about resolution.

use std::collections::BTreeMap;

pub const GROUP: &str = "o.g";

#[derive(Clone, Copy, Debug, PartialEq, Eq, Hash, PartialOrd, Ord)]
pub enum Sc {
	Compile,
	Runtime,
	Provided,
	Test,
	System,
}

pub const SCOPES: [Sc; 5] = [Sc::Compile, Sc::Runtime, Sc::Provided, Sc::Test, Sc::System];

impl Sc {
	pub fn name(self) -> &'static str {
		match self {
			Sc::Compile => "compile",
			Sc::Runtime => "runtime",
			Sc::Provided => "provided",
			Sc::Test => "test",
			Sc::System => "system",
		}
	}
	pub fn idx(self) -> usize {
		self as usize
	}
}

/// one `<dependency>` of a `<dependencies>` section, as written (group is always [`GROUP`])
#[derive(Clone, Debug, PartialEq, Eq, Hash)]
pub struct DepDecl {
	pub artifact: String,
	pub version: Option<String>,
	pub scope: Option<Sc>,
	pub optional: Option<bool>,
	pub classifier: Option<String>,
	pub type_: Option<String>,
}

/// one `<dependency>` of a `<dependencyManagement>` section, as written; `import` = `<type>pom</type><scope>import</scope>`
#[derive(Clone, Debug, PartialEq, Eq, Hash)]
pub struct MgDecl {
	pub artifact: String,
	pub version: String,
	pub scope: Option<Sc>,
	pub classifier: Option<String>,
	pub type_: Option<String>,
	pub import: bool,
}

#[derive(Clone, Copy, Debug, PartialEq, Eq, Hash, Default)]
pub enum Render {
	#[default]
	Compact,
	/// xml declaration, namespace attributes, unrelated elements (name, licenses, a build plugin with its own dependencies, repositories)
	Extras,
	/// children of `<project>` and of every `<dependency>` in reverse order
	Reordered,
	/// indentation, line breaks and comments
	Pretty,
	/// `<dependencies/>` written although there is no dependency
	EmptyDeps,
	/// `<dependencyManagement/>` written although nothing is managed
	EmptyDm,
	/// `<dependencyManagement><dependencies/></dependencyManagement>`
	EmptyDmDeps,
}

#[derive(Clone, Debug, PartialEq, Eq, Hash)]
pub struct Pom {
	/// the coordinates the file is stored under
	pub artifact: String,
	pub version: String,
	/// whether `<groupId>` / `<version>` are written (otherwise they come from the parent)
	pub write_group: bool,
	pub write_version: bool,
	/// `<parent>`: (artifact, version), group is [`GROUP`]
	pub parent: Option<(String, String)>,
	pub packaging_pom: bool,
	pub dm: Vec<MgDecl>,
	pub deps: Vec<DepDecl>,
	pub render: Render,
}

#[derive(Clone, Debug, PartialEq, Eq, Hash)]
pub struct RootDecl {
	pub artifact: String,
	pub version: String,
	pub classifier: Option<String>,
	pub type_: String,
	pub scope: Sc,
}

#[derive(Clone, Debug, PartialEq, Eq, Hash)]
pub struct Universe {
	/// (name, url) in the order they are given to the resolver
	pub repos: Vec<(String, String)>,
	/// (index of the repository serving it, the file)
	pub files: Vec<(usize, Pom)>,
	pub roots: Vec<RootDecl>,
}

/// Maven repository layout: `<repo>/<group with slashes>/<artifact>/<version>/<artifact>-<version>.pom`
pub fn pom_url(repo_url: &str, group: &str, artifact: &str, version: &str) -> String {
	let mut s = String::from(repo_url);
	if !s.ends_with('/') {
		s.push('/');
	}
	s.push_str(&group.replace('.', "/"));
	s.push('/');
	s.push_str(artifact);
	s.push('/');
	s.push_str(version);
	s.push('/');
	s.push_str(artifact);
	s.push('-');
	s.push_str(version);
	s.push_str(".pom");
	s
}

impl Universe {
	/// url → xml text of everything the repositories serve
	pub fn served(&self) -> BTreeMap<String, String> {
		let mut m = BTreeMap::new();
		for (repo, pom) in &self.files {
			let url = pom_url(&self.repos[*repo].1, GROUP, &pom.artifact, &pom.version);
			if m.insert(url, render(pom)).is_some() {
				vcore::machinery_fail("generator produced two files for one url");
			}
		}
		m
	}

	pub fn describe(&self) -> String {
		let mut s = String::new();
		s.push_str("repositories (in resolver order):\n");
		for (n, u) in &self.repos {
			s.push_str(&format!("  {n:?} at {u}\n"));
		}
		s.push_str("roots (in order):\n");
		for r in &self.roots {
			s.push_str(&format!("  {}:{}:{}{}:{} scope={}\n", GROUP, r.artifact, r.type_, r.classifier.as_deref().map(|c| format!(":{c}")).unwrap_or_default(), r.version, r.scope.name()));
		}
		s.push_str("files:\n");
		for (url, xml) in self.served() {
			s.push_str(&format!("  {url}\n    {}\n", xml.replace('\n', "\n    ")));
		}
		s
	}
}

fn el(name: &str, text: &str) -> String {
	format!("<{name}>{text}</{name}>")
}

fn dep_children(artifact: &str, version: Option<&str>, type_: Option<&str>, classifier: Option<&str>, scope: Option<&str>, optional: Option<bool>) -> Vec<String> {
	let mut c = vec![el("groupId", GROUP), el("artifactId", artifact)];
	if let Some(v) = version {
		c.push(el("version", v));
	}
	if let Some(t) = type_ {
		c.push(el("type", t));
	}
	if let Some(k) = classifier {
		c.push(el("classifier", k));
	}
	if let Some(s) = scope {
		c.push(el("scope", s));
	}
	if let Some(o) = optional {
		c.push(el("optional", if o { "true" } else { "false" }));
	}
	c
}

pub fn render(p: &Pom) -> String {
	let rev = p.render == Render::Reordered;
	let (nl, ind) = if p.render == Render::Pretty { ("\n", "\t") } else { ("", "") };
	let wrap = |name: &str, mut children: Vec<String>, depth: usize| -> String {
		// the order of the <dependency> elements is the declaration order and is never changed
		if rev && name != "dependencies" {
			children.reverse();
		}
		let pad = ind.repeat(depth);
		let mut s = format!("<{name}>{nl}");
		for c in children {
			s.push_str(&pad);
			s.push_str(ind);
			s.push_str(&c);
			s.push_str(nl);
		}
		s.push_str(&pad);
		s.push_str(&format!("</{name}>"));
		s
	};
	let mut top: Vec<String> = vec![el("modelVersion", "4.0.0")];
	if p.render == Render::Extras {
		top.push(el("name", "Some Name"));
		top.push(el("url", "https://example.invalid/"));
		top.push("<licenses><license><name>MIT</name><url>https://example.invalid/mit</url></license></licenses>".to_owned());
	}
	if let Some((pa, pv)) = &p.parent {
		top.push(wrap("parent", vec![el("groupId", GROUP), el("artifactId", pa), el("version", pv)], 1));
	}
	if p.write_group {
		top.push(el("groupId", GROUP));
	}
	top.push(el("artifactId", &p.artifact));
	if p.write_version {
		top.push(el("version", &p.version));
	}
	if p.packaging_pom {
		top.push(el("packaging", "pom"));
	}
	if !p.dm.is_empty() {
		let deps: Vec<String> = p.dm.iter().map(|m| {
			let (ty, sc) = if m.import { (Some("pom"), Some("import")) } else { (m.type_.as_deref(), m.scope.map(Sc::name)) };
			wrap("dependency", dep_children(&m.artifact, Some(&m.version), ty, m.classifier.as_deref(), sc, None), 3)
		}).collect();
		let inner = wrap("dependencies", deps, 2);
		top.push(wrap("dependencyManagement", vec![inner], 1));
	} else if p.render == Render::EmptyDm {
		top.push("<dependencyManagement/>".to_owned());
	} else if p.render == Render::EmptyDmDeps {
		top.push("<dependencyManagement><dependencies/></dependencyManagement>".to_owned());
	}
	if !p.deps.is_empty() {
		let deps: Vec<String> = p.deps.iter().map(|d| {
			wrap("dependency", dep_children(&d.artifact, d.version.as_deref(), d.type_.as_deref(), d.classifier.as_deref(), d.scope.map(Sc::name), d.optional), 2)
		}).collect();
		top.push(wrap("dependencies", deps, 1));
	} else if p.render == Render::EmptyDeps {
		top.push("<dependencies/>".to_owned());
	}
	if p.render == Render::Extras {
		// a plugin's own dependencies are not dependencies of the project
		top.push("<build><plugins><plugin><groupId>x.y</groupId><artifactId>some-plugin</artifactId><version>3</version><dependencies><dependency><groupId>x.y</groupId><artifactId>plugin-dep</artifactId><version>9</version></dependency></dependencies></plugin></plugins></build>".to_owned());
		top.push("<repositories><repository><id>r</id><url>https://example.invalid/repo</url></repository></repositories>".to_owned());
	}
	if p.render == Render::Pretty {
		top.insert(1, "<!-- a comment -->".to_owned());
	}
	let body = wrap("project", top, 0);
	match p.render {
		Render::Extras => {
			let attrs = " xmlns=\"http://maven.apache.org/POM/4.0.0\" xmlns:xsi=\"http://www.w3.org/2001/XMLSchema-instance\" xsi:schemaLocation=\"http://maven.apache.org/POM/4.0.0 https://maven.apache.org/xsd/maven-4.0.0.xsd\"";
			format!("<?xml version=\"1.0\" encoding=\"UTF-8\"?>\n<project{attrs}{}", &body["<project".len()..])
		},
		Render::Pretty => format!("<?xml version=\"1.0\" encoding=\"UTF-8\"?>\n{body}\n"),
		_ => body,
	}
}
