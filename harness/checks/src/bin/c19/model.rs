//! The declared POM universe (what is written in the files), its XML rendering and the repository layout.
//! Nothing in here knows anything about resolution.

use std::collections::BTreeMap;

pub const GROUP: &str = "o.g";

#[derive(Clone, Copy, Debug, PartialEq, Eq, Hash, PartialOrd, Ord)]
pub enum Sc {
	Compile,
	Runtime,
	Provided,
	Test,
	System,
}

pub const SCOPES: [Sc; 5] = [Sc::Compile, Sc::Runtime, Sc::Provided, Sc::Test, Sc::System];

impl Sc {
	pub fn name(self) -> &'static str {
		match self {
			Sc::Compile => "compile",
			Sc::Runtime => "runtime",
			Sc::Provided => "provided",
			Sc::Test => "test",
			Sc::System => "system",
		}
	}
	pub fn idx(self) -> usize {
		self as usize
	}
}

/// one `<dependency>` of a `<dependencies>` section, as written
#[derive(Clone, Debug, PartialEq, Eq, Hash)]
pub struct DepDecl {
	pub group: String,
	pub artifact: String,
	pub version: Option<String>,
	pub scope: Option<Sc>,
	pub optional: Option<bool>,
	pub classifier: Option<String>,
	pub type_: Option<String>,
}

/// one `<dependency>` of a `<dependencyManagement>` section, as written; `import` = `<type>pom</type><scope>import</scope>`
#[derive(Clone, Debug, PartialEq, Eq, Hash)]
pub struct MgDecl {
	pub group: String,
	pub artifact: String,
	pub version: String,
	pub scope: Option<Sc>,
	pub classifier: Option<String>,
	pub type_: Option<String>,
	pub import: bool,
}

#[derive(Clone, Copy, Debug, PartialEq, Eq, Hash, Default)]
pub enum Render {
	#[default]
	Compact,
	/// xml declaration, namespace attributes, unrelated elements (name, licenses, a build plugin with its own dependencies, repositories)
	Extras,
	/// children of `<project>` and of every `<dependency>` in reverse order
	Reordered,
	/// indentation, line breaks and comments
	Pretty,
	/// `<dependencies/>` written although there is no dependency
	EmptyDeps,
	/// `<dependencyManagement/>` written although nothing is managed
	EmptyDm,
	/// `<dependencyManagement><dependencies/></dependencyManagement>`
	EmptyDmDeps,
}

#[derive(Clone, Debug, PartialEq, Eq, Hash)]
pub struct Pom {
	/// the coordinates the file is stored under
	pub group: String,
	pub artifact: String,
	pub version: String,
	/// whether `<groupId>` / `<version>` are written (otherwise they come from the parent)
	pub write_group: bool,
	pub write_version: bool,
	/// `<parent>`: (group, artifact, version)
	pub parent: Option<(String, String, String)>,
	/// `<packaging>`; parents and BOMs have `pom`
	pub packaging: Option<String>,
	/// `<modelVersion>`; anything but 4.0.0 is outside the statement's domain
	pub model_version: String,
	pub dm: Vec<MgDecl>,
	pub deps: Vec<DepDecl>,
	pub render: Render,
}

#[derive(Clone, Debug, PartialEq, Eq, Hash)]
pub struct RootDecl {
	pub group: String,
	pub artifact: String,
	pub version: String,
	pub classifier: Option<String>,
	pub type_: String,
	pub scope: Sc,
}

#[derive(Clone, Debug, PartialEq, Eq, Hash)]
pub struct Universe {
	/// (name, url) in the order they are given to the resolver
	pub repos: Vec<(String, String)>,
	/// (index of the repository serving it, the file)
	pub files: Vec<(usize, Pom)>,
	pub roots: Vec<RootDecl>,
}

/// The directory of a timestamped snapshot build is the one of its base version: a version of the form
/// `<base>-<yyyymmdd.hhmmss>-<build number>` lives in `<base>-SNAPSHOT/` (Maven repository layout,
/// pattern `^(.*)-(\d{8}\.\d{6})-(\d+)$` with ASCII digits).
pub fn base_version(version: &str) -> String {
	let b = version.as_bytes();
	let digits = |r: &[u8]| !r.is_empty() && r.iter().all(u8::is_ascii_digit);
	// build number: the longest run of ASCII digits at the end
	let mut i = b.len();
	while i > 0 && b[i - 1].is_ascii_digit() {
		i -= 1;
	}
	// "-" + 8 digits + "." + 6 digits + "-" before it
	const STAMP: usize = 1 + 8 + 1 + 6 + 1;
	if i == b.len() || i < STAMP {
		return version.to_owned();
	}
	let s = i - STAMP;
	let ok = b[s] == b'-' && digits(&b[s + 1..s + 9]) && b[s + 9] == b'.' && digits(&b[s + 10..s + 16]) && b[s + 16] == b'-';
	if !ok {
		return version.to_owned();
	}
	// b[s] is an ASCII byte, so s is a character boundary
	format!("{}-SNAPSHOT", &version[..s])
}

/// Maven repository layout: `<repo>/<group with slashes>/<artifact>/<base version>/<artifact>-<version>.pom`
pub fn pom_url(repo_url: &str, group: &str, artifact: &str, version: &str) -> String {
	let mut s = String::from(repo_url);
	if !s.ends_with('/') {
		s.push('/');
	}
	for seg in group.split('.') {
		s.push_str(seg);
		s.push('/');
	}
	s.push_str(artifact);
	s.push('/');
	s.push_str(&base_version(version));
	s.push('/');
	s.push_str(artifact);
	s.push('-');
	s.push_str(version);
	s.push_str(".pom");
	s
}

pub fn show_coord(group: &str, artifact: &str, type_: &str, classifier: Option<&str>, version: &str) -> String {
	format!("{group}:{artifact}:{type_}{}:{version}", classifier.map(|c| format!(":{c}")).unwrap_or_default())
}

impl Universe {
	/// url → xml text of everything the repositories serve
	pub fn served(&self) -> BTreeMap<String, String> {
		let mut m = BTreeMap::new();
		for (repo, pom) in &self.files {
			let url = pom_url(&self.repos[*repo].1, &pom.group, &pom.artifact, &pom.version);
			if m.insert(url, render(pom)).is_some() {
				vcore::machinery_fail("generator produced two files for one url");
			}
		}
		m
	}

	pub fn describe(&self) -> String {
		let mut s = String::new();
		s.push_str("repositories (in resolver order):\n");
		for (n, u) in &self.repos {
			s.push_str(&format!("  {n:?} at {u}\n"));
		}
		s.push_str("roots (in order):\n");
		for r in &self.roots {
			s.push_str(&format!("  {} scope={}\n", show_coord(&r.group, &r.artifact, &r.type_, r.classifier.as_deref(), &r.version), r.scope.name()));
		}
		s.push_str("files:\n");
		for (url, xml) in self.served() {
			s.push_str(&format!("  {url}\n    {}\n", xml.replace('\n', "\n    ")));
		}
		s
	}
}

fn el(name: &str, text: &str) -> String {
	format!("<{name}>{text}</{name}>")
}

fn dep_children(group: &str, artifact: &str, version: Option<&str>, type_: Option<&str>, classifier: Option<&str>, scope: Option<&str>, optional: Option<bool>) -> Vec<String> {
	let mut c = vec![el("groupId", group), el("artifactId", artifact)];
	if let Some(v) = version {
		c.push(el("version", v));
	}
	if let Some(t) = type_ {
		c.push(el("type", t));
	}
	if let Some(k) = classifier {
		c.push(el("classifier", k));
	}
	if let Some(s) = scope {
		c.push(el("scope", s));
	}
	if let Some(o) = optional {
		c.push(el("optional", if o { "true" } else { "false" }));
	}
	c
}

pub fn render(p: &Pom) -> String {
	let rev = p.render == Render::Reordered;
	let (nl, ind) = if p.render == Render::Pretty { ("\n", "\t") } else { ("", "") };
	let wrap = |name: &str, mut children: Vec<String>, depth: usize| -> String {
		// the order of the <dependency> elements is the declaration order and is never changed
		if rev && name != "dependencies" {
			children.reverse();
		}
		let pad = ind.repeat(depth);
		let mut s = format!("<{name}>{nl}");
		for c in children {
			s.push_str(&pad);
			s.push_str(ind);
			s.push_str(&c);
			s.push_str(nl);
		}
		s.push_str(&pad);
		s.push_str(&format!("</{name}>"));
		s
	};
	let mut top: Vec<String> = vec![el("modelVersion", &p.model_version)];
	if p.render == Render::Extras {
		top.push(el("name", "Some Name"));
		top.push(el("url", "https://example.invalid/"));
		top.push("<licenses><license><name>MIT</name><url>https://example.invalid/mit</url></license></licenses>".to_owned());
	}
	if let Some((pg, pa, pv)) = &p.parent {
		top.push(wrap("parent", vec![el("groupId", pg), el("artifactId", pa), el("version", pv)], 1));
	}
	if p.write_group {
		top.push(el("groupId", &p.group));
	}
	top.push(el("artifactId", &p.artifact));
	if p.write_version {
		top.push(el("version", &p.version));
	}
	if let Some(pk) = &p.packaging {
		top.push(el("packaging", pk));
	}
	if !p.dm.is_empty() {
		let deps: Vec<String> = p.dm.iter().map(|m| {
			let (ty, sc) = if m.import { (Some("pom"), Some("import")) } else { (m.type_.as_deref(), m.scope.map(Sc::name)) };
			wrap("dependency", dep_children(&m.group, &m.artifact, Some(&m.version), ty, m.classifier.as_deref(), sc, None), 3)
		}).collect();
		let inner = wrap("dependencies", deps, 2);
		top.push(wrap("dependencyManagement", vec![inner], 1));
	} else if p.render == Render::EmptyDm {
		top.push("<dependencyManagement/>".to_owned());
	} else if p.render == Render::EmptyDmDeps {
		top.push("<dependencyManagement><dependencies/></dependencyManagement>".to_owned());
	}
	if !p.deps.is_empty() {
		let deps: Vec<String> = p.deps.iter().map(|d| {
			wrap("dependency", dep_children(&d.group, &d.artifact, d.version.as_deref(), d.type_.as_deref(), d.classifier.as_deref(), d.scope.map(Sc::name), d.optional), 2)
		}).collect();
		top.push(wrap("dependencies", deps, 1));
	} else if p.render == Render::EmptyDeps {
		top.push("<dependencies/>".to_owned());
	}
	if p.render == Render::Extras {
		// a plugin's own dependencies are not dependencies of the project
		top.push("<build><plugins><plugin><groupId>x.y</groupId><artifactId>some-plugin</artifactId><version>3</version><dependencies><dependency><groupId>x.y</groupId><artifactId>plugin-dep</artifactId><version>9</version></dependency></dependencies></plugin></plugins></build>".to_owned());
		top.push("<repositories><repository><id>r</id><url>https://example.invalid/repo</url></repository></repositories>".to_owned());
	}
	if p.render == Render::Pretty {
		top.insert(1, "<!-- a comment -->".to_owned());
	}
	let body = wrap("project", top, 0);
	match p.render {
		Render::Extras => {
			let attrs = " xmlns=\"http://maven.apache.org/POM/4.0.0\" xmlns:xsi=\"http://www.w3.org/2001/XMLSchema-instance\" xsi:schemaLocation=\"http://maven.apache.org/POM/4.0.0 https://maven.apache.org/xsd/maven-4.0.0.xsd\"";
			format!("<?xml version=\"1.0\" encoding=\"UTF-8\"?>\n<project{attrs}{}", &body["<project".len()..])
		},
		Render::Pretty => format!("<?xml version=\"1.0\" encoding=\"UTF-8\"?>\n{body}\n"),
		_ => body,
	}
}

// ---------------------------------------------------------------------------------------------
// naming: the generated universes use one group, one-letter artifact ids and the versions 1 and 2; a naming
// replaces them consistently (the structure stays what it is)

#[derive(Clone, Debug, PartialEq, Eq)]
pub struct Naming {
	pub label: String,
	/// per base artifact (a, b, c, d): (group, artifactId)
	pub arts: Vec<(String, String)>,
	/// parents and BOMs live in `<group of their artifact><suffix>` instead of the artifact's own group
	pub aux_group_suffix: Option<String>,
	/// what the versions 1 and 2 are called
	pub versions: [String; 2],
	/// what the classifier `k` is called
	pub classifier: String,
	/// one more path segment at the end of every repository url (a trailing slash stays one)
	pub repo_tail: Option<String>,
}

impl Naming {
	pub fn identity(label: &str) -> Naming {
		Naming {
			label: label.to_owned(),
			arts: ["a", "b", "c", "d"].iter().map(|a| (GROUP.to_owned(), (*a).to_owned())).collect(),
			aux_group_suffix: None,
			versions: ["1".to_owned(), "2".to_owned()],
			classifier: "k".to_owned(),
			repo_tail: None,
		}
	}

	fn name(&self, group: &str, artifact: &str) -> (String, String) {
		if group != GROUP {
			// a name that is not the universe's own (an entry about somebody else's artifact) stays
			return (group.to_owned(), artifact.to_owned());
		}
		let mut it = artifact.chars();
		let idx = match it.next() {
			Some(c @ 'a'..='d') => c as usize - 'a' as usize,
			_ => vcore::machinery_fail(&format!("naming: {group}:{artifact} is not a generated name")),
		};
		let suffix = it.as_str();
		let (g, id) = &self.arts[idx];
		let group = match (&self.aux_group_suffix, suffix.is_empty()) {
			(Some(s), false) => format!("{g}{s}"),
			_ => g.clone(),
		};
		(group, format!("{id}{suffix}"))
	}

	fn version(&self, v: &str) -> String {
		match v {
			"1" => self.versions[0].clone(),
			"2" => self.versions[1].clone(),
			_ => vcore::machinery_fail(&format!("naming: {v} is not a generated version")),
		}
	}

	fn classifier(&self, c: &Option<String>) -> Option<String> {
		c.as_ref().map(|c| if c == "k" { self.classifier.clone() } else { c.clone() })
	}

	pub fn apply(&self, u: &Universe) -> Universe {
		let mut out = u.clone();
		if let Some(tail) = &self.repo_tail {
			for (_, url) in &mut out.repos {
				*url = match url.strip_suffix('/') {
					Some(u) => format!("{u}/{tail}/"),
					None => format!("{url}/{tail}"),
				};
			}
		}
		for r in &mut out.roots {
			(r.group, r.artifact) = self.name(&r.group, &r.artifact);
			r.version = self.version(&r.version);
			r.classifier = self.classifier(&r.classifier);
		}
		for (_, p) in &mut out.files {
			(p.group, p.artifact) = self.name(&p.group, &p.artifact);
			p.version = self.version(&p.version);
			if let Some((g, a, v)) = &mut p.parent {
				(*g, *a) = self.name(g, a);
				*v = self.version(v);
			}
			for m in &mut p.dm {
				(m.group, m.artifact) = self.name(&m.group, &m.artifact);
				m.version = self.version(&m.version);
				m.classifier = self.classifier(&m.classifier);
			}
			for d in &mut p.deps {
				(d.group, d.artifact) = self.name(&d.group, &d.artifact);
				d.version = d.version.as_deref().map(|v| self.version(v));
				d.classifier = self.classifier(&d.classifier);
			}
		}
		out
	}
}
