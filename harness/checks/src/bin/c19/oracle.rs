//! Reference resolver, written from the property statement and the Maven documentation
//! ("Introduction to the Dependency Mechanism", "Introduction to the POM"):
//!
//! * a repository list is tried in order, the first repository that has the POM serves it;
//! * effective POM: the parent's dependencies and dependency management are inherited, the current
//!   POM's management declaration takes precedence over its parent's; import-scoped BOMs contribute the
//!   entries that are not declared otherwise, the first imported BOM taking precedence over later ones,
//!   recursively;
//! * dependency management fills in an omitted version and an omitted scope of a dependency with the same
//!   {groupId, artifactId, type, classifier}, nothing else; a type whose artifact handler has a classifier
//!   (test-jar → tests, ejb-client → client, java-source → sources, javadoc → javadoc: "Default Artifact
//!   Handlers Reference") implies that classifier where none is written;
//! * transitive dependencies: optional ones and those of scope provided/test (system: "similar to
//!   provided") are omitted, the others get their scope from the scope table;
//! * mediation: per {groupId, artifactId, classifier, type} the occurrence nearest to the roots wins, the
//!   first declaration wins among equals, whatever hangs below a loser is not part of the graph;
//! * the result lists the winners breadth-first.

use std::collections::{BTreeMap, BTreeSet};
use crate::model::*;

/// Points on which the documentation is silent or ambiguous (tolerances), plus one switch that
/// reproduces a *known deviant* reading, used only to give a difference a narrow key.
#[derive(Clone, Copy, Debug, PartialEq, Eq)]
pub struct Sem {
	/// inherited dependencies are listed before (true) or after (false) the POM's own ones
	pub inherited_first: bool,
	/// what hangs below a dependency of scope system is reported as provided (true) or system (false)
	pub system_as_provided: bool,
	/// NOT a tolerance: a parent's dependencies are completed with the parent's management only
	pub parent_context: bool,
}

/// (group, artifact, classifier, type)
pub type Key = (String, String, Option<String>, String);

#[derive(Clone, Copy, Debug, PartialEq, Eq, PartialOrd, Ord)]
pub enum Origin {
	Own,
	Parent,
	Bom,
}

#[derive(Clone, Debug)]
pub struct MEntry {
	pub key: Key,
	pub version: String,
	pub scope: Option<Sc>,
	pub origin: Origin,
}

#[derive(Clone, Debug)]
pub struct EffDep {
	pub key: Key,
	pub version: String,
	pub scope: Option<Sc>,
	pub optional: bool,
	pub version_from: Option<Origin>,
	pub scope_from: Option<Origin>,
}

#[derive(Clone, Debug, PartialEq, Eq, Hash, PartialOrd, Ord)]
pub struct Found {
	pub group: String,
	pub artifact: String,
	pub version: String,
	pub classifier: Option<String>,
	pub type_: String,
	pub scope: Sc,
	pub repo_name: String,
	pub repo_url: String,
}

impl Found {
	pub fn show(&self) -> String {
		format!("{}:{} @ {} ({})", show_coord(&self.group, &self.artifact, &self.type_, self.classifier.as_deref(), &self.version), self.scope.name(), self.repo_url, self.repo_name)
	}
}

/// Why a universe cannot be resolved under the given reading.
#[derive(Clone, Debug, PartialEq, Eq)]
pub enum Fail {
	NoSuchPom(String),
	NoVersion(String),
	TooDeep,
}

#[derive(Clone, Debug, Default)]
pub struct Facts {
	/// losers that had another version than the winner and were deeper than it
	pub nearer_won: u32,
	/// losers that had another version than the winner at the same depth
	pub ties: u32,
	/// losers with the winner's version
	pub duplicates: u32,
	/// some artifact is reachable only below losers
	pub discarded_contribution: bool,
	/// `[scope of the dependent][scope of the dependency]`
	pub cells: [[u32; 5]; 5],
	pub optional_cuts: u32,
	pub version_fills: [u32; 3],
	pub scope_fills: [u32; 3],
	pub second_repo_results: u32,
	pub third_repo_results: u32,
	pub classifier_or_type_results: u32,
	/// results whose classifier is the one their type implies
	pub implied_classifier_results: u32,
	/// deepest level at which something was listed
	pub max_depth: u32,
	/// an occurrence lost against an occurrence of the same artifact on its own path to the roots
	pub lost_to_own_ancestor: u32,
}

#[derive(Clone, Debug)]
pub struct Resolved {
	pub list: Vec<Found>,
	pub facts: Facts,
}

/// The scope table of "Introduction to the Dependency Mechanism": row = scope of the dependency that
/// brings the transitive one, column = scope of the transitive one; `None` = omitted.
pub fn compose(left: Sc, top: Sc, sem: Sem) -> Option<Sc> {
	use Sc::*;
	match (left, top) {
		(Compile, Compile) => Some(Compile),
		(Compile, Runtime) => Some(Runtime),
		(Provided, Compile) | (Provided, Runtime) => Some(Provided),
		(Runtime, Compile) | (Runtime, Runtime) => Some(Runtime),
		(Test, Compile) | (Test, Runtime) => Some(Test),
		// not in the table; "similar to provided"
		(System, Compile) | (System, Runtime) => Some(if sem.system_as_provided { Provided } else { System }),
		(_, Provided) | (_, Test) | (_, System) => None,
	}
}

/// the classifier column of the default artifact handlers
pub fn implied_classifier(type_: &str) -> Option<&'static str> {
	match type_ {
		"test-jar" => Some("tests"),
		"ejb-client" => Some("client"),
		"java-source" => Some("sources"),
		"javadoc" => Some("javadoc"),
		_ => None,
	}
}

fn key_of(group: &str, artifact: &str, classifier: &Option<String>, type_: &Option<String>) -> Key {
	let type_ = type_.clone().unwrap_or_else(|| "jar".to_owned());
	let classifier = classifier.clone().or_else(|| implied_classifier(&type_).map(str::to_owned));
	(group.to_owned(), artifact.to_owned(), classifier, type_)
}

pub fn locate<'u>(u: &'u Universe, group: &str, artifact: &str, version: &str) -> Option<(usize, &'u Pom)> {
	u.files.iter().filter(|(_, p)| p.group == group && p.artifact == artifact && p.version == version).min_by_key(|(r, _)| *r).map(|(r, p)| (*r, p))
}

fn need<'u>(u: &'u Universe, group: &str, artifact: &str, version: &str) -> Result<&'u Pom, Fail> {
	locate(u, group, artifact, version).map(|(_, p)| p).ok_or_else(|| Fail::NoSuchPom(format!("{group}:{artifact}:{version}")))
}

/// no chain of an acyclic universe is longer than its number of files
fn max_depth(u: &Universe) -> usize {
	u.files.len() + u.roots.len() + 2
}

type RawDm = Vec<(MgDecl, Origin)>;

fn dm_key(m: &MgDecl) -> Key {
	if m.import { (m.group.clone(), m.artifact.clone(), None, "pom".to_owned()) } else { key_of(&m.group, &m.artifact, &m.classifier, &m.type_) }
}

/// inheritance: the model after merging the whole parent chain, nothing completed yet
fn inherited_model(u: &Universe, group: &str, artifact: &str, version: &str, sem: Sem, depth: usize) -> Result<(Vec<DepDecl>, RawDm), Fail> {
	if depth > max_depth(u) {
		return Err(Fail::TooDeep);
	}
	let pom = need(u, group, artifact, version)?;
	let own_deps = pom.deps.clone();
	let mut dm: RawDm = pom.dm.iter().cloned().map(|m| (m, Origin::Own)).collect();
	let mut deps = own_deps;
	if let Some((pg, pa, pv)) = &pom.parent {
		let (pdeps, pdm) = inherited_model(u, pg, pa, pv, sem, depth + 1)?;
		if sem.inherited_first {
			let mut all = pdeps;
			all.extend(deps);
			deps = all;
		} else {
			deps.extend(pdeps);
		}
		for (m, o) in pdm {
			if !dm.iter().any(|(x, _)| dm_key(x) == dm_key(&m)) {
				dm.push((m, if o == Origin::Bom { Origin::Bom } else { Origin::Parent }));
			}
		}
	}
	Ok((deps, dm))
}

/// the management section of the effective POM: declared (own, then inherited) entries, then what the imports add
pub fn effective_dm(u: &Universe, group: &str, artifact: &str, version: &str, sem: Sem, depth: usize) -> Result<Vec<MEntry>, Fail> {
	if depth > max_depth(u) {
		return Err(Fail::TooDeep);
	}
	let (_, raw) = inherited_model(u, group, artifact, version, sem, depth)?;
	let mut out: Vec<MEntry> = Vec::new();
	for (m, o) in raw.iter().filter(|(m, _)| !m.import) {
		out.push(MEntry { key: dm_key(m), version: m.version.clone(), scope: m.scope, origin: *o });
	}
	for (m, _) in raw.iter().filter(|(m, _)| m.import) {
		for e in effective_dm(u, &m.group, &m.artifact, &m.version, sem, depth + 1)? {
			if !out.iter().any(|x| x.key == e.key) {
				out.push(MEntry { origin: Origin::Bom, ..e });
			}
		}
	}
	Ok(out)
}

fn complete(d: &DepDecl, dm: &[MEntry]) -> Result<EffDep, Fail> {
	let key = key_of(&d.group, &d.artifact, &d.classifier, &d.type_);
	let entry = dm.iter().find(|e| e.key == key);
	let (version, version_from) = match (&d.version, entry) {
		(Some(v), _) => (v.clone(), None),
		(None, Some(e)) => (e.version.clone(), Some(e.origin)),
		(None, None) => return Err(Fail::NoVersion(format!("{}:{}", d.group, d.artifact))),
	};
	let (scope, scope_from) = match (d.scope, entry) {
		(Some(s), _) => (Some(s), None),
		(None, Some(e)) if e.scope.is_some() => (e.scope, Some(e.origin)),
		_ => (None, None),
	};
	Ok(EffDep { key, version, scope, optional: d.optional.unwrap_or(false), version_from, scope_from })
}

/// the `<dependencies>` of the effective POM
pub fn effective_deps(u: &Universe, group: &str, artifact: &str, version: &str, sem: Sem) -> Result<Vec<EffDep>, Fail> {
	if sem.parent_context {
		return Ok(parent_context_model(u, group, artifact, version, sem, 0)?.0);
	}
	let (deps, _) = inherited_model(u, group, artifact, version, sem, 0)?;
	let dm = effective_dm(u, group, artifact, version, sem, 0)?;
	deps.iter().map(|d| complete(d, &dm)).collect()
}

/// The deviant reading: every POM of the parent chain completes its own dependencies with what it can see
/// itself (its own management, its imports, its parents' management); the child inherits the result as is.
fn parent_context_model(u: &Universe, group: &str, artifact: &str, version: &str, sem: Sem, depth: usize) -> Result<(Vec<EffDep>, Vec<MEntry>), Fail> {
	if depth > max_depth(u) {
		return Err(Fail::TooDeep);
	}
	let pom = need(u, group, artifact, version)?;
	let parent = match &pom.parent {
		Some((pg, pa, pv)) => Some(parent_context_model(u, pg, pa, pv, sem, depth + 1)?),
		None => None,
	};
	let mut dm: Vec<MEntry> = Vec::new();
	for m in &pom.dm {
		if m.import {
			dm.extend(parent_context_model(u, &m.group, &m.artifact, &m.version, sem, depth + 1)?.1.into_iter().map(|e| MEntry { origin: Origin::Bom, ..e }));
		} else {
			dm.push(MEntry { key: dm_key(m), version: m.version.clone(), scope: m.scope, origin: Origin::Own });
		}
	}
	let mut deps = Vec::new();
	if let Some((pdeps, pdm)) = parent {
		dm.extend(pdm.into_iter().map(|e| MEntry { origin: if e.origin == Origin::Bom { Origin::Bom } else { Origin::Parent }, ..e }));
		for d in &pom.deps {
			deps.push(complete(d, &dm)?);
		}
		if sem.inherited_first {
			let mut all = pdeps;
			all.extend(deps);
			deps = all;
		} else {
			deps.extend(pdeps);
		}
	} else {
		for d in &pom.deps {
			deps.push(complete(d, &dm)?);
		}
	}
	Ok((deps, dm))
}

struct Node {
	key: Key,
	version: String,
	scope: Sc,
	/// declaration indices from the root list down to this occurrence
	path: Vec<usize>,
	/// the listed occurrence that brought this one (index into the arena of listed occurrences)
	parent: Option<usize>,
}

pub fn resolve(u: &Universe, sem: Sem) -> Result<Resolved, Fail> {
	let mut facts = Facts::default();
	let mut eff_cache: BTreeMap<(String, String, String), Vec<EffDep>> = BTreeMap::new();
	let mut eff = |g: &str, a: &str, v: &str| -> Result<Vec<EffDep>, Fail> {
		let k = (g.to_owned(), a.to_owned(), v.to_owned());
		if let Some(e) = eff_cache.get(&k) {
			return Ok(e.clone());
		}
		let e = effective_deps(u, g, a, v, sem)?;
		eff_cache.insert(k, e.clone());
		Ok(e)
	};

	let mut level: Vec<Node> = u.roots.iter().enumerate().map(|(i, r)| Node {
		key: (r.group.clone(), r.artifact.clone(), r.classifier.clone(), r.type_.clone()),
		version: r.version.clone(),
		scope: r.scope,
		path: vec![i],
		parent: None,
	}).collect();
	// listed occurrences: (key, the one that brought it)
	let mut arena: Vec<(Key, Option<usize>)> = Vec::new();
	// winner per key: (version, depth)
	let mut won: BTreeMap<Key, (String, usize)> = BTreeMap::new();
	let mut list = Vec::new();
	let mut depth = 0usize;
	while !level.is_empty() {
		if depth > max_depth(u) {
			return Err(Fail::TooDeep);
		}
		// nearest first is the loop over levels; among equals the first declaration, i.e. the smaller path
		level.sort_by(|a, b| a.path.cmp(&b.path));
		let mut next = Vec::new();
		for node in level {
			if let Some((wv, wd)) = won.get(&node.key) {
				if *wv == node.version {
					facts.duplicates += 1;
				} else if *wd == depth {
					facts.ties += 1;
				} else {
					facts.nearer_won += 1;
				}
				let mut up = node.parent;
				while let Some(i) = up {
					if arena[i].0 == node.key {
						facts.lost_to_own_ancestor += 1;
						break;
					}
					up = arena[i].1;
				}
				continue;
			}
			facts.max_depth = facts.max_depth.max(depth as u32);
			let me = arena.len();
			arena.push((node.key.clone(), node.parent));
			won.insert(node.key.clone(), (node.version.clone(), depth));
			let (repo, _) = locate(u, &node.key.0, &node.key.1, &node.version).ok_or_else(|| Fail::NoSuchPom(format!("{}:{}:{}", node.key.0, node.key.1, node.version)))?;
			if repo > 0 {
				facts.second_repo_results += 1;
			}
			if repo > 1 {
				facts.third_repo_results += 1;
			}
			if node.key.2.is_some() || node.key.3 != "jar" {
				facts.classifier_or_type_results += 1;
			}
			if node.key.2.is_some() && node.key.2.as_deref() == implied_classifier(&node.key.3) {
				facts.implied_classifier_results += 1;
			}
			list.push(Found {
				group: node.key.0.clone(),
				artifact: node.key.1.clone(),
				version: node.version.clone(),
				classifier: node.key.2.clone(),
				type_: node.key.3.clone(),
				scope: node.scope,
				repo_name: u.repos[repo].0.clone(),
				repo_url: u.repos[repo].1.clone(),
			});
			for (i, d) in eff(&node.key.0, &node.key.1, &node.version)?.into_iter().enumerate() {
				if let Some(o) = d.version_from {
					facts.version_fills[o as usize] += 1;
				}
				if let Some(o) = d.scope_from {
					facts.scope_fills[o as usize] += 1;
				}
				if d.optional {
					facts.optional_cuts += 1;
					continue;
				}
				let ds = d.scope.unwrap_or(Sc::Compile);
				facts.cells[node.scope.idx()][ds.idx()] += 1;
				if let Some(s) = compose(node.scope, ds, sem) {
					let mut path = node.path.clone();
					path.push(i);
					next.push(Node { key: d.key, version: d.version, scope: s, path, parent: Some(me) });
				}
			}
		}
		level = next;
		depth += 1;
	}

	// everything reachable when nothing is mediated away
	let mut all: BTreeSet<Key> = BTreeSet::new();
	let mut seen: BTreeSet<(Key, String)> = BTreeSet::new();
	let mut stack: Vec<(Key, String)> = u.roots.iter().map(|r| ((r.group.clone(), r.artifact.clone(), r.classifier.clone(), r.type_.clone()), r.version.clone())).collect();
	while let Some((k, v)) = stack.pop() {
		if !seen.insert((k.clone(), v.clone())) {
			continue;
		}
		all.insert(k.clone());
		for d in eff(&k.0, &k.1, &v)? {
			if !d.optional && compose(Sc::Compile, d.scope.unwrap_or(Sc::Compile), sem).is_some() {
				stack.push((d.key, d.version));
			}
		}
	}
	facts.discarded_contribution = all.len() > won.len();
	Ok(Resolved { list, facts })
}
