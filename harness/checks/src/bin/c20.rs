//! C20 — raw_class_file reads and writes class files byte-exactly.
//!
//! Part 1 (files): every generated class (shared suite, shape sweep, kitchen sinks, module classes),
//! every class of the javac corpus (+ java.base in the thorough tier) and the JVMS encoding of every
//! raw value of part 2 is read by the REAL `raw_class_file::ClassFile::read` and written back; the
//! output must equal the input byte for byte and `length()` must equal the byte count.
//!
//! Part 2 (values): for every attribute kind / enum variant the crate models, all small instances
//! (0/1/2 elements per vector over explicit alphabets) inside a minimal meaningful class value:
//! `read(write(v)) == v`, `length()` = bytes written, `to_bytes()` = `write()`, and the bytes written
//! must be exactly the bytes JVMS chapter 4 prescribes for that value — computed by an independent
//! reference encoder (c20/refenc.rs) whose output is first accepted by cfmodel's strict parser
//! (every attribute_length = bytes consumed, every count of its table's width, no trailing bytes);
//! duke::read_class re-reads them as a second foreign reader.
//!
//! The environment (c20/io.rs): every class that came back byte for byte, and every value that was read back equal, travels
//! through scripted `std::io::Read` / `Write` behaviours - short serves (chunk sizes, BufReader capacities, one boundary at
//! every byte offset, periodic boundaries with every phase), `Interrupted`, partial accepts; and through the refusing ones:
//!   * a writer that fails after every prefix, a writer that is full after every prefix (`Ok(0)`, never an error), a slice
//!     one byte too small: `write` must come back with an error (not Ok, not a panic, not a loop that never ends);
//!   * a reader that fails with an I/O error after every prefix: `read` must come back with an error (not a class);
//!   * the file cut off after every prefix (not a class file, outside the statement): only a panic or a hang counts;
//!   * the class followed by other data in the same stream: a refusal is accepted, the same class with the caller's data
//!     behind it swallowed (`read` takes a `&mut impl Read` the caller goes on reading from) is not.
//!
//! History of a value (c20/edits.rs): chains  build | read → measure → write → edit one table in place (every table at
//! every depth, the constant pool grows) → judge again; and sequences: every ordered pair (A, B) of 60 values (every
//! attribute kind; pools of equal length with the names at other indices) on one thread - A read, measured, written, then
//! dropped or kept alive - B asked for length / write / to_bytes in all six orders and read: all as for B alone.
//!
//! Families of raw values added by the second extension pass (values.rs, each with a floor):
//!   attribute-name-text       unknown attributes named with k ASCII characters (k up to 140) + one character of 1/2/3
//!                             bytes, a surrogate pair, an encoded NUL, a lone surrogate - at the end, the start, and
//!                             before / after / inside the name of a modelled attribute; the same texts behind SourceFile,
//!                             in SourceDebugExtension, as a field name
//!   flag-bits                 each single bit, all bits, 0x7fff, 0x8001 in every flags field (class, field, method with
//!                             and without body, inner class, method parameter, module, requires, exports, opens)
//!   element-value-nesting     arrays in arrays, annotations in annotations, both alternating, 1..=62 deep (the strict
//!                             parser follows 64 levels), in every attribute that holds element values
//!   byte-array-sizes          Other.info, SourceDebugExtension, Utf8, Code.code with 4/8/16/32/64 KiB -1/+0/+1 bytes of
//!                             content with a prime period (a block in another block's place shows)
//!   pool-index-positions      attributes named through pool indices 255/256/257/32767/32768/65533 (operand one higher)
//!   attribute-kinds-by-version every attribute kind in classes of 14 versions (45.0 .. 65.0, 59.65535)
//!
//! A difference between two byte strings is located with the strict parser's field map of the
//! expected bytes (which field, in which attribute) and keyed by kind and site, e.g.
//! `length:NestMembers:short-by-2`; comparison continues after a difference, so a known finding
//! does not hide another difference in the same case.

use cfmodel::asm::{assemble, AsmError, Encoding, PoolOrder};
use cfmodel::gen::*;
use cfmodel::model::*;
use cfmodel::{Parsed, Role};
use raw_class_file::ClassFile;
use rayon::prelude::*;
use std::collections::BTreeMap;
use std::io::Cursor;
use vcore::{json, Ctx, Stats, Tier};

#[path = "c20/edits.rs"]
mod edits;
#[path = "c20/io.rs"]
mod io;
#[path = "c20/refenc.rs"]
mod refenc;
#[path = "c20/strip.rs"]
mod strip;
#[path = "c20/values.rs"]
mod values;

use refenc::Census;
use values::PoolVariant;

// ---------------------------------------------------------------------------------------------
// accumulators

#[derive(Default)]
struct Acc {
	st: Stats,
	/// pool entry kinds among the classes given to `read`
	fed_tags: BTreeMap<&'static str, u64>,
	/// pool entry kinds among the classes that came back byte for byte
	exact_tags: BTreeMap<&'static str, u64>,
	/// enum variants in the values `read` produced for classes that came back byte for byte
	read_census: Census,
	/// enum variants in the raw values of part 2
	value_census: Census,
	focus: BTreeMap<&'static str, u64>,
	/// optional raw values outside the strict parser's domain (not judged), per focus
	skipped: BTreeMap<&'static str, u64>,
	/// (label, note) of the first case by label on which duke disagreed with the strict parser
	duke_note: Option<(String, String)>,
	io_short_serves: u64,
	io_interrupts: u64,
	io_short_accepts: u64,
	edit_chains: BTreeMap<&'static str, u64>,
	edit_chains_from_read: u64,
	/// the deepest nesting of element values among the values that were read back equal
	deepest_element_nesting: u64,
}

impl Acc {
	fn note_duke(&mut self, label: &str, note: String) {
		if self.duke_note.as_ref().is_none_or(|(l, _)| label < l.as_str()) {
			self.duke_note = Some((label.to_owned(), note));
		}
	}
	fn merge(mut self, o: Acc) -> Acc {
		self.st = self.st.merge(o.st);
		for (k, v) in o.fed_tags {
			*self.fed_tags.entry(k).or_insert(0) += v;
		}
		for (k, v) in o.exact_tags {
			*self.exact_tags.entry(k).or_insert(0) += v;
		}
		for (k, v) in o.focus {
			*self.focus.entry(k).or_insert(0) += v;
		}
		for (k, v) in o.skipped {
			*self.skipped.entry(k).or_insert(0) += v;
		}
		for (k, v) in o.edit_chains {
			*self.edit_chains.entry(k).or_insert(0) += v;
		}
		self.io_short_serves += o.io_short_serves;
		self.io_interrupts += o.io_interrupts;
		self.io_short_accepts += o.io_short_accepts;
		self.edit_chains_from_read += o.edit_chains_from_read;
		self.deepest_element_nesting = self.deepest_element_nesting.max(o.deepest_element_nesting);
		self.read_census.merge(o.read_census);
		self.value_census.merge(o.value_census);
		self.duke_note = match (self.duke_note.take(), o.duke_note) {
			(Some(a), Some(b)) => Some(if a.0 <= b.0 { a } else { b }),
			(a, b) => a.or(b),
		};
		self
	}
}

// ---------------------------------------------------------------------------------------------
// locating differences between two byte strings with the field map of the expected one

fn delta_text(d: i64) -> String {
	if d < 0 { format!("short-by-{}", -d) } else { format!("long-by-{d}") }
}

fn be(b: &[u8], at: usize, n: usize) -> Option<u64> {
	if at + n > b.len() {
		return None;
	}
	Some(b[at..at + n].iter().fold(0u64, |a, x| (a << 8) | *x as u64))
}

/// do the two strings continue identically (for up to 8 bytes) from these positions?
fn agree(e: &[u8], x: usize, a: &[u8], y: usize) -> bool {
	if x > e.len() || y > a.len() {
		return false;
	}
	let k = 8.min(e.len() - x).min(a.len() - y);
	if k == 0 {
		return x == e.len() && y == a.len();
	}
	e[x..x + k] == a[y..y + k]
}

/// Locates the differences of `actual` from `expected` with the strict parser's reading of `expected`.
struct Differ<'a> {
	e: &'a [u8],
	a: &'a [u8],
	p: &'a Parsed,
	map: Vec<cfmodel::FieldMapEntry>,
	pool_end: usize,
	two_slot_entries: i64,
	out: Vec<(String, String)>,
}

impl Differ<'_> {
	fn field_at(&self, off: usize) -> Option<cfmodel::FieldMapEntry> {
		let idx = self.map.partition_point(|f| f.offset <= off);
		if idx == 0 {
			return None;
		}
		let f = self.map[idx - 1];
		if off < f.offset + f.width as usize { Some(f) } else { None }
	}
	/// the field whose last byte is at `end - 1`
	fn field_ending_at(&self, end: usize) -> Option<cfmodel::FieldMapEntry> {
		if end == 0 {
			return None;
		}
		self.field_at(end - 1).filter(|f| f.offset + f.width as usize == end)
	}
	/// innermost attribute around the offset (or the part of the file outside attributes)
	fn site(&self, off: usize) -> String {
		match self.p.attribute_spans.iter().filter(|s| s.start <= off && off < s.start + s.len).min_by_key(|s| s.len) {
			Some(s) if KNOWN_ATTRIBUTES.contains(&s.name.as_str()) => s.name.clone(),
			Some(_) => "unknown-attribute".to_owned(),
			None if off < 10 => "header".to_owned(),
			None if off < self.pool_end => "constant_pool".to_owned(),
			None => "class-body".to_owned(),
		}
	}
	fn full(&mut self, at: usize) -> bool {
		if self.out.len() >= 8 {
			if self.out.len() == 8 {
				self.out.push(("bytes:more-than-8-differences".to_owned(), format!("gave up locating differences at byte {at}")));
			}
			return true;
		}
		false
	}

	/// compares e[i..e_hi] with a[j..a_hi]; `top` = the ranges are the whole files
	fn range(&mut self, mut i: usize, e_hi: usize, mut j: usize, a_hi: usize, top: bool) {
		let (e, a) = (self.e, self.a);
		let is_count = |r: Option<Role>| matches!(r, Some(Role::Count) | Some(Role::PoolCount));
		while i < e_hi && j < a_hi {
			if e[i] == a[j] {
				i += 1;
				j += 1;
				continue;
			}
			if self.full(i) {
				return;
			}
			let d = (a_hi - j) as i64 - (e_hi - i) as i64;
			let cur = self.field_at(i);
			let (fs, w, role) = cur.map(|f| (f.offset, f.width as usize, Some(f.role))).unwrap_or((i, 1, None));
			let js = j.saturating_sub(i - fs);
			let wh = self.site(fs);
			let ev = be(e, fs, w);
			let av = be(a, js, w);
			let values = format!("at byte {fs} ({} in {wh}): the JVMS prescribes {}, written {}", role.map(|r| format!("{r:?}")).unwrap_or("data".into()), ev.map(|v| v.to_string()).unwrap_or("?".into()), av.map(|v| v.to_string()).unwrap_or("nothing".into()));
			if matches!(role, Some(Role::AttrLength) | Some(Role::CodeLength) | Some(Role::Utf8Length)) {
				let kind = match (ev, av) {
					(Some(x), Some(y)) => delta_text(y as i64 - x as i64),
					_ => "truncated".to_owned(),
				};
				let what = match role {
					Some(Role::AttrLength) => "length",
					Some(Role::CodeLength) => "code_length",
					_ => "utf8-length",
				};
				self.out.push((format!("{what}:{wh}:{kind}"), values));
				// if the announced length is consistent with the size of what follows, compare the body on its own
				if let (Some(Role::AttrLength), Some(ev), Some(av)) = (role, ev, av) {
					let (e_body, a_body) = (fs + w, js + w);
					let (e_end, a_end) = (e_body + ev as usize, a_body.saturating_add(av as usize));
					if e_end <= e_hi && a_end <= a_hi && a_hi - a_end == e_hi - e_end {
						self.range(e_body, e_end, a_body, a_end, false);
						i = e_end;
						j = a_end;
						continue;
					}
				}
				i = fs + w;
				j = js + w;
				continue;
			}
			if d != 0 {
				// the count under the cursor was written with another width
				if is_count(role) {
					let nw = w as i64 + d;
					if (1..=8).contains(&nw) && js + nw as usize <= a_hi && agree(&e[..e_hi], fs + w, &a[..a_hi], js + nw as usize) {
						self.out.push((format!("count-width:{wh}:{nw}-bytes-for-{w}"), format!("{values}; the count occupies {nw} bytes where the JVMS has {w}")));
						i = fs + w;
						j = js + nw as usize;
						continue;
					}
				}
				// the count that ends here was written wider (its leading bytes happened to agree)
				if let Some(pf) = self.field_ending_at(i) {
					if is_count(Some(pf.role)) && d > 0 && agree(&e[..e_hi], i, &a[..a_hi], j + d as usize) {
						self.out.push((format!("count-width:{}:{}-bytes-for-{}", self.site(pf.offset), pf.width as i64 + d, pf.width), format!("the count at byte {} occupies {} bytes where the JVMS has {}", pf.offset, pf.width as i64 + d, pf.width)));
						j += d as usize;
						continue;
					}
				}
				if d > 0 && agree(&e[..e_hi], i, &a[..a_hi], j + d as usize) {
					self.out.push((format!("bytes:{}:{d}-extra-bytes", self.site(i)), format!("{d} bytes written at byte {i} that the JVMS does not have")));
					j += d as usize;
					continue;
				}
				if d < 0 && agree(&e[..e_hi], i + (-d) as usize, &a[..a_hi], j) {
					self.out.push((format!("bytes:{}:{}-bytes-missing", self.site(i), -d), format!("{} bytes the JVMS has at byte {i} were not written", -d)));
					i += (-d) as usize;
					continue;
				}
			}
			let key = match role {
				Some(Role::PoolCount) => {
					let delta = av.unwrap_or(0) as i64 - ev.unwrap_or(0) as i64;
					if self.two_slot_entries > 0 && delta == -self.two_slot_entries {
						"count:constant_pool_count:two-slot-entries-counted-once".to_owned()
					} else {
						format!("count:constant_pool_count:{}", delta_text(delta))
					}
				},
				Some(Role::Count) => format!("count:{wh}:{}", delta_text(av.unwrap_or(0) as i64 - ev.unwrap_or(0) as i64)),
				Some(r) => format!("bytes:{wh}:{r:?}"),
				None => format!("bytes:{wh}:data"),
			};
			self.out.push((key, values));
			i = fs + w;
			j = js + w;
		}
		let (re, ra) = (e_hi.saturating_sub(i), a_hi.saturating_sub(j));
		if re == ra || self.full(i) {
			return;
		}
		if re == 0 && !top {
			// everything expected is there, more was written: a count that ends the range and is all zero was written wider
			if let Some(pf) = self.field_ending_at(e_hi) {
				if is_count(Some(pf.role)) {
					self.out.push((format!("count-width:{}:{}-bytes-for-{}", self.site(pf.offset), pf.width as usize + ra, pf.width), format!("the count at byte {} occupies {} bytes where the JVMS has {}", pf.offset, pf.width as usize + ra, pf.width)));
					return;
				}
			}
		}
		let wh = if top { "end-of-file".to_owned() } else { format!("end-of-{}", self.site(e_hi.saturating_sub(1))) };
		self.out.push((format!("bytes:{wh}:{}", delta_text(ra as i64 - re as i64)), format!("{re} expected bytes and {ra} written bytes left at the end")));
	}
}

/// Differences of `actual` from `expected`, where `p` is the strict parser's reading of `expected`.
/// Returns (key, detail) per difference, at most 9.
fn byte_diffs(expected: &[u8], actual: &[u8], p: &Parsed) -> Vec<(String, String)> {
	let mut map = p.map.clone();
	map.sort_by_key(|f| f.offset);
	let pool_end = map.iter().find(|f| f.role == Role::AccessFlags).map(|f| f.offset).unwrap_or(10);
	let two_slot_entries = map.iter().filter(|f| f.role == Role::PoolTag && matches!(expected[f.offset], 5 | 6)).count() as i64;
	let mut d = Differ { e: expected, a: actual, p, map, pool_end, two_slot_entries, out: Vec::new() };
	d.range(0, expected.len(), 0, actual.len(), true);
	d.out
}

// ---------------------------------------------------------------------------------------------
// part 1: file → value → file

// ---------------------------------------------------------------------------------------------
// the environment: every legal behaviour of the `Read` / `Write` the class travels through
//
// A class file is the same class file whether it arrives from a slice, a `BufReader`, a zip entry or a
// socket: `Read::read` may serve fewer bytes than asked for and may ask for a retry (`Interrupted`),
// `Write::write` may accept fewer bytes than offered. The deviation from the default environment
// (everything in memory, every request served in full) is enumerated: chunk sizes, buffer capacities,
// one split at every byte offset, periodic boundaries with every phase; a writer that fails after
// every prefix must make `write` return the error.

#[derive(Clone, Copy, PartialEq, Eq)]
enum Depth {
	/// the bulk spaces (shape sweep, stack map frame pairs)
	Small,
	/// everything else
	Full,
}

fn reader_alphabet(len: usize, depth: Depth) -> Vec<io::ReaderKind> {
	use io::ReaderKind as K;
	if depth == Depth::Small {
		return vec![K::Chunk(1), K::Chunk(3), K::Buf(5), K::Interrupted(2), K::Periodic { period: 7, phase: 3 }];
	}
	let mut v = vec![K::Slice, K::CursorVec];
	v.extend([1, 2, 3, 5, 8, 13].map(K::Chunk));
	v.extend([1, 2, 3, 4, 7, 8, 16, 64].map(K::Buf));
	v.extend([1, 4, 16].map(K::BufOverChunk3));
	v.extend([1, 4].map(K::Interrupted));
	for period in [2usize, 3, 4, 5, 7, 8, 16, 61] {
		for phase in 0..period.min(4) {
			v.push(K::Periodic { period, phase });
		}
	}
	// one boundary, at every byte offset of a small file; at a fixed grid of a larger one
	let step = if len <= 700 { 1 } else { len / 331 + 1 };
	v.extend((1..len).step_by(step).map(K::SplitAt));
	v
}

fn writer_alphabet(len: usize, depth: Depth) -> Vec<io::WriterKind> {
	use io::WriterKind as K;
	if depth == Depth::Small {
		return vec![K::Chunk(1), K::Interrupted(3), K::Buf(5), K::ExactSlice];
	}
	let mut v = vec![K::CursorVec, K::ExactSlice];
	v.extend([1, 2, 3, 7].map(K::Chunk));
	v.extend([1, 5].map(K::Interrupted));
	v.extend([1, 3, 8, 64].map(K::Buf));
	let step = if len <= 300 { 1 } else { len / 101 + 1 };
	v.extend((1..len).step_by(step).map(K::SplitAt));
	v
}

/// `bytes` is a file that `ClassFile::read` reads from a cursor as `value` and writes back byte for byte:
/// the same must happen through every reader and writer of the alphabet.
fn io_alphabet(ctx: &Ctx, acc: &mut Acc, bytes: &[u8], value: &ClassFile, depth: Depth, replay: &dyn Fn() -> String) {
	for kind in reader_alphabet(bytes.len(), depth) {
		let fam = kind.family();
		let rp = || format!("reader={kind:?}\n{}", replay());
		let (res, trace) = io::with_reader(kind, bytes, |mut r| vcore::guard(|| ClassFile::read(&mut r)));
		acc.st.eval();
		acc.io_short_serves += trace.short_serves;
		acc.io_interrupts += trace.interrupts;
		match res {
			Err(p) => {
				acc.st.outcome("io-read-panicked");
				ctx.diff(&format!("read:{fam}-reader:panic"), &format!("read panicked at {} on a class that it reads from a cursor: {}", p.site, p.msg), &rp);
			},
			Ok(Err(e)) => {
				acc.st.outcome("io-read-refused");
				ctx.diff(&format!("read:{fam}-reader:refused"), &format!("read refuses, through {kind:?}, a class that it reads from a cursor: {e}"), &rp);
			},
			Ok(Ok(v)) if &v != value => {
				acc.st.outcome("io-read-differs");
				ctx.diff(&format!("read:{fam}-reader:differs"), &format!("through {kind:?} read returns another value than from a cursor over the same bytes"), &rp);
			},
			Ok(Ok(_)) if trace.consumed != bytes.len() => {
				acc.st.outcome("io-read-consumed-wrong");
				ctx.diff(&format!("read:{fam}-reader:bytes-consumed"), &format!("through {kind:?} read consumed {} of {} bytes", trace.consumed, bytes.len()), &rp);
			},
			Ok(Ok(_)) => {
				acc.st.outcome("io-read-equal");
				if trace.short_serves > 0 {
					acc.st.outcome("io-read-equal-with-short-serves");
				}
			},
		}
	}
	for kind in writer_alphabet(bytes.len(), depth) {
		let fam = kind.family();
		let rp = || format!("writer={kind:?}\n{}", replay());
		let res = vcore::guard(|| io::with_writer(kind, bytes.len(), |mut w| value.write(&mut w)));
		acc.st.eval();
		match res {
			Err(p) => {
				acc.st.outcome("io-write-panicked");
				ctx.diff(&format!("write:{fam}-writer:panic"), &format!("write panicked at {}: {}", p.site, p.msg), &rp);
			},
			Ok((Err(e), _, _)) => {
				acc.st.outcome("io-write-failed");
				ctx.diff(&format!("write:{fam}-writer:failed"), &format!("write fails into {kind:?}, which accepts every byte: {e}"), &rp);
			},
			Ok((Ok(()), out, _)) if out != bytes => {
				acc.st.outcome("io-write-differs");
				ctx.diff(&format!("write:{fam}-writer:differs"), &format!("{} bytes arrive in {kind:?}, other than the {} written into a Vec", out.len(), bytes.len()), &rp);
			},
			Ok((Ok(()), _, trace)) => {
				acc.st.outcome("io-write-equal");
				acc.io_short_accepts += trace.short_accepts;
			},
		}
	}
	// a writer that fails: the error must come back (not a panic, not Ok)
	let limits: Vec<usize> = if depth == Depth::Small {
		vec![0, bytes.len() / 2, bytes.len() - 1]
	} else {
		let step = if bytes.len() <= 300 { 1 } else { bytes.len() / 101 + 1 };
		(0..bytes.len()).step_by(step).chain([bytes.len() - 1]).collect()
	};
	for &limit in &limits {
		let rp = || format!("failing-writer-after={limit}\n{}", replay());
		acc.st.eval();
		match vcore::guard(|| io::with_failing_writer(limit, |mut w| value.write(&mut w))) {
			Err(p) => ctx.diff("write:failing-writer:panic", &format!("write panicked at {} when the writer failed after {limit} bytes: {}", p.site, p.msg), &rp),
			Ok((Ok(()), _)) => ctx.diff("write:failing-writer:reported-success", &format!("write returned Ok although the writer failed after {limit} of {} bytes", bytes.len()), &rp),
			Ok((Err(_), n)) if n > limit => ctx.diff("write:failing-writer:wrote-on", &format!("{n} bytes arrived in a writer that fails after {limit}"), &rp),
			Ok((Err(_), _)) => acc.st.outcome("io-write-error-reported"),
		}
	}
	acc.st.eval();
	match vcore::guard(|| io::with_short_slice(bytes.len(), 1, |mut w| value.write(&mut w))) {
		Err(p) => ctx.diff("write:short-slice:panic", &format!("write panicked at {} into a slice one byte too small: {}", p.site, p.msg), replay),
		Ok(Ok(())) => ctx.diff("write:short-slice:reported-success", "write returned Ok into a slice one byte too small", replay),
		Ok(Err(_)) => acc.st.outcome("io-write-error-reported"),
	}
	for &limit in &limits {
		// a writer that is full: accepts `limit` bytes, then nothing (Ok(0), never an error) - write must give up with an
		// error (a loop that waits for the writer to take more never ends: the watchdog reports it as a timeout)
		let rp = || format!("full-writer-after={limit}\n{}", replay());
		acc.st.eval();
		match vcore::guard(|| io::with_full_writer(limit, |mut w| value.write(&mut w))) {
			Err(p) => ctx.diff("write:full-writer:panic", &format!("write panicked at {} when the writer accepted nothing after {limit} bytes: {}", p.site, p.msg), &rp),
			Ok((Ok(()), _)) => ctx.diff("write:full-writer:reported-success", &format!("write returned Ok although the writer accepted only {limit} of {} bytes", bytes.len()), &rp),
			Ok((Err(_), _)) => acc.st.outcome("io-write-full-writer-error-reported"),
		}
		// a reader that fails (an I/O error, not end-of-file) after `limit` bytes: the error must come back
		let rp = || format!("failing-reader-after={limit}\n{}", replay());
		acc.st.eval();
		match io::with_failing_reader(bytes, limit, |mut r| vcore::guard(|| ClassFile::read(&mut r))) {
			(Err(p), _) => ctx.diff("read:failing-reader:panic", &format!("read panicked at {} when the reader failed after {limit} bytes: {}", p.site, p.msg), &rp),
			(Ok(Ok(_)), _) => ctx.diff("read:failing-reader:reported-success", &format!("read returned a class although the reader failed after {limit} of {} bytes", bytes.len()), &rp),
			(Ok(Err(_)), _) => acc.st.outcome("io-read-error-reported"),
		}
		// the file cut off after `limit` bytes is not a class file: outside the statement, only a panic or a hang counts
		let rp = || format!("cut-off-after={limit}\n{}", replay());
		for kind in [io::ReaderKind::Slice, io::ReaderKind::Chunk(3)] {
			acc.st.eval();
			match io::with_reader(kind, &bytes[..limit], |mut r| vcore::guard(|| ClassFile::read(&mut r))).0 {
				Err(p) => ctx.diff("read:cut-off-file:panic", &format!("read panicked at {} on the first {limit} bytes of a class file: {}", p.site, p.msg), &rp),
				Ok(Ok(_)) => acc.st.outcome("io-read-cut-off-file-accepted (not judged)"),
				Ok(Err(_)) => acc.st.outcome("io-read-cut-off-file-refused"),
			}
		}
	}
	// the class is followed by other data in the stream (here: the beginning of another class file): `read` takes a
	// `&mut impl Read` that the caller goes on reading from, so what is behind the class must still be there. A refusal
	// is accepted (the statement is about class files, not streams); the same value with bytes of the caller's data
	// swallowed is a silently wrong answer.
	let mut stream = bytes.to_vec();
	stream.extend_from_slice(&bytes[..bytes.len().min(24)]);
	let trailing: &[io::ReaderKind] = if depth == Depth::Small {
		&[io::ReaderKind::Slice, io::ReaderKind::Chunk(3)]
	} else {
		&[io::ReaderKind::Slice, io::ReaderKind::CursorVec, io::ReaderKind::Chunk(1), io::ReaderKind::Chunk(13), io::ReaderKind::Buf(4), io::ReaderKind::Buf(64), io::ReaderKind::Interrupted(4), io::ReaderKind::Periodic { period: 61, phase: 0 }]
	};
	for &kind in trailing {
		let fam = kind.family();
		let rp = || format!("reader={kind:?} over the class followed by its own first 24 bytes\n{}", replay());
		let (res, trace) = io::with_reader(kind, &stream, |mut r| vcore::guard(|| ClassFile::read(&mut r)));
		acc.st.eval();
		match res {
			Err(p) => ctx.diff(&format!("read:{fam}-reader:data-behind-the-class:panic"), &format!("read panicked at {} on a class that is followed by other data: {}", p.site, p.msg), &rp),
			Ok(Err(_)) => acc.st.outcome("io-read-data-behind-the-class-refused (not judged)"),
			Ok(Ok(v)) if &v != value => ctx.diff(&format!("read:{fam}-reader:data-behind-the-class:differs"), "read returns another value when the class is followed by other data", &rp),
			// the statement says nothing about the reader's position behind the class (a `read` that buffers ahead still
			// reproduces every class byte for byte): recorded, not judged
			Ok(Ok(_)) if trace.consumed != bytes.len() => acc.st.outcome("io-read-data-behind-the-class-taken-too (statement silent, not judged)"),
			Ok(Ok(_)) => acc.st.outcome("io-read-data-behind-the-class-left-in-place"),
		}
	}
}

#[derive(Clone, Copy, Default)]
struct Causes {
	two_slot: bool,
	method_parameters: bool,
}

impl Causes {
	/// the known cause that makes `read` lose its place in this file, if any
	fn reading(&self) -> Option<&'static str> {
		if self.two_slot {
			Some("pool-with-two-slot-entry")
		} else if self.method_parameters {
			Some("MethodParameters")
		} else {
			None
		}
	}
}

fn hex_replay(label: &str, bytes: &[u8]) -> String {
	format!("label={label}\nclass file bytes (hex):\n{}", vcore::hex(bytes))
}

/// One well-formed class file: read it, write it, compare.
fn roundtrip_bytes(ctx: &Ctx, acc: &mut Acc, label: &str, bytes: &[u8], source: Option<&SClass>, io_depth: Option<Depth>, replay: &dyn Fn() -> String) -> Causes {
	let parsed = match cfmodel::parse(bytes) {
		Ok(p) => p,
		Err(e) => vcore::machinery_fail(&format!("{label}: the reference parser rejects a class of the test set: {e}")),
	};
	if let Some(src) = source {
		if &parsed.class != src {
			let d = cfmodel::sdiff::diff(src, &parsed.class);
			vcore::machinery_fail(&format!("{label}: assembler and reference parser disagree: {:?}", d.0.first()));
		}
	}
	let mut tags: Vec<u8> = parsed.map.iter().filter(|f| f.role == Role::PoolTag).map(|f| bytes[f.offset]).collect();
	tags.sort();
	tags.dedup();
	let causes = Causes { two_slot: tags.contains(&5) || tags.contains(&6), method_parameters: parsed.attribute_spans.iter().any(|s| s.name == "MethodParameters") };
	for t in &tags {
		*acc.fed_tags.entry(refenc::cp_tag_name(*t)).or_insert(0) += 1;
	}
	acc.st.eval();
	acc.st.distinct.add(bytes);
	let keyed = |kind: &str, generic: &str| -> String {
		match causes.reading() {
			Some(c) => format!("roundtrip:{c}:{kind}"),
			None => generic.to_owned(),
		}
	};
	let read = vcore::guard(|| ClassFile::read(&mut Cursor::new(bytes)));
	let value = match read {
		Err(p) => {
			acc.st.outcome("read-panicked");
			ctx.diff(&keyed("panic", &format!("panic@{}", p.file())), &format!("read panicked on a well-formed class at {}: {}", p.site, p.msg), replay);
			return causes;
		},
		Ok(Err(e)) => {
			acc.st.outcome("read-refused");
			ctx.diff(&keyed("refused", "roundtrip:refused"), &format!("read refuses a well-formed class: {e}"), replay);
			return causes;
		},
		Ok(Ok(v)) => v,
	};
	let written = vcore::guard(|| {
		let mut out = Vec::new();
		let r = value.write(&mut out);
		(r.map(|_| out), value.to_bytes(), value.length())
	});
	let (out, to_bytes, length) = match written {
		Err(p) => {
			acc.st.outcome("write-panicked");
			ctx.diff(&keyed("panic", &format!("panic@{}", p.file())), &format!("writing the value that was read panicked at {}: {}", p.site, p.msg), replay);
			return causes;
		},
		Ok((Err(e), _, _)) => {
			acc.st.outcome("write-failed");
			ctx.diff(&keyed("misread", "roundtrip:write-failed"), &format!("write into a Vec failed: {e}"), replay);
			return causes;
		},
		Ok((Ok(o), t, l)) => (o, t, l),
	};
	if to_bytes != out {
		ctx.diff("to_bytes:differs-from-write", "to_bytes() and write() produce different bytes", replay);
	}
	if length != out.len() {
		ctx.diff(&keyed("misread", &format!("length():class-read-from-file:{}", delta_text(length as i64 - out.len() as i64))), &format!("length() = {length} but {} bytes are written", out.len()), replay);
	}
	if out == bytes {
		acc.st.outcome("byte-exact");
		for t in &tags {
			*acc.exact_tags.entry(refenc::cp_tag_name(*t)).or_insert(0) += 1;
		}
		acc.read_census.class(&value);
		acc.st.sample(label.split('/').next().unwrap_or(label), || json!({"label": label, "bytes": bytes.len(), "class_file_hex": vcore::hex(&bytes[..bytes.len().min(120)]), "this_class": parsed.class.this_class.to_string_lossy(), "outcome": "read, written, equal byte for byte"}));
		if let Some(depth) = io_depth {
			io_alphabet(ctx, acc, bytes, &value, depth, replay);
		}
		return causes;
	}
	acc.st.outcome("not-byte-exact");
	match causes.reading() {
		Some(c) => ctx.diff(&format!("roundtrip:{c}:misread"), &format!("read accepts the class but writes back {} bytes that differ from the {} it read", out.len(), bytes.len()), replay),
		None => {
			for (key, detail) in byte_diffs(bytes, &out, &parsed) {
				ctx.diff(&key, &format!("read then write changes the file: {detail}"), replay);
			}
		},
	}
	causes
}

fn check_model(ctx: &Ctx, acc: &mut Acc, label: &str, model: &SClass, enc: &Encoding, derive: bool, io_depth: Option<Depth>) {
	let bytes = match assemble(model, enc) {
		Ok(b) => b,
		Err(AsmError::Unencodable(_)) => {
			acc.st.outcome("unencodable-skipped");
			return;
		},
		Err(AsmError::Internal(e)) => vcore::machinery_fail(&format!("{label}: assembler: {e}")),
	};
	let causes = vcore::watched(|| hex_replay(label, &bytes), || roundtrip_bytes(ctx, acc, label, &bytes, Some(model), io_depth, &|| hex_replay(label, &bytes)));
	if !derive {
		return;
	}
	// the same class without the features that are known to derail `read`, so that the rest of it is judged
	if causes.two_slot {
		let (mut m, mut e) = (model.clone(), enc.clone());
		strip::without_two_slot_constants(&mut m);
		strip::without_two_slot_pads(&mut e);
		check_model(ctx, acc, &format!("{label}/without-two-slot"), &m, &e, false, io_depth);
	}
	if causes.method_parameters {
		let (mut m, mut e) = (model.clone(), enc.clone());
		strip::without_two_slot_constants(&mut m);
		strip::without_two_slot_pads(&mut e);
		strip::without_method_parameters(&mut m);
		check_model(ctx, acc, &format!("{label}/without-two-slot-and-MethodParameters"), &m, &e, false, io_depth);
	}
}

// ---------------------------------------------------------------------------------------------
// part 2: value → file → value, and the bytes against the JVMS

fn clip(mut s: String, max: usize) -> String {
	if s.len() > max {
		let cut = s.char_indices().map(|(i, _)| i).find(|i| *i >= max).unwrap_or(s.len());
		s.truncate(cut);
		s.push('…');
	}
	s
}

/// replay text of a raw value: its label re-creates it; the rest is for the human reader
fn value_replay(case: &values::Case) -> String {
	let v = &case.value;
	let (universe, _, _) = values::universe(case.pool);
	let extra = &v.constant_pool[universe.len().min(v.constant_pool.len())..];
	let mut shown = v.clone();
	shown.constant_pool = Vec::new();
	let jvms = vcore::guard(|| refenc::class(v)).unwrap_or_default();
	// the bytes after the constant pool (which is the same in both unless the difference is in the pool)
	let body_at = cfmodel::parse(&jvms).ok().and_then(|p| p.map.iter().filter(|f| f.role == Role::AccessFlags).map(|f| f.offset).min()).unwrap_or(0);
	let written = vcore::guard(|| v.to_bytes());
	let written_text = match &written {
		Ok(b) => format!("{} bytes; from byte {}: {}", b.len(), body_at.min(b.len()), clip(vcore::hex(&b[body_at.min(b.len())..]), 3000)),
		Err(p) => format!("panic: {}", p.msg),
	};
	format!(
		"raw-case={}\nconstant_pool = values::universe({}) ({} entries) + {} more: {}\nvalue (pool left out): {}\nbytes the JVMS prescribes: {} bytes; first 10: {}; from byte {} (after the pool): {}\nbytes written: {}",
		case.label, case.pool.name(), universe.len(), extra.len(), clip(format!("{extra:?}"), 1500), clip(format!("{shown:?}"), 6000),
		jvms.len(), vcore::hex(&jvms[..jvms.len().min(10)]), body_at, clip(vcore::hex(&jvms[body_at.min(jvms.len())..]), 3000), written_text
	)
}

/// the number at the end of a case label (cases of one focus are numbered in generation order)
fn label_number(label: &str) -> usize {
	label.rsplit('/').next().and_then(|n| n.parse().ok()).unwrap_or(0)
}

/// Chains  write → edit one table in place → write: a value that has been measured and serialised before and is
/// then changed is still just a value; what is written (and announced by `length()`) depends on the value alone.
/// Every table of the value (in visiting order) × {remove the last element, repeat the last element}.
fn edit_chains(ctx: &Ctx, acc: &mut Acc, case: &values::Case) {
	let mut probe = case.value.clone();
	let n_tables = edits::tables(&mut probe).len();
	// the second past a value can have: it was not built but read (on this thread, just now) from the bytes it is written as
	let from_read = label_number(&case.label) % ctx.tier.pick(3usize, 1) == 0;
	for t in 0..n_tables {
		for (op, op_name) in [(edits::Op::Pop, "pop"), (edits::Op::Dup, "dup")] {
			let mut v = case.value.clone();
			// the value has a past: it was measured, written and written again
			let before = vcore::guard(|| (v.length(), v.to_bytes(), v.to_bytes().len()));
			let Ok((_, bytes, _)) = before else {
				return; // reported by check_value on the case itself
			};
			let Some(table) = edits::apply(&mut v, t, op) else { continue };
			*acc.edit_chains.entry(table).or_insert(0) += 1;
			let edited = values::Case { label: format!("{}/edit/{t}/{op_name}", case.label), focus: case.focus, pool: case.pool, value: v, deep: false, optional: true };
			check_value(ctx, acc, &edited, false);
			if !from_read {
				continue;
			}
			let Ok(Ok(mut v)) = vcore::guard(|| ClassFile::read(&mut Cursor::new(&bytes))) else { continue };
			if v != case.value {
				continue; // reported by check_value on the case itself
			}
			let _ = vcore::guard(|| {
				let mut sink = Vec::new();
				(v.write(&mut sink).is_ok(), v.length())
			});
			if edits::apply(&mut v, t, op).is_none() {
				continue;
			}
			acc.edit_chains_from_read += 1;
			let edited = values::Case { label: format!("{}/edit/{t}/{op_name}/read-first", case.label), focus: case.focus, pool: case.pool, value: v, deep: false, optional: true };
			check_value(ctx, acc, &edited, false);
		}
	}
}

// ---------------------------------------------------------------------------------------------
// sequences: one value after another on one thread
//
// What `read`, `write`, `to_bytes` and `length` answer for a value depends on that value alone - not on which other
// class this thread read, measured or wrote before, not on whether that other value is still alive or its memory has
// been given to this one, and not on the order in which the three are asked. Every ordered pair (A, B) of the sequence
// values (every attribute kind; pools of equal length with the names at other indices), B judged after A, in all six
// orders of asking, against the JVMS bytes of B.

const OBSERVER_ORDERS: [[u8; 3]; 6] = [[0, 1, 2], [0, 2, 1], [1, 0, 2], [1, 2, 0], [2, 0, 1], [2, 1, 0]];

fn sequence_pair(ctx: &Ctx, acc: &mut Acc, set: &[(values::Case, Vec<u8>)], i: usize, j: usize) {
	let (a, a_bytes) = (&set[i].0, &set[i].1);
	let (b, b_bytes) = (&set[j].0, &set[j].1);
	let replay = || format!("sequence-pair={i},{j}\nfirst: {}\nthen:  {}\nJVMS bytes of the second: {}", a.label, b.label, clip(vcore::hex(b_bytes), 3000));
	for (o, order) in OBSERVER_ORDERS.iter().enumerate() {
		for keep_first_alive in [false, true] {
			acc.st.eval();
			let res = vcore::guard(|| {
				// the first value: read from its bytes, measured, written; then dropped or kept alive
				let first = ClassFile::read(&mut Cursor::new(a_bytes)).ok();
				let own = Box::new(a.value.clone());
				let mut sink = Vec::new();
				let _ = (own.length(), own.write(&mut sink).is_ok(), own.to_bytes().len());
				let kept = if keep_first_alive { Some((first, own)) } else { drop((first, own)); None };
				// the second value, on the same thread
				let second = Box::new(b.value.clone());
				let (mut length, mut written, mut to_bytes) = (0usize, Vec::new(), Vec::new());
				let mut write_ok = true;
				for what in order {
					match what {
						0 => length = second.length(),
						1 => write_ok = second.write(&mut written).is_ok(),
						_ => to_bytes = second.to_bytes(),
					}
				}
				let back = ClassFile::read(&mut Cursor::new(b_bytes));
				drop(kept);
				(length, write_ok, written, to_bytes, back)
			});
			let which = if keep_first_alive { "alive" } else { "dropped" };
			match res {
				Err(p) => ctx.diff(&format!("panic@{}", p.file()), &format!("the second value of a sequence made the crate panic at {}: {}", p.site, p.msg), &replay),
				Ok((length, write_ok, written, to_bytes, back)) => {
					let mut fine = true;
					if !write_ok || written != *b_bytes {
						fine = false;
						ctx.diff("sequence:write-after-another-value:differs", &format!("written after another value (now {which}), asked in order {order:?} (0 = length, 1 = write, 2 = to_bytes), write produces {} bytes that are not the {} JVMS bytes it produces on its own", written.len(), b_bytes.len()), &replay);
					}
					if to_bytes != *b_bytes {
						fine = false;
						ctx.diff("sequence:to_bytes-after-another-value:differs", &format!("after another value (now {which}), asked in order {order:?}, to_bytes produces {} bytes that are not the {} JVMS bytes", to_bytes.len(), b_bytes.len()), &replay);
					}
					if length != b_bytes.len() {
						fine = false;
						ctx.diff("sequence:length-after-another-value:differs", &format!("after another value (now {which}), asked in order {order:?}, length() = {length} for a value of {} bytes", b_bytes.len()), &replay);
					}
					match back {
						Ok(v) if v == b.value => {},
						Ok(_) => {
							fine = false;
							ctx.diff("sequence:read-after-another-class:differs", "read after another class returns another value than on its own", &replay);
						},
						Err(e) => {
							fine = false;
							ctx.diff("sequence:read-after-another-class:refused", &format!("read after another class refuses a class it reads on its own: {e}"), &replay);
						},
					}
					if fine {
						acc.st.outcome("sequence-second-value-as-on-its-own");
						if o == 0 && !keep_first_alive && i != j && a_bytes.len() != b_bytes.len() {
							acc.st.outcome("sequence-of-two-values-of-different-size");
						}
					}
				},
			}
		}
	}
}

/// the sequence values with their JVMS bytes (accepted by the strict parser, and what the crate writes for the value on a fresh thread)
fn sequence_set() -> Vec<(values::Case, Vec<u8>)> {
	values::sequence_values().into_iter().map(|c| {
		let reference = refenc::class(&c.value);
		if let Err(e) = cfmodel::parse(&reference) {
			vcore::machinery_fail(&format!("{}: the strict parser rejects the reference encoding of a sequence value: {e}", c.label));
		}
		(c, reference)
	}).collect()
}

fn run_sequences(ctx: &Ctx) -> (Acc, usize) {
	let set = sequence_set();
	let n = set.len();
	// every value on its own first (also reported by part 2 for the same values; here it says that the oracle of the pairs is sound)
	let mut acc = Acc::default();
	for (c, _) in &set {
		check_value(ctx, &mut acc, c, false);
	}
	let pairs = (0..n * n).into_par_iter().fold(Acc::default, |mut acc, k| {
		vcore::watched(|| format!("sequence-pair={},{}", k / n, k % n), || sequence_pair(ctx, &mut acc, &set, k / n, k % n));
		acc
	}).reduce(Acc::default, Acc::merge);
	(acc.merge(pairs), n)
}

fn check_value(ctx: &Ctx, acc: &mut Acc, case: &values::Case, chains: bool) {
	let v = &case.value;
	let label = &case.label;
	let focus = case.focus;
	let replay = || value_replay(case);
	// the oracle first: JVMS bytes of the value, accepted by the strict parser
	let reference = match vcore::guard(|| refenc::class(v)) {
		Ok(b) => b,
		Err(p) => vcore::machinery_fail(&format!("{label}: reference encoder: {}", p.msg)),
	};
	let rp = match cfmodel::parse(&reference) {
		Ok(p) => p,
		Err(_) if case.optional => {
			// a value outside what the strict parser takes for a well-formed file (an attribute in a foreign place whose
			// body breaks that place's rules, a table grown past a limit of its owner): not in the statement's domain
			acc.st.outcome("optional-value-outside-the-strict-parsers-domain-skipped");
			*acc.skipped.entry(focus).or_insert(0) += 1;
			return;
		},
		Err(e) => vcore::machinery_fail(&format!("{label}: the strict parser rejects the reference encoding of a generated value (generator or reference encoder wrong): {e}")),
	};
	acc.value_census.class(v);
	*acc.focus.entry(focus).or_insert(0) += 1;
	acc.st.eval();
	acc.st.distinct.add(&reference);
	// DEFECT A (known finding) strikes exactly when an attribute is named through a pool entry that comes after a
	// Long/Double: the crate looks the JVMS index up at vector position index-1
	let first_two_slot = {
		let mut jvms_index = 1usize;
		let mut found = None;
		for e in &v.constant_pool {
			if refenc::two_slot(e) {
				found = Some(jvms_index);
				break;
			}
			jvms_index += 1;
		}
		found
	};
	let name_after_two_slot = first_two_slot.is_some_and(|t| rp.attribute_spans.iter().any(|s| be(&reference, s.start, 2).is_some_and(|i| i as usize > t)));
	let two_slot_cause = case.pool == PoolVariant::TwoSlotFirst || name_after_two_slot;
	let cause_key = |kind: &str| -> String {
		if two_slot_cause { format!("read-back:pool-with-two-slot-entry:{kind}") } else { format!("read-back:{focus}:{kind}") }
	};

	let written = vcore::guard(|| {
		let mut out = Vec::new();
		let r = v.write(&mut out);
		(r.map(|_| out), v.to_bytes(), v.length())
	});
	let (w, to_bytes, length) = match written {
		Err(p) => {
			acc.st.outcome("value-write-panicked");
			ctx.diff(&format!("panic@{}", p.file()), &format!("writing a raw value panicked at {}: {}", p.site, p.msg), replay);
			return;
		},
		Ok((Err(e), _, _)) => {
			acc.st.outcome("value-write-failed");
			ctx.diff(&format!("write:{focus}:failed"), &format!("write into a Vec failed: {e}"), replay);
			return;
		},
		Ok((Ok(o), t, l)) => (o, t, l),
	};
	if to_bytes != w {
		ctx.diff("to_bytes:differs-from-write", "to_bytes() and write() produce different bytes", replay);
	}
	if length != w.len() {
		ctx.diff(&format!("length():{focus}:{}", delta_text(length as i64 - w.len() as i64)), &format!("length() = {length} but {} bytes are written", w.len()), replay);
	} else {
		acc.st.outcome("value-length-exact");
	}
	// read(write(v)) == v
	let back = vcore::guard(|| {
		let mut cur = Cursor::new(&w);
		let r = ClassFile::read(&mut cur);
		(r, cur.position() as usize)
	});
	match back {
		Err(p) => {
			acc.st.outcome("value-read-back-panicked");
			ctx.diff(&if two_slot_cause { cause_key("panic") } else { format!("panic@{}", p.file()) }, &format!("reading back the written value panicked at {}: {}", p.site, p.msg), replay);
		},
		Ok((Err(e), _)) => {
			acc.st.outcome("value-read-back-refused");
			ctx.diff(&cause_key("refused"), &format!("read refuses what write produced: {e}"), replay);
		},
		Ok((Ok(v2), pos)) => {
			if &v2 != v {
				acc.st.outcome("value-read-back-differs");
				ctx.diff(&cause_key("differs"), "read(write(v)) is a different value", replay);
			} else if pos != w.len() {
				acc.st.outcome("value-read-back-short");
				ctx.diff(&cause_key("bytes-left-unread"), &format!("read stops after {pos} of {} written bytes", w.len()), replay);
			} else {
				acc.st.outcome("value-read-back-equal");
				if focus == "element-value-nesting" && w == reference {
					acc.deepest_element_nesting = acc.deepest_element_nesting.max(values::element_nesting(v) as u64);
				}
				if !label.contains("/edit/") {
					let full = case.deep && label_number(label) % ctx.tier.pick(12usize, 1) == 0 && w.len() < 4000;
					io_alphabet(ctx, acc, &w, v, if full { Depth::Full } else { Depth::Small }, &replay);
				}
			}
		},
	}
	// the bytes written are the bytes the JVMS prescribes
	if w == reference {
		acc.st.outcome("value-bytes-as-prescribed");
		match vcore::guard(|| duke::read_class(&mut Cursor::new(&w))) {
			Ok(Ok(_)) => acc.st.outcome("value-bytes-read-by-duke"),
			Ok(Err(e)) => {
				acc.st.outcome("value-bytes-refused-by-duke");
				acc.note_duke(label, format!("{label}: duke refuses bytes that are the JVMS encoding and that the strict parser accepts (not charged to raw_class_file): {:#}", e).chars().take(400).collect());
			},
			Err(p) => {
				acc.st.outcome("value-bytes-panic-in-duke");
				acc.note_duke(label, format!("{label}: duke panics on JVMS bytes (not charged to raw_class_file): {} {}", p.site, p.msg));
			},
		}
		acc.st.sample(focus, || json!({"case": label, "focus": focus, "bytes_written": w.len(), "written_hex_tail": vcore::hex(&w[w.len().saturating_sub(48)..]), "outcome": "write = JVMS bytes, read(write(v)) == v, length() exact"}));
	} else {
		acc.st.outcome("value-bytes-differ-from-jvms");
		for (key, detail) in byte_diffs(&reference, &w, &rp) {
			let what = if ctx.is_known(&key) {
				detail
			} else {
				let strict = match cfmodel::parse(&w) {
					Ok(_) => "accepts them (reads another structure)".to_owned(),
					Err(e) => format!("rejects them: {e}"),
				};
				let dk = match vcore::guard(|| duke::read_class(&mut Cursor::new(&w))) {
					Ok(Ok(_)) => "accepts them".to_owned(),
					Ok(Err(e)) => format!("rejects them: {}", format!("{e:#}").chars().take(160).collect::<String>()),
					Err(p) => format!("panics: {}", p.msg),
				};
				format!("written bytes are not the JVMS encoding of the value: {detail}; the strict parser {strict}; duke {dk}")
			};
			ctx.diff(&key, &what, replay);
		}
	}
	// and the JVMS bytes of the value are a well-formed file: part 1 on them
	roundtrip_bytes(ctx, acc, &format!("{label}/jvms-bytes"), &reference, None, None, &replay);
	if chains && case.deep && case.pool == PoolVariant::Base && v.length() < 4000 {
		edit_chains(ctx, acc, case);
	}
}

fn run_values(ctx: &Ctx, variant: PoolVariant) -> (Acc, usize) {
	let cases = values::cases(variant);
	let n = cases.len();
	if std::env::var_os("VERIF_C20_TIMING").is_some() {
		eprintln!("[{:7.2}s] generated {n} raw values ({})", ctx.elapsed_s(), variant.name());
	}
	let acc = cases.par_iter().fold(Acc::default, |mut acc, case| {
		vcore::watched(|| format!("raw-case={}", case.label), || check_value(ctx, &mut acc, case, true));
		acc
	}).reduce(Acc::default, Acc::merge);
	(acc, n)
}

/// thorough tier: every ordered pair of frames of the full alphabet
fn run_frame_pairs(ctx: &Ctx, variant: PoolVariant) -> (Acc, usize) {
	let space = values::FramePairs::new(variant);
	let n = space.count();
	let acc = (0..n).into_par_iter().fold(Acc::default, |mut acc, i| {
		let case = space.nth(i);
		vcore::watched(|| format!("raw-case={}", case.label), || check_value(ctx, &mut acc, &case, true));
		acc
	}).reduce(Acc::default, Acc::merge);
	(acc, n)
}

// ---------------------------------------------------------------------------------------------

fn replay(ctx: &Ctx, path: &std::path::Path) -> ! {
	let body = vcore::replay_body(path);
	let mut evals = 0;
	for _ in 0..2 {
		let mut acc = Acc::default();
		if let Some(pair) = body.lines().find_map(|l| l.strip_prefix("sequence-pair=")) {
			let set = sequence_set();
			let ij = pair.split_once(',').and_then(|(i, j)| Some((i.trim().parse::<usize>().ok()?, j.trim().parse::<usize>().ok()?))).filter(|(i, j)| *i < set.len() && *j < set.len());
			let (i, j) = ij.unwrap_or_else(|| vcore::machinery_fail("replay: bad sequence pair"));
			sequence_pair(ctx, &mut acc, &set, i, j);
		} else if let Some(label) = body.lines().find_map(|l| l.strip_prefix("raw-case=")) {
			let variant = [PoolVariant::Base, PoolVariant::TwoSlotLast, PoolVariant::TwoSlotFirst].into_iter().find(|v| label.starts_with(&format!("raw/{}/", v.name()))).unwrap_or_else(|| vcore::machinery_fail("replay: unknown pool variant"));
			if let Some((_, i)) = label.split_once("/StackMapTable-pair/") {
				let space = values::FramePairs::new(variant);
				let i: usize = i.parse().ok().filter(|i| *i < space.count()).unwrap_or_else(|| vcore::machinery_fail("replay: bad frame pair index"));
				check_value(ctx, &mut acc, &space.nth(i), true);
			} else {
				// an edited case replays the chains of its origin
				let origin = label.split("/edit/").next().unwrap_or(label);
				let cases = values::cases(variant);
				let case = cases.iter().find(|c| c.label == origin).unwrap_or_else(|| vcore::machinery_fail("replay: no such raw case"));
				check_value(ctx, &mut acc, case, true);
			}
		} else {
			let hex: String = body.lines().skip_while(|l| !l.starts_with("class file bytes")).skip(1).collect();
			let bytes = vcore::unhex(&hex).unwrap_or_else(|| vcore::machinery_fail("replay: bad hex"));
			roundtrip_bytes(ctx, &mut acc, "replay", &bytes, None, Some(Depth::Full), &|| hex_replay("replay", &bytes));
		}
		evals += acc.st.evaluations;
	}
	ctx.finish(json!({"evaluations": evals, "distinct_nontrivial": 2, "rule": "replay of one case, twice", "samples": [body.lines().next()]}), &[]);
}

fn main() {
	let ctx: &'static Ctx = Box::leak(Box::new(Ctx::new("C20", "exploration")));
	if let Some(path) = ctx.replay.clone() {
		replay(ctx, &path);
	}
	if let Err(e) = io::self_test() {
		vcore::machinery_fail(&format!("scripted readers/writers: {e}"));
	}
	let quick = ctx.tier == Tier::Quick;
	let thorough = !quick;
	let mut total = Acc::default();
	let mut spaces = serde_json::Map::new();
	let mut run = |name: &str, acc: Acc| {
		if std::env::var_os("VERIF_C20_TIMING").is_some() {
			eprintln!("[{:7.2}s] {name}", ctx.elapsed_s());
		}
		spaces.insert(name.to_owned(), json!({"evaluations": acc.st.evaluations, "outcomes": acc.st.outcomes}));
		total = std::mem::take(&mut total).merge(acc);
	};

	// ---- part 1: generated classes ----
	let full_every: usize = ctx.tier.pick(16, 2);
	for (name, cases) in cfmodel::suite::listed_groups(quick) {
		let acc = cases.into_par_iter().enumerate().fold(Acc::default, |mut acc, (i, (label, m, e))| {
			// the full reader / writer alphabet on every `full_every`th case of the group, the small one on the others
			let depth = if i % full_every == 0 { Depth::Full } else { Depth::Small };
			check_model(ctx, &mut acc, &label, &m, &e, true, Some(depth));
			acc
		}).reduce(Acc::default, Acc::merge);
		run(name, acc);
	}
	let max_len = ctx.tier.pick(3, 4);
	for len in 1..=max_len {
		let space = ShapeSpace::new(len);
		let encs = [Encoding::default(), Encoding { default_form: 2, pool: PoolOrder::Reversed, ..Default::default() }];
		let n = space.count();
		let acc = (0..n).into_par_iter().fold(Acc::default, |mut acc, idx| {
			let insns = space.nth(idx);
			let m = class_with_method("p/Shape", insns);
			for (k, e) in encs.iter().enumerate() {
				if k == 1 && len >= 3 && idx % 7 != 0 {
					continue; // the second encoding on a fixed 1/7 slice of the longer spaces (stated in bounds)
				}
				check_model(ctx, &mut acc, &format!("shape/len{len}/{idx}/enc{k}"), &m, e, false, Some(if idx % (full_every as u64 * 8) == 0 { Depth::Full } else { Depth::Small }));
			}
			acc
		}).reduce(Acc::default, Acc::merge);
		run(&format!("shape-sweep-len{len}"), acc);
	}

	// ---- part 1: corpus ----
	let corpus = cfmodel::corpus::vendored(&vcore::verif_root());
	let n_corpus = corpus.len();
	let acc = corpus.par_iter().fold(Acc::default, |mut acc, (name, bytes)| {
		let label = format!("corpus/{name}");
		vcore::watched(|| hex_replay(&label, bytes), || roundtrip_bytes(ctx, &mut acc, &label, bytes, None, Some(Depth::Full), &|| hex_replay(&label, bytes)));
		acc
	}).reduce(Acc::default, Acc::merge);
	let corpus_exact = acc.st.get("byte-exact");
	run("javac-corpus", acc);
	let mut n_jdk = 0;
	let mut jdk_exact = 0;
	if thorough {
		let jdk = cfmodel::corpus::jdk_java_base(&vcore::verif_root().join("harness").join("target").join("tmp-jdk-c20"));
		n_jdk = jdk.len();
		let acc = jdk.par_iter().fold(Acc::default, |mut acc, (name, bytes)| {
			let label = format!("jdk/{name}");
			vcore::watched(|| hex_replay(&label, bytes), || roundtrip_bytes(ctx, &mut acc, &label, bytes, None, Some(Depth::Small), &|| hex_replay(&label, bytes)));
			acc
		}).reduce(Acc::default, Acc::merge);
		jdk_exact = acc.st.get("byte-exact");
		run("jdk-java.base (optional breadth)", acc);
	}

	// ---- part 2: raw values (each also feeds its JVMS bytes to part 1) ----
	let mut n_values = BTreeMap::new();
	for variant in [PoolVariant::Base, PoolVariant::TwoSlotLast, PoolVariant::TwoSlotFirst] {
		let (acc, n) = run_values(ctx, variant);
		n_values.insert(variant.name().to_owned(), n);
		run(&format!("raw-values-pool-{}", variant.name()), acc);
		if thorough && variant != PoolVariant::TwoSlotFirst {
			let (acc, n) = run_frame_pairs(ctx, variant);
			n_values.insert(format!("{}: all frame pairs", variant.name()), n);
			run(&format!("raw-values-frame-pairs-pool-{}", variant.name()), acc);
		}
	}

	let (acc, n_sequence_values) = run_sequences(ctx);
	run("sequences-of-two-values-on-one-thread", acc);

	if let Some((_, n)) = &total.duke_note {
		ctx.note(n.clone());
	}
	let st = &total.st;
	ctx.floor("class files read and written back byte for byte", ctx.tier.pick(100_000, 1_000_000), st.get("byte-exact"));
	ctx.floor("corpus classes read and written back byte for byte", 40, corpus_exact);
	ctx.floor("vendored corpus classes", 300, n_corpus as u64);
	ctx.floor("pool entry kinds among the classes given to read (of 17)", refenc::CP_KINDS as u64, total.fed_tags.len() as u64);
	ctx.floor("pool entry kinds among the classes written back byte for byte (15 one-slot kinds)", 15, total.exact_tags.len() as u64);
	ctx.floor("AttributeInfo variants among the values read from files that came back byte for byte", 26, total.read_census.count_group("attribute"));
	ctx.floor("AttributeInfo variants exercised as raw values (of 29)", refenc::ATTR_KINDS as u64, total.value_census.count_group("attribute"));
	ctx.floor("CpInfo variants exercised as raw values (of 17)", refenc::CP_KINDS as u64, total.value_census.count_group("cp"));
	ctx.floor("StackMapFrame variants exercised as raw values (of 7)", refenc::FRAME_KINDS as u64, total.value_census.count_group("frame"));
	ctx.floor("VerificationTypeInfo variants exercised as raw values (of 9)", refenc::VTYPE_KINDS as u64, total.value_census.count_group("vtype"));
	ctx.floor("ElementValue variants exercised as raw values (of 13)", refenc::ELEMENT_KINDS as u64, total.value_census.count_group("element"));
	ctx.floor("raw values whose written bytes are exactly the JVMS encoding", 2_500, st.get("value-bytes-as-prescribed"));
	ctx.floor("raw values read back equal", 5_000, st.get("value-read-back-equal"));
	ctx.floor("reads through a reader that served at least one request short, equal to the read from a cursor", ctx.tier.pick(200_000, 2_000_000), st.get("io-read-equal-with-short-serves"));
	ctx.floor("requests served short by the scripted readers", 1_000_000, total.io_short_serves);
	ctx.floor("requests answered with Interrupted", 100_000, total.io_interrupts);
	ctx.floor("write calls of which the scripted writers accepted only a part", 100_000, total.io_short_accepts);
	ctx.floor("writes into every writer of the alphabet that arrived byte for byte", 200_000, st.get("io-write-equal"));
	ctx.floor("failing writers whose error write reported", 100_000, st.get("io-write-error-reported"));
	ctx.floor("edit chains (written, one table edited in place, judged again)", 50_000, total.edit_chains.values().sum());
	ctx.floor("tables edited in place (of the 41 table kinds edits.rs visits)", 40, total.edit_chains.len() as u64);
	ctx.floor("raw values whose written bytes were also read by duke", 2_500, st.get("value-bytes-read-by-duke"));
	ctx.floor("failing readers (an I/O error after a prefix) whose error read reported", 100_000, st.get("io-read-error-reported"));
	ctx.floor("full writers (Ok(0) after a prefix) on which write gave up with an error", 100_000, st.get("io-write-full-writer-error-reported"));
	ctx.floor("reads of a class file cut off after a prefix (judged for panics and hangs only)", 200_000, st.get("io-read-cut-off-file-refused") + st.get("io-read-cut-off-file-accepted (not judged)"));
	ctx.floor("reads of a class followed by other data that returned the class and left the data in place", 100_000, st.get("io-read-data-behind-the-class-left-in-place"));
	ctx.floor("edit chains on a value that was read (read, written, one table edited in place, judged again)", ctx.tier.pick(10_000, 30_000), total.edit_chains_from_read);
	let focus = |f: &str| total.focus.get(f).copied().unwrap_or(0);
	ctx.floor("raw values with an attribute name (or other text) that is not ASCII, judged", 600, focus("attribute-name-text"));
	ctx.floor("raw values with single / reserved / all flag bits, judged", 600, focus("flag-bits"));
	ctx.floor("raw values with nested element values, judged", 1_000, focus("element-value-nesting"));
	ctx.floor("deepest nesting of element values written as the JVMS prescribes and read back equal", 60, total.deepest_element_nesting);
	ctx.floor("raw values with byte arrays of 4/8/16/32/64 KiB -1/+0/+1, judged", 60, focus("byte-array-sizes"));
	ctx.floor("raw values with attribute names at pool indices 255..65533, judged", 24, focus("pool-index-positions"));
	ctx.floor("raw values with every attribute kind in classes of 14 versions, judged", 600, focus("attribute-kinds-by-version"));
	ctx.floor("second values of a sequence that behaved as on their own", (n_sequence_values * n_sequence_values * 12) as u64, st.get("sequence-second-value-as-on-its-own"));
	ctx.floor("sequences of two values of different size", 1_000, st.get("sequence-of-two-values-of-different-size"));

	let coverage = json!({
		"evaluations": st.evaluations,
		"distinct_nontrivial": st.distinct.len(),
		"rule": "evaluations = executions of raw_class_file::ClassFile::read+write on a well-formed file (part 1) plus write+read on a raw value (part 2); distinct_nontrivial = distinct byte strings (hash) given to read or prescribed for a value",
		"exhaustive": true,
		"samples": st.samples,
		"outcomes": st.outcomes,
		"spaces": spaces,
		"raw_value_cases_per_focus": total.focus,
		"optional_raw_values_outside_the_strict_parsers_domain_per_focus": total.skipped,
		"edit_chains_per_table": total.edit_chains,
		"io": {
			"requests_served_short": total.io_short_serves,
			"requests_answered_interrupted": total.io_interrupts,
			"write_calls_partly_accepted": total.io_short_accepts,
			"reader_alphabet_full": format!("{:?} + SplitAt(every byte offset of files up to 700 bytes, a grid of 331 offsets beyond)", reader_alphabet(1, Depth::Full)),
			"reader_alphabet_small": format!("{:?}", reader_alphabet(1, Depth::Small)),
			"writer_alphabet_full": format!("{:?} + SplitAt(every offset up to 300 bytes, a grid of 101 beyond) + a writer failing after every such prefix + a slice one byte too small", writer_alphabet(1, Depth::Full)),
			"writer_alphabet_small": format!("{:?} + a writer failing after 0, half, all but one bytes", writer_alphabet(1, Depth::Small)),
			"refusing_environments": "per class / value, after each prefix of the failing-writer grid: a writer failing, a writer full (Ok(0)), a reader failing with an I/O error, the file cut off (slice and 3-byte chunks; panics and hangs only); a slice one byte too small; the class followed by its own first 24 bytes through 2 (small) / 8 (full) reader kinds",
			"full_alphabet_on": format!("every corpus class, every {full_every}th case of each suite group, every {}th shape, every {}th deep raw value (files under 4000 bytes); the small alphabet on all others", full_every * 8, ctx.tier.pick(12, 1)),
		},
		"variants_in_raw_values": total.value_census.0,
		"variants_in_values_read_from_byte_exact_files": total.read_census.0,
		"pool_entry_kinds_given_to_read": total.fed_tags,
		"pool_entry_kinds_byte_exact": total.exact_tags,
		"bounds": {
			"shape_sweep_max_len": max_len,
			"shape_alphabet": shape_alphabet().len(),
			"shape_second_encoding": "all of lengths 1-2, every 7th sequence of length >= 3",
			"suite": "cfmodel::suite::listed_groups (instruction samples x forms x pool orders, 3^8 forms, pool permutations/rotations/paddings, 6 kitchen sinks x attribute orders, module classes, element values, frame gaps, versions, Utf8 boundaries) + for every case with a two-slot constant or MethodParameters the same model without them",
			"raw_values": "0/1/2 elements per vector over explicit alphabets, per attribute kind; pool variants base / Long+Double last / Long+Double first",
			"raw_value_cases": n_values,
			"text_prefix_lengths": values::TEXT_PREFIX_LENGTHS,
			"text_tails": values::TEXT_TAILS.iter().map(|(n, _)| *n).collect::<Vec<_>>(),
			"flag_patterns": "1 << 0..16, 0, 0xffff, 0x7fff, 0x8001 in 10 flags fields",
			"element_value_nesting": "depths 1..=62 x {arrays, annotations, alternating from either} x 4 holders",
			"deepest_element_nesting_judged": total.deepest_element_nesting,
			"byte_array_sizes": "4, 8, 16, 32, 64 KiB -1/+0/+1 (u2-counted arrays up to 65535)",
			"pool_index_positions": [255, 256, 257, 32767, 32768, 65533],
			"sequence_values": n_sequence_values,
			"sequence_pairs": n_sequence_values * n_sequence_values,
			"sequence_variants_per_pair": "6 orders of asking x first value dropped / alive",
			"edit_chains": "every table at every depth x {pop, dup} on the built value; on every 3rd (quick) / every (thorough) deep value also on the value read from its bytes",
			"edit_chains_on_read_values": total.edit_chains_from_read,
			"stack_map_tables": if thorough { "empty, every single frame of the full alphabet, every ordered pair of the full alphabet" } else { "empty, every single frame of the full alphabet, all pairs with at least one frame from the reduced alphabet (18 frames)" },
			"corpus_classes": n_corpus,
			"corpus_byte_exact": corpus_exact,
			"jdk_classes": n_jdk,
			"jdk_byte_exact": jdk_exact,
		},
	});
	ctx.finish(coverage, &[
		"cfmodel's strict parser defines 'well-formed' and is the judge of the reference encoder (every expected byte string was accepted by it before use)",
		"raw values are taken from the domain the JVMS gives the type: offset_delta of same_frame <= 63, chop k in 1..=3, append with 1..=3 locals, vector lengths within the width of their count; values outside it ('no format checking is done') are not judged",
		"RuntimeVisible/InvisibleTypeAnnotations are not modelled by the crate (TODO in the source) and are exercised as `Other`",
		"duke::read_class on the written bytes is recorded but a refusal by duke of JVMS bytes is not charged to raw_class_file",
		"a class file is the same class file through every legal std::io::Read / Write: short serves, Interrupted (retry) and partial accepts are legal answers of the environment; the scripted readers and writers are self-tested (read_exact / write_all reproduce the data) before use",
		"when the environment refuses (a reader or writer that fails or is full) the refusal must come back as an error: Ok would be a silently wrong answer. A file cut off is outside the statement and judged for panics and hangs only; a class followed by other data may be refused, but if read answers with the class it must have taken exactly the class from the caller's reader",
		"what read / write / to_bytes / length answer for a value depends on the value alone, not on the values this thread handled before nor on the order of asking (sequence and edit-chain spaces)",
	]);
}
