//! In-place edits of raw class values: every vector ("table") of a value can be visited in a fixed
//! order and shrunk, grown or resized *without moving the value* (the attribute that owns the table
//! keeps its address). Used for
//!   * chains  write → edit in place → write …  (a value that has been serialised before and was then
//!     changed is still "a raw representation": what is written must depend on the value alone), and
//!   * boundary sizes of every table (255 / 256 / 65535 elements).
//!
//! The constant pool, whose entries are referred to by index, only grows (a copy of its last entry is appended).

use raw_class_file::*;

pub trait Table {
	fn len(&self) -> usize;
	fn pop_last(&mut self);
	/// appends a copy of the last element (no-op on an empty table)
	fn dup_last(&mut self);
	/// truncates, or repeats the last element, to exactly `n` (no-op growth on an empty table)
	fn resize_to(&mut self, n: usize);
}

impl<T: Clone> Table for Vec<T> {
	fn len(&self) -> usize {
		Vec::len(self)
	}
	fn pop_last(&mut self) {
		self.pop();
	}
	fn dup_last(&mut self) {
		if let Some(l) = self.last().cloned() {
			self.push(l);
		}
	}
	fn resize_to(&mut self, n: usize) {
		if n <= Vec::len(self) {
			self.truncate(n);
		} else if let Some(l) = self.last().cloned() {
			self.resize(n, l);
		}
	}
}

/// what the JVMS says about the size of a table
#[derive(Clone, Copy, Debug)]
pub struct Info {
	pub what: &'static str,
	pub min: usize,
	pub max: usize,
}

const U8: usize = 255;
const U16: usize = 65535;
/// byte bodies counted by a u4: explored up to this size
const U32_EXPLORED: usize = 70_000;

type F<'a> = &'a mut dyn FnMut(Info, &mut dyn Table);

fn t(f: F, what: &'static str, min: usize, max: usize, table: &mut dyn Table) {
	f(Info { what, min, max }, table);
}

/// calls `f` on every table of the value, container before contents, in declaration order
pub fn visit(c: &mut ClassFile, f: F) {
	// the constant pool only grows: its entries are referred to by index, a copy of the last one at the end is referred to by nothing
	let entries = c.constant_pool.len();
	let slots: usize = c.constant_pool.iter().map(|e| if matches!(e, CpInfo::Long { .. } | CpInfo::Double { .. }) { 2 } else { 1 }).sum();
	if slots == entries {
		t(f, "ClassFile.constant_pool", entries, U16 - 1, &mut c.constant_pool);
	}
	t(f, "ClassFile.interfaces", 0, U16, &mut c.interfaces);
	t(f, "ClassFile.fields", 0, U16, &mut c.fields);
	for x in &mut c.fields {
		t(f, "FieldInfo.attributes", 0, U16, &mut x.attributes);
		attributes(&mut x.attributes, f);
	}
	t(f, "ClassFile.methods", 0, U16, &mut c.methods);
	for x in &mut c.methods {
		t(f, "MethodInfo.attributes", 0, U16, &mut x.attributes);
		attributes(&mut x.attributes, f);
	}
	t(f, "ClassFile.attributes", 0, U16, &mut c.attributes);
	attributes(&mut c.attributes, f);
}

fn attributes(v: &mut [AttributeInfo], f: F) {
	for a in v {
		attribute(a, f);
	}
}

fn attribute(a: &mut AttributeInfo, f: F) {
	use AttributeInfo as A;
	match a {
		A::ConstantValue { .. } | A::EnclosingMethod { .. } | A::Synthetic { .. } | A::Signature { .. } | A::SourceFile { .. } | A::Deprecated { .. } | A::ModuleMainClass { .. } | A::NestHost { .. } => {},
		A::Code { code, exception_table, attributes: inner, .. } => {
			t(f, "Code.code", 1, U16, code);
			t(f, "Code.exception_table", 0, U16, exception_table);
			t(f, "Code.attributes", 0, U16, inner);
			attributes(inner, f);
		},
		A::StackMapTable { entries, .. } => {
			t(f, "StackMapTable.entries", 0, U16, entries);
			for e in entries {
				match e {
					StackMapFrame::AppendFrame { locals, .. } => t(f, "AppendFrame.locals", 1, 3, locals),
					StackMapFrame::FullFrame { locals, stack, .. } => {
						t(f, "FullFrame.locals", 0, U16, locals);
						t(f, "FullFrame.stack", 0, U16, stack);
					},
					_ => {},
				}
			}
		},
		A::Exceptions { exception_index_table, .. } => t(f, "Exceptions.exception_index_table", 0, U16, exception_index_table),
		A::InnerClasses { classes, .. } => t(f, "InnerClasses.classes", 0, U16, classes),
		A::SourceDebugExtension { debug_extension, .. } => t(f, "SourceDebugExtension.debug_extension", 0, U32_EXPLORED, debug_extension),
		A::LineNumberTable { line_number_table, .. } => t(f, "LineNumberTable.line_number_table", 0, U16, line_number_table),
		A::LocalVariableTable { local_variable_table, .. } => t(f, "LocalVariableTable.local_variable_table", 0, U16, local_variable_table),
		A::LocalVariableTypeTable { local_variable_type_table, .. } => t(f, "LocalVariableTypeTable.local_variable_type_table", 0, U16, local_variable_type_table),
		A::RuntimeVisibleAnnotations { annotations, .. } | A::RuntimeInvisibleAnnotations { annotations, .. } => {
			t(f, "Runtime(In)VisibleAnnotations.annotations", 0, U16, annotations);
			for x in annotations {
				annotation(x, f);
			}
		},
		A::RuntimeVisibleParameterAnnotations { parameter_annotations, .. } | A::RuntimeInvisibleParameterAnnotations { parameter_annotations, .. } => {
			t(f, "Runtime(In)VisibleParameterAnnotations.parameter_annotations", 0, U8, parameter_annotations);
			for p in parameter_annotations {
				t(f, "ParameterAnnotationEntry.annotations", 0, U16, &mut p.annotations);
				for x in &mut p.annotations {
					annotation(x, f);
				}
			}
		},
		A::AnnotationDefault { default_value, .. } => element(default_value, f),
		A::BootstrapMethods { bootstrap_methods, .. } => {
			t(f, "BootstrapMethods.bootstrap_methods", 0, U16, bootstrap_methods);
			for m in bootstrap_methods {
				t(f, "BootstrapMethodsEntry.boostrap_arguments", 0, U16, &mut m.boostrap_arguments);
			}
		},
		A::MethodParameters { parameters, .. } => t(f, "MethodParameters.parameters", 0, U8, parameters),
		A::Module { requires, exports, opens, uses_index, provides, .. } => {
			t(f, "Module.requires", 0, U16, requires);
			t(f, "Module.exports", 0, U16, exports);
			for e in exports {
				t(f, "ModuleExportsEntry.exports_to_index", 0, U16, &mut e.exports_to_index);
			}
			t(f, "Module.opens", 0, U16, opens);
			for o in opens {
				t(f, "ModuleOpensEntry.opens_to_index", 0, U16, &mut o.opens_to_index);
			}
			t(f, "Module.uses_index", 0, U16, uses_index);
			t(f, "Module.provides", 0, U16, provides);
			for p in provides {
				t(f, "ModuleProvidesEntry.provides_with_index", 0, U16, &mut p.provides_with_index);
			}
		},
		A::ModulePackages { package_index, .. } => t(f, "ModulePackages.package_index", 0, U16, package_index),
		A::NestMembers { classes, .. } => t(f, "NestMembers.classes", 0, U16, classes),
		A::PermittedSubclasses { classes, .. } => t(f, "PermittedSubclasses.classes", 0, U16, classes),
		A::Record { components, .. } => {
			t(f, "Record.components", 0, U16, components);
			for c in components {
				t(f, "RecordComponentInfo.attributes", 0, U16, &mut c.attributes);
				attributes(&mut c.attributes, f);
			}
		},
		A::Other { info, .. } => t(f, "Other.info", 0, U32_EXPLORED, info),
	}
}

fn annotation(a: &mut Annotation, f: F) {
	t(f, "Annotation.element_value_pairs", 0, U16, &mut a.element_value_pairs);
	for p in &mut a.element_value_pairs {
		element(&mut p.value, f);
	}
}

fn element(e: &mut ElementValue, f: F) {
	match e {
		ElementValue::Annotation { annotation_value } => annotation(annotation_value, f),
		ElementValue::Array { values } => {
			t(f, "ElementValue::Array.values", 0, U16, values);
			for v in values {
				element(v, f);
			}
		},
		_ => {},
	}
}

/// (what, current length, min, max) of every table, in visiting order
pub fn tables(c: &mut ClassFile) -> Vec<(Info, usize)> {
	let mut out = Vec::new();
	visit(c, &mut |i, tb| out.push((i, tb.len())));
	out
}

#[derive(Clone, Copy, Debug, PartialEq, Eq)]
pub enum Op {
	/// remove the last element
	Pop,
	/// append a copy of the last element
	Dup,
	/// make the table exactly this long by repeating its last element (or cutting)
	Resize(usize),
}

/// applies `op` to the `n`th table (in visiting order) if the result stays inside the table's JVMS size range
/// and really changes the table; returns the table's name if it did
pub fn apply(c: &mut ClassFile, n: usize, op: Op) -> Option<&'static str> {
	let mut k = 0usize;
	let mut done = None;
	visit(c, &mut |i, tb| {
		if k == n {
			let len = tb.len();
			match op {
				Op::Pop if len > i.min => {
					tb.pop_last();
					done = Some(i.what);
				},
				Op::Dup if len >= 1 && len < i.max => {
					tb.dup_last();
					done = Some(i.what);
				},
				Op::Resize(to) if to != len && to >= i.min && to <= i.max && (to < len || len >= 1) => {
					tb.resize_to(to);
					done = Some(i.what);
				},
				_ => {},
			}
		}
		k += 1;
	});
	done
}
