//! Readers and writers other than "everything is in memory": the alphabet of legal `std::io::Read` /
//! `std::io::Write` behaviours through which `ClassFile::read` / `ClassFile::write` are driven.
//!
//! `Read::read` may return fewer bytes than asked for (a `BufReader` at the end of its buffer, a zip
//! entry, a socket) and may fail with `ErrorKind::Interrupted`, which asks for a retry; `Write::write`
//! may accept fewer bytes than offered. A class file stays the same class file through whichever of
//! these it arrives, so the value read must be the same, and the bytes written must be the same.
//!
//! Every reader counts the requests it served short, so that the floors can prove that short reads
//! really happened.
//!
//! The refusing environments: `with_failing_writer` (an error after n bytes), `with_full_writer` (`Ok(0)`
//! after n bytes), `with_short_slice`, `with_failing_reader` (an I/O error - not end-of-file - after n bytes).

use std::io::{self, BufReader, Cursor, ErrorKind, Read, Seek, SeekFrom, Write};

// ---------------------------------------------------------------------------------------------
// readers

/// what one reader did while `ClassFile::read` pulled from it
#[derive(Default, Clone, Copy)]
pub struct ReadTrace {
	/// requests for n > 0 bytes that were answered with fewer than min(n, bytes left)
	pub short_serves: u64,
	/// requests answered with `ErrorKind::Interrupted`
	pub interrupts: u64,
	/// bytes handed out
	pub consumed: usize,
}

#[derive(Clone, Copy, Debug, PartialEq, Eq)]
pub enum ReaderKind {
	/// `&[u8]` itself (std's impl of Read for slices)
	Slice,
	/// `Cursor<Vec<u8>>` (an owned buffer)
	CursorVec,
	/// at most `k` bytes per call
	Chunk(usize),
	/// `std::io::BufReader` with this capacity over a cursor: a request smaller than the capacity is
	/// served from what happens to be buffered
	Buf(usize),
	/// `BufReader` with this capacity over a reader that itself hands out at most 3 bytes per call
	BufOverChunk3(usize),
	/// every request is first refused once with `ErrorKind::Interrupted`, then served with at most `k` bytes
	Interrupted(usize),
	/// everything is served in full, except that no request is served across byte offset `p`
	SplitAt(usize),
	/// no request is served across a multiple of `period` (+ `phase`): a buffered source whose refills
	/// are not aligned with the start of the file
	Periodic { period: usize, phase: usize },
}

impl ReaderKind {
	/// family name for difference keys (no sizes, no offsets)
	pub fn family(self) -> &'static str {
		match self {
			ReaderKind::Slice => "slice",
			ReaderKind::CursorVec => "cursor-vec",
			ReaderKind::Chunk(_) => "chunked",
			ReaderKind::Buf(_) => "buf-reader",
			ReaderKind::BufOverChunk3(_) => "buf-reader-over-chunked",
			ReaderKind::Interrupted(_) => "interrupted",
			ReaderKind::SplitAt(_) => "split",
			ReaderKind::Periodic { .. } => "periodic",
		}
	}
}

/// the general scripted reader: serves `data`, never across a boundary, never more than `max` bytes,
/// optionally refusing every request once with Interrupted
struct Scripted<'a> {
	data: &'a [u8],
	pos: usize,
	max: usize,
	/// next boundary strictly after `pos`, if any
	boundary: Boundary,
	interrupt: bool,
	interrupted_last: bool,
	trace: ReadTrace,
}

#[derive(Clone, Copy)]
enum Boundary {
	None,
	At(usize),
	Every { period: usize, phase: usize },
}

impl Boundary {
	fn next_after(self, pos: usize) -> Option<usize> {
		match self {
			Boundary::None => None,
			Boundary::At(p) => if p > pos { Some(p) } else { None },
			Boundary::Every { period, phase } => {
				let period = period.max(1);
				let phase = phase % period;
				// smallest b = phase + j * period with b > pos
				let b = if pos < phase { phase } else { phase + ((pos - phase) / period + 1) * period };
				Some(b)
			},
		}
	}
}

impl Read for Scripted<'_> {
	fn read(&mut self, buf: &mut [u8]) -> io::Result<usize> {
		if self.interrupt && !self.interrupted_last && !buf.is_empty() {
			self.interrupted_last = true;
			self.trace.interrupts += 1;
			return Err(ErrorKind::Interrupted.into());
		}
		self.interrupted_last = false;
		let left = self.data.len() - self.pos;
		let want = buf.len().min(left);
		let mut n = want.min(self.max);
		if let Some(b) = self.boundary.next_after(self.pos) {
			n = n.min(b - self.pos);
		}
		if n < want {
			self.trace.short_serves += 1;
		}
		buf[..n].copy_from_slice(&self.data[self.pos..self.pos + n]);
		self.pos += n;
		self.trace.consumed += n;
		Ok(n)
	}
}

/// seeking moves the position; the boundaries stay where they are in the data
impl Seek for Scripted<'_> {
	fn seek(&mut self, to: SeekFrom) -> io::Result<u64> {
		let target = match to {
			SeekFrom::Start(p) => p as i128,
			SeekFrom::Current(d) => self.pos as i128 + d as i128,
			SeekFrom::End(d) => self.data.len() as i128 + d as i128,
		};
		if target < 0 {
			return Err(io::Error::new(ErrorKind::InvalidInput, "seek before the start"));
		}
		// like a cursor, a position behind the end is allowed and reads nothing
		self.pos = (target as usize).min(self.data.len());
		self.interrupted_last = false;
		Ok(self.pos as u64)
	}
}

pub trait ReadSeek: Read + Seek {}
impl<T: Read + Seek> ReadSeek for T {}

/// like `with_reader`, for code that also seeks (duke's class reader); `consumed` is the final position
pub fn with_seek_reader<T>(kind: ReaderKind, data: &[u8], f: impl FnOnce(&mut dyn ReadSeek) -> T) -> (T, ReadTrace) {
	let run = |mut s: Scripted, f: &mut dyn FnMut(&mut dyn ReadSeek) -> T| {
		let r = f(&mut s);
		(r, ReadTrace { consumed: s.pos, ..s.trace })
	};
	let mut f = Some(f);
	let mut call = |r: &mut dyn ReadSeek| (f.take().expect("called once"))(r);
	match kind {
		ReaderKind::Slice | ReaderKind::CursorVec => {
			let mut c = Cursor::new(data.to_vec());
			let r = call(&mut c);
			(r, ReadTrace { consumed: c.position() as usize, ..Default::default() })
		},
		ReaderKind::Chunk(k) => run(scripted(data, k, Boundary::None, false), &mut call),
		ReaderKind::Interrupted(k) => run(scripted(data, k, Boundary::None, true), &mut call),
		ReaderKind::SplitAt(p) => run(scripted(data, usize::MAX, Boundary::At(p), false), &mut call),
		ReaderKind::Periodic { period, phase } => run(scripted(data, usize::MAX, Boundary::Every { period, phase }, false), &mut call),
		ReaderKind::Buf(cap) => {
			let mut b = BufReader::with_capacity(cap, Cursor::new(data));
			let r = call(&mut b);
			let consumed = b.stream_position().map(|p| p as usize).unwrap_or(usize::MAX);
			(r, ReadTrace { consumed, ..Default::default() })
		},
		ReaderKind::BufOverChunk3(cap) => {
			let mut b = BufReader::with_capacity(cap, scripted(data, 3, Boundary::None, false));
			let r = call(&mut b);
			let consumed = b.stream_position().map(|p| p as usize).unwrap_or(usize::MAX);
			let t = b.get_ref().trace;
			(r, ReadTrace { consumed, ..t })
		},
	}
}

/// a reader that serves the first `limit` bytes of `data` (every request in full, none across `limit`) and fails
/// every request after them with an I/O error (not end-of-file): returns f's result and the bytes handed out
pub fn with_failing_reader<T>(data: &[u8], limit: usize, f: impl FnOnce(&mut dyn Read) -> T) -> (T, usize) {
	struct Failing<'a> {
		data: &'a [u8],
		pos: usize,
	}
	impl Read for Failing<'_> {
		fn read(&mut self, buf: &mut [u8]) -> io::Result<usize> {
			if buf.is_empty() {
				return Ok(0);
			}
			if self.pos >= self.data.len() {
				return Err(io::Error::other("the device does not answer (scripted failure)"));
			}
			let n = buf.len().min(self.data.len() - self.pos);
			buf[..n].copy_from_slice(&self.data[self.pos..self.pos + n]);
			self.pos += n;
			Ok(n)
		}
	}
	let mut r = Failing { data: &data[..limit.min(data.len())], pos: 0 };
	let out = f(&mut r);
	(out, r.pos)
}

fn scripted(data: &[u8], max: usize, boundary: Boundary, interrupt: bool) -> Scripted<'_> {
	Scripted { data, pos: 0, max: max.max(1), boundary, interrupt, interrupted_last: false, trace: ReadTrace::default() }
}

/// runs `f` (which is `ClassFile::read`) on a reader of this kind over `data`
pub fn with_reader<T>(kind: ReaderKind, data: &[u8], f: impl FnOnce(&mut dyn Read) -> T) -> (T, ReadTrace) {
	match kind {
		ReaderKind::Slice => {
			let mut s: &[u8] = data;
			let r = f(&mut s);
			(r, ReadTrace { consumed: data.len() - s.len(), ..Default::default() })
		},
		ReaderKind::CursorVec => {
			let mut c = Cursor::new(data.to_vec());
			let r = f(&mut c);
			(r, ReadTrace { consumed: c.position() as usize, ..Default::default() })
		},
		ReaderKind::Chunk(k) => {
			let mut s = scripted(data, k, Boundary::None, false);
			let r = f(&mut s);
			(r, s.trace)
		},
		ReaderKind::Interrupted(k) => {
			let mut s = scripted(data, k, Boundary::None, true);
			let r = f(&mut s);
			(r, s.trace)
		},
		ReaderKind::SplitAt(p) => {
			let mut s = scripted(data, usize::MAX, Boundary::At(p), false);
			let r = f(&mut s);
			(r, s.trace)
		},
		ReaderKind::Periodic { period, phase } => {
			let mut s = scripted(data, usize::MAX, Boundary::Every { period, phase }, false);
			let r = f(&mut s);
			(r, s.trace)
		},
		ReaderKind::Buf(cap) => {
			let mut b = BufReader::with_capacity(cap, Counting { inner: Cursor::new(data), served: 0 });
			let r = f(&mut b);
			// what the BufReader pulled from the cursor minus what is still buffered = what `read` consumed
			let consumed = b.get_ref().served - b.buffer().len();
			(r, ReadTrace { consumed, ..Default::default() })
		},
		ReaderKind::BufOverChunk3(cap) => {
			let mut b = BufReader::with_capacity(cap, scripted(data, 3, Boundary::None, false));
			let r = f(&mut b);
			let t = b.get_ref().trace;
			(r, ReadTrace { consumed: t.consumed - b.buffer().len(), ..t })
		},
	}
}

struct Counting<R> {
	inner: R,
	served: usize,
}

impl<R: Read> Read for Counting<R> {
	fn read(&mut self, buf: &mut [u8]) -> io::Result<usize> {
		let n = self.inner.read(buf)?;
		self.served += n;
		Ok(n)
	}
}

// ---------------------------------------------------------------------------------------------
// writers

#[derive(Clone, Copy, Debug, PartialEq, Eq)]
pub enum WriterKind {
	/// `Cursor<Vec<u8>>`
	CursorVec,
	/// accepts at most `k` bytes per call
	Chunk(usize),
	/// refuses every call once with Interrupted, then accepts at most `k` bytes
	Interrupted(usize),
	/// accepts everything, but no call is accepted across byte offset `p`
	SplitAt(usize),
	/// `std::io::BufWriter` with this capacity over a Vec (the caller flushes)
	Buf(usize),
	/// `&mut [u8]` of exactly `length()` bytes (std's impl of Write for slices)
	ExactSlice,
}

impl WriterKind {
	pub fn family(self) -> &'static str {
		match self {
			WriterKind::CursorVec => "cursor-vec",
			WriterKind::Chunk(_) => "chunked",
			WriterKind::Interrupted(_) => "interrupted",
			WriterKind::SplitAt(_) => "split",
			WriterKind::Buf(_) => "buf-writer",
			WriterKind::ExactSlice => "exact-slice",
		}
	}
}

#[derive(Default, Clone, Copy)]
pub struct WriteTrace {
	/// calls that offered n > 0 bytes and had fewer accepted
	pub short_accepts: u64,
	pub interrupts: u64,
}

struct ScriptedW {
	out: Vec<u8>,
	max: usize,
	split: Option<usize>,
	interrupt: bool,
	interrupted_last: bool,
	/// fail with this error once `out` has reached this many bytes
	fail_at: Option<usize>,
	/// accept nothing more (`Ok(0)`) once `out` has reached this many bytes: a full `&mut [u8]`, a full pipe
	zero_at: Option<usize>,
	trace: WriteTrace,
}

impl Write for ScriptedW {
	fn write(&mut self, buf: &[u8]) -> io::Result<usize> {
		if buf.is_empty() {
			return Ok(0);
		}
		if self.interrupt && !self.interrupted_last {
			self.interrupted_last = true;
			self.trace.interrupts += 1;
			return Err(ErrorKind::Interrupted.into());
		}
		self.interrupted_last = false;
		let mut n = buf.len().min(self.max);
		if let Some(p) = self.split {
			if p > self.out.len() {
				n = n.min(p - self.out.len());
			}
		}
		if let Some(limit) = self.fail_at {
			if self.out.len() >= limit {
				return Err(io::Error::other("the device is full (scripted failure)"));
			}
			n = n.min(limit - self.out.len());
		}
		if let Some(limit) = self.zero_at {
			n = n.min(limit.saturating_sub(self.out.len()));
		}
		if n < buf.len() {
			self.trace.short_accepts += 1;
		}
		self.out.extend_from_slice(&buf[..n]);
		Ok(n)
	}
	fn flush(&mut self) -> io::Result<()> {
		Ok(())
	}
}

fn scripted_w(max: usize, split: Option<usize>, interrupt: bool, fail_at: Option<usize>) -> ScriptedW {
	ScriptedW { out: Vec::new(), max: max.max(1), split, interrupt, interrupted_last: false, fail_at, zero_at: None, trace: WriteTrace::default() }
}

/// runs `f` (which is `value.write`) on a writer of this kind; returns f's result, the bytes that arrived, the trace.
/// `announced` is the value's `length()` (the size of the exact slice).
pub fn with_writer(kind: WriterKind, announced: usize, f: impl FnOnce(&mut dyn Write) -> io::Result<()>) -> (io::Result<()>, Vec<u8>, WriteTrace) {
	match kind {
		WriterKind::CursorVec => {
			let mut c = Cursor::new(Vec::new());
			let r = f(&mut c);
			(r, c.into_inner(), WriteTrace::default())
		},
		WriterKind::Chunk(k) => {
			let mut w = scripted_w(k, None, false, None);
			let r = f(&mut w);
			(r, w.out, w.trace)
		},
		WriterKind::Interrupted(k) => {
			let mut w = scripted_w(k, None, true, None);
			let r = f(&mut w);
			(r, w.out, w.trace)
		},
		WriterKind::SplitAt(p) => {
			let mut w = scripted_w(usize::MAX, Some(p), false, None);
			let r = f(&mut w);
			(r, w.out, w.trace)
		},
		WriterKind::Buf(cap) => {
			let mut b = io::BufWriter::with_capacity(cap, Vec::new());
			let r = f(&mut b);
			match b.into_inner() {
				Ok(v) => (r, v, WriteTrace::default()),
				Err(e) => (r.and(Err(io::Error::other(format!("BufWriter flush: {}", e.error())))), Vec::new(), WriteTrace::default()),
			}
		},
		WriterKind::ExactSlice => {
			let mut store = vec![0xA5u8; announced];
			let (r, left) = {
				let mut s: &mut [u8] = &mut store;
				let r = f(&mut s);
				(r, s.len())
			};
			store.truncate(announced - left);
			(r, store, WriteTrace::default())
		},
	}
}

/// a writer that accepts `limit` bytes and then fails: returns f's result and the bytes that arrived before
pub fn with_failing_writer(limit: usize, f: impl FnOnce(&mut dyn Write) -> io::Result<()>) -> (io::Result<()>, usize) {
	let mut w = scripted_w(usize::MAX, None, false, Some(limit));
	let r = f(&mut w);
	(r, w.out.len())
}

/// a writer that accepts `limit` bytes and from then on accepts nothing (`Ok(0)`, never an error): returns f's result
/// and the bytes that arrived
pub fn with_full_writer(limit: usize, f: impl FnOnce(&mut dyn Write) -> io::Result<()>) -> (io::Result<()>, usize) {
	let mut w = scripted_w(usize::MAX, None, false, None);
	w.zero_at = Some(limit);
	let r = f(&mut w);
	(r, w.out.len())
}

/// a `&mut [u8]` that is `missing` bytes too small for what is announced
pub fn with_short_slice(announced: usize, missing: usize, f: impl FnOnce(&mut dyn Write) -> io::Result<()>) -> io::Result<()> {
	let mut store = vec![0u8; announced.saturating_sub(missing)];
	let mut s: &mut [u8] = &mut store;
	f(&mut s)
}

// ---------------------------------------------------------------------------------------------
// self-test of the machinery (run once at start; a failure is a machinery error, never a verdict)

/// the scripted readers and writers must themselves be legal and lossless: `read_exact` / `write_all`
/// through every kind reproduces the data
pub fn self_test() -> Result<(), String> {
	let data: Vec<u8> = (0..200u32).map(|i| (i * 7 + 3) as u8).collect();
	let kinds = [
		(ReaderKind::Slice, false), (ReaderKind::CursorVec, false), (ReaderKind::Chunk(1), true), (ReaderKind::Chunk(3), true), (ReaderKind::Buf(1), false),
		(ReaderKind::Buf(5), false), (ReaderKind::BufOverChunk3(7), true), (ReaderKind::Interrupted(1), true), (ReaderKind::SplitAt(0), false),
		(ReaderKind::SplitAt(13), true), (ReaderKind::SplitAt(199), true), (ReaderKind::SplitAt(200), false),
		(ReaderKind::Periodic { period: 4, phase: 3 }, true), (ReaderKind::Periodic { period: 1, phase: 0 }, true),
	];
	for (k, expect_short) in kinds {
		let (got, trace) = with_reader(k, &data, |r| {
			let mut a = vec![0u8; 150];
			let mut b = vec![0u8; 50];
			r.read_exact(&mut a).and_then(|_| r.read_exact(&mut b)).map(|_| {
				a.extend_from_slice(&b);
				a
			})
		});
		match got {
			Ok(v) if v == data && trace.consumed == data.len() => {},
			Ok(_) => return Err(format!("reader {k:?} does not reproduce its data (consumed {})", trace.consumed)),
			Err(e) => return Err(format!("reader {k:?}: {e}")),
		}
		if expect_short != (trace.short_serves > 0) {
			return Err(format!("reader {k:?}: {} requests served short, expected {}", trace.short_serves, if expect_short { "some" } else { "none" }));
		}
		if matches!(k, ReaderKind::Interrupted(_)) && trace.interrupts == 0 {
			return Err(format!("reader {k:?} never interrupted"));
		}
	}
	// seeking readers: read 10, skip 20 forward, read 30, go back to 5, read 5
	for (k, _) in kinds {
		let (got, _) = with_seek_reader(k, &data, |r| -> io::Result<Vec<u8>> {
			let mut a = vec![0u8; 10];
			r.read_exact(&mut a)?;
			r.seek(SeekFrom::Current(20))?;
			let mut b = vec![0u8; 30];
			r.read_exact(&mut b)?;
			r.seek(SeekFrom::Start(5))?;
			let mut c = vec![0u8; 5];
			r.read_exact(&mut c)?;
			a.extend(b);
			a.extend(c);
			Ok(a)
		});
		let want: Vec<u8> = data[0..10].iter().chain(&data[30..60]).chain(&data[5..10]).copied().collect();
		if got.ok() != Some(want) {
			return Err(format!("seeking reader {k:?} does not reproduce its data"));
		}
	}
	let wkinds = [WriterKind::CursorVec, WriterKind::Chunk(1), WriterKind::Chunk(3), WriterKind::Interrupted(2), WriterKind::SplitAt(17), WriterKind::Buf(7), WriterKind::ExactSlice];
	for k in wkinds {
		let (r, out, _) = with_writer(k, data.len(), |w| w.write_all(&data[..120]).and_then(|_| w.write_all(&data[120..])));
		if r.is_err() || out != data {
			return Err(format!("writer {k:?} does not reproduce what is written into it: {r:?}, {} bytes", out.len()));
		}
	}
	let (r, n) = with_failing_writer(10, |w| w.write_all(&data));
	if r.is_ok() || n != 10 {
		return Err("the failing writer did not fail after 10 bytes".into());
	}
	let (r, n) = with_full_writer(10, |w| w.write_all(&data));
	if r.as_ref().err().map(|e| e.kind()) != Some(ErrorKind::WriteZero) || n != 10 {
		return Err("the full writer did not stop accepting after 10 bytes".into());
	}
	let (r, n) = with_failing_reader(&data, 10, |r| {
		let mut a = vec![0u8; 10];
		let first = r.read_exact(&mut a).map(|_| a);
		let mut b = [0u8; 1];
		(first, r.read_exact(&mut b).err().map(|e| e.kind()))
	});
	if r.0.ok().as_deref() != Some(&data[..10]) || r.1 != Some(ErrorKind::Other) || n != 10 {
		return Err("the failing reader did not serve 10 bytes and then fail with an I/O error".into());
	}
	if with_short_slice(200, 1, |w| w.write_all(&data)).is_ok() {
		return Err("the short slice accepted everything".into());
	}
	Ok(())
}
