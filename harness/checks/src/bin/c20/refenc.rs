//! Reference encoder: raw index-level class value → the bytes JVMS chapter 4 prescribes for it.
//!
//! Written from the structure tables of JVMS §4.1, §4.4–§4.7 (one function per table), sharing nothing
//! with `raw_class_file`'s `notation!` macro: every `attribute_length` is the measured length of the body
//! that was written, every count has the width of its table, `constant_pool_count` counts slots
//! (a Long/Double entry occupies two). The result is validated by cfmodel's strict parser before it
//! is used as an expectation (a rejection is a machinery error, never a verdict).

use raw_class_file::*;

#[derive(Default)]
pub struct W(pub Vec<u8>);

impl W {
	fn u1(&mut self, v: usize) {
		assert!(v <= 0xff, "reference encoder: value {v} does not fit u1 (the generator left the domain)");
		self.0.push(v as u8);
	}
	fn u2(&mut self, v: usize) {
		assert!(v <= 0xffff, "reference encoder: value {v} does not fit u2 (the generator left the domain)");
		self.0.extend_from_slice(&(v as u16).to_be_bytes());
	}
	fn u4(&mut self, v: usize) {
		assert!(v <= 0xffff_ffff, "reference encoder: value {v} does not fit u4");
		self.0.extend_from_slice(&(v as u32).to_be_bytes());
	}
	fn bytes(&mut self, b: &[u8]) {
		self.0.extend_from_slice(b);
	}
	fn indices(&mut self, v: &[u16]) {
		self.u2(v.len());
		for i in v {
			self.u2(*i as usize);
		}
	}
}

pub fn two_slot(e: &CpInfo) -> bool {
	matches!(e, CpInfo::Long { .. } | CpInfo::Double { .. })
}

/// JVMS 4.1 ClassFile
pub fn class(c: &ClassFile) -> Vec<u8> {
	let mut w = W::default();
	w.u4(0xCAFEBABE);
	w.u2(c.minor_version as usize);
	w.u2(c.major_version as usize);
	let slots: usize = c.constant_pool.iter().map(|e| if two_slot(e) { 2 } else { 1 }).sum();
	w.u2(slots + 1);
	for e in &c.constant_pool {
		cp_info(&mut w, e);
	}
	w.u2(c.access_flags as usize);
	w.u2(c.this_class as usize);
	w.u2(c.super_class as usize);
	w.indices(&c.interfaces);
	w.u2(c.fields.len());
	for f in &c.fields {
		w.u2(f.access_flags as usize);
		w.u2(f.name_index as usize);
		w.u2(f.descriptor_index as usize);
		attributes(&mut w, &f.attributes);
	}
	w.u2(c.methods.len());
	for m in &c.methods {
		w.u2(m.access_flags as usize);
		w.u2(m.name_index as usize);
		w.u2(m.descriptor_index as usize);
		attributes(&mut w, &m.attributes);
	}
	attributes(&mut w, &c.attributes);
	w.0
}

/// JVMS 4.4
fn cp_info(w: &mut W, e: &CpInfo) {
	match e {
		CpInfo::Utf8 { bytes } => {
			w.u1(1);
			w.u2(bytes.len());
			w.bytes(bytes);
		},
		CpInfo::Integer { bytes } => {
			w.u1(3);
			w.u4(*bytes as usize);
		},
		CpInfo::Float { bytes } => {
			w.u1(4);
			w.u4(*bytes as usize);
		},
		CpInfo::Long { high_bytes, low_bytes } => {
			w.u1(5);
			w.u4(*high_bytes as usize);
			w.u4(*low_bytes as usize);
		},
		CpInfo::Double { high_bytes, low_bytes } => {
			w.u1(6);
			w.u4(*high_bytes as usize);
			w.u4(*low_bytes as usize);
		},
		CpInfo::Class { name_index } => {
			w.u1(7);
			w.u2(*name_index as usize);
		},
		CpInfo::String { string_index } => {
			w.u1(8);
			w.u2(*string_index as usize);
		},
		CpInfo::Fieldref { class_index, name_and_type_index } => {
			w.u1(9);
			w.u2(*class_index as usize);
			w.u2(*name_and_type_index as usize);
		},
		CpInfo::Methodref { class_index, name_and_type_index } => {
			w.u1(10);
			w.u2(*class_index as usize);
			w.u2(*name_and_type_index as usize);
		},
		CpInfo::InterfaceMethodref { class_index, name_and_type_index } => {
			w.u1(11);
			w.u2(*class_index as usize);
			w.u2(*name_and_type_index as usize);
		},
		CpInfo::NameAndType { name_index, descriptor_index } => {
			w.u1(12);
			w.u2(*name_index as usize);
			w.u2(*descriptor_index as usize);
		},
		CpInfo::MethodHandle { reference_kind, reference_index } => {
			w.u1(15);
			w.u1(*reference_kind as usize);
			w.u2(*reference_index as usize);
		},
		CpInfo::MethodType { descriptor_index } => {
			w.u1(16);
			w.u2(*descriptor_index as usize);
		},
		CpInfo::Dynamic { bootstrap_method_attr_index, name_and_type_index } => {
			w.u1(17);
			w.u2(*bootstrap_method_attr_index as usize);
			w.u2(*name_and_type_index as usize);
		},
		CpInfo::InvokeDynamic { bootstrap_method_attr_index, name_and_type_index } => {
			w.u1(18);
			w.u2(*bootstrap_method_attr_index as usize);
			w.u2(*name_and_type_index as usize);
		},
		CpInfo::Module { name_index } => {
			w.u1(19);
			w.u2(*name_index as usize);
		},
		CpInfo::Package { name_index } => {
			w.u1(20);
			w.u2(*name_index as usize);
		},
	}
}

fn attributes(w: &mut W, v: &[AttributeInfo]) {
	w.u2(v.len());
	for a in v {
		attribute(w, a);
	}
}

/// JVMS 4.7: attribute_name_index, attribute_length (= bytes that follow), info
fn attribute(w: &mut W, a: &AttributeInfo) {
	let mut b = W::default();
	let name = body(&mut b, a);
	w.u2(name as usize);
	w.u4(b.0.len());
	w.bytes(&b.0);
}

/// the info bytes (what follows attribute_length) the JVMS prescribes for this attribute
pub fn attribute_body(a: &AttributeInfo) -> Vec<u8> {
	let mut b = W::default();
	body(&mut b, a);
	b.0
}

/// writes the info bytes of the attribute, returns its attribute_name_index
fn body(b: &mut W, a: &AttributeInfo) -> u16 {
	use AttributeInfo as A;
	match a {
		A::ConstantValue { attribute_name_index, constantvalue_index } => {
			b.u2(*constantvalue_index as usize);
			*attribute_name_index
		},
		A::Code { attribute_name_index, max_stack, max_locals, code, exception_table, attributes: inner } => {
			b.u2(*max_stack as usize);
			b.u2(*max_locals as usize);
			b.u4(code.len());
			b.bytes(code);
			b.u2(exception_table.len());
			for e in exception_table {
				b.u2(e.start_pc as usize);
				b.u2(e.end_pc as usize);
				b.u2(e.handler_pc as usize);
				b.u2(e.catch_type as usize);
			}
			attributes(b, inner);
			*attribute_name_index
		},
		A::StackMapTable { attribute_name_index, entries } => {
			b.u2(entries.len());
			for f in entries {
				frame(b, f);
			}
			*attribute_name_index
		},
		A::Exceptions { attribute_name_index, exception_index_table } => {
			b.indices(exception_index_table);
			*attribute_name_index
		},
		A::InnerClasses { attribute_name_index, classes } => {
			b.u2(classes.len());
			for c in classes {
				b.u2(c.inner_class_info_index as usize);
				b.u2(c.outer_class_info_index as usize);
				b.u2(c.inner_name_index as usize);
				b.u2(c.inner_class_access_flags as usize);
			}
			*attribute_name_index
		},
		A::EnclosingMethod { attribute_name_index, class_index, method_index } => {
			b.u2(*class_index as usize);
			b.u2(*method_index as usize);
			*attribute_name_index
		},
		A::Synthetic { attribute_name_index } => *attribute_name_index,
		A::Signature { attribute_name_index, signature_index } => {
			b.u2(*signature_index as usize);
			*attribute_name_index
		},
		A::SourceFile { attribute_name_index, sourcefile_index } => {
			b.u2(*sourcefile_index as usize);
			*attribute_name_index
		},
		A::SourceDebugExtension { attribute_name_index, debug_extension } => {
			b.bytes(debug_extension);
			*attribute_name_index
		},
		A::LineNumberTable { attribute_name_index, line_number_table } => {
			b.u2(line_number_table.len());
			for e in line_number_table {
				b.u2(e.start_pc as usize);
				b.u2(e.line_number as usize);
			}
			*attribute_name_index
		},
		A::LocalVariableTable { attribute_name_index, local_variable_table } => {
			b.u2(local_variable_table.len());
			for e in local_variable_table {
				b.u2(e.start_pc as usize);
				b.u2(e.length as usize);
				b.u2(e.name_index as usize);
				b.u2(e.descriptor_index as usize);
				b.u2(e.index as usize);
			}
			*attribute_name_index
		},
		A::LocalVariableTypeTable { attribute_name_index, local_variable_type_table } => {
			b.u2(local_variable_type_table.len());
			for e in local_variable_type_table {
				b.u2(e.start_pc as usize);
				b.u2(e.length as usize);
				b.u2(e.name_index as usize);
				b.u2(e.signature_index as usize);
				b.u2(e.index as usize);
			}
			*attribute_name_index
		},
		A::Deprecated { attribute_name_index } => *attribute_name_index,
		A::RuntimeVisibleAnnotations { attribute_name_index, annotations } | A::RuntimeInvisibleAnnotations { attribute_name_index, annotations } => {
			b.u2(annotations.len());
			for x in annotations {
				annotation(b, x);
			}
			*attribute_name_index
		},
		A::RuntimeVisibleParameterAnnotations { attribute_name_index, parameter_annotations } | A::RuntimeInvisibleParameterAnnotations { attribute_name_index, parameter_annotations } => {
			b.u1(parameter_annotations.len());
			for p in parameter_annotations {
				b.u2(p.annotations.len());
				for x in &p.annotations {
					annotation(b, x);
				}
			}
			*attribute_name_index
		},
		A::AnnotationDefault { attribute_name_index, default_value } => {
			element_value(b, default_value);
			*attribute_name_index
		},
		A::BootstrapMethods { attribute_name_index, bootstrap_methods } => {
			b.u2(bootstrap_methods.len());
			for m in bootstrap_methods {
				b.u2(m.bootstrap_method_ref as usize);
				b.indices(&m.boostrap_arguments);
			}
			*attribute_name_index
		},
		A::MethodParameters { attribute_name_index, parameters } => {
			b.u1(parameters.len());
			for p in parameters {
				b.u2(p.name_index as usize);
				b.u2(p.access_flags as usize);
			}
			*attribute_name_index
		},
		A::Module { attribute_name_index, module_name_index, module_flags, module_version_index, requires, exports, opens, uses_index, provides } => {
			b.u2(*module_name_index as usize);
			b.u2(*module_flags as usize);
			b.u2(*module_version_index as usize);
			b.u2(requires.len());
			for r in requires {
				b.u2(r.requires_index as usize);
				b.u2(r.requires_flags as usize);
				b.u2(r.requires_version_index as usize);
			}
			b.u2(exports.len());
			for e in exports {
				b.u2(e.exports_index as usize);
				b.u2(e.exports_flags as usize);
				b.indices(&e.exports_to_index);
			}
			b.u2(opens.len());
			for o in opens {
				b.u2(o.opens_index as usize);
				b.u2(o.opens_flags as usize);
				b.indices(&o.opens_to_index);
			}
			b.indices(uses_index);
			b.u2(provides.len());
			for p in provides {
				b.u2(p.provides_index as usize);
				b.indices(&p.provides_with_index);
			}
			*attribute_name_index
		},
		A::ModulePackages { attribute_name_index, package_index } => {
			b.indices(package_index);
			*attribute_name_index
		},
		A::ModuleMainClass { attribute_name_index, main_class_index } => {
			b.u2(*main_class_index as usize);
			*attribute_name_index
		},
		A::NestHost { attribute_name_index, host_class_index } => {
			b.u2(*host_class_index as usize);
			*attribute_name_index
		},
		A::NestMembers { attribute_name_index, classes } => {
			b.indices(classes);
			*attribute_name_index
		},
		A::Record { attribute_name_index, components } => {
			b.u2(components.len());
			for c in components {
				b.u2(c.name_index as usize);
				b.u2(c.descriptor_index as usize);
				attributes(b, &c.attributes);
			}
			*attribute_name_index
		},
		A::PermittedSubclasses { attribute_name_index, classes } => {
			b.indices(classes);
			*attribute_name_index
		},
		A::Other { attribute_name_index, info } => {
			b.bytes(info);
			*attribute_name_index
		},
	}
}

/// JVMS 4.7.4 verification_type_info
fn vtype(b: &mut W, v: &VerificationTypeInfo) {
	use VerificationTypeInfo as V;
	match v {
		V::Top {} => b.u1(0),
		V::Integer {} => b.u1(1),
		V::Float {} => b.u1(2),
		V::Double {} => b.u1(3),
		V::Long {} => b.u1(4),
		V::Null {} => b.u1(5),
		V::UnintializedThis {} => b.u1(6),
		V::Object { cpool_index } => {
			b.u1(7);
			b.u2(*cpool_index as usize);
		},
		V::Unintialized { offset } => {
			b.u1(8);
			b.u2(*offset as usize);
		},
	}
}

/// JVMS 4.7.4 stack_map_frame
fn frame(b: &mut W, f: &StackMapFrame) {
	use StackMapFrame as F;
	match f {
		F::SameFrame { offset_delta } => {
			assert!(*offset_delta <= 63);
			b.u1(*offset_delta as usize);
		},
		F::SameLocals1StackItemFrame { offset_delta, stack } => {
			assert!(*offset_delta <= 63);
			b.u1(64 + *offset_delta as usize);
			vtype(b, stack);
		},
		F::SameLocals1StackItemFrameExtended { offset_delta, stack } => {
			b.u1(247);
			b.u2(*offset_delta as usize);
			vtype(b, stack);
		},
		F::ChopFrame { k, offset_delta } => {
			assert!((1..=3).contains(k));
			b.u1(251 - *k as usize);
			b.u2(*offset_delta as usize);
		},
		F::SameFrameExtended { offset_delta } => {
			b.u1(251);
			b.u2(*offset_delta as usize);
		},
		F::AppendFrame { offset_delta, locals } => {
			assert!((1..=3).contains(&locals.len()));
			b.u1(251 + locals.len());
			b.u2(*offset_delta as usize);
			for l in locals {
				vtype(b, l);
			}
		},
		F::FullFrame { offset_delta, locals, stack } => {
			b.u1(255);
			b.u2(*offset_delta as usize);
			b.u2(locals.len());
			for l in locals {
				vtype(b, l);
			}
			b.u2(stack.len());
			for s in stack {
				vtype(b, s);
			}
		},
	}
}

/// JVMS 4.7.16 annotation
fn annotation(b: &mut W, a: &Annotation) {
	b.u2(a.type_index as usize);
	b.u2(a.element_value_pairs.len());
	for p in &a.element_value_pairs {
		b.u2(p.element_name_index as usize);
		element_value(b, &p.value);
	}
}

/// JVMS 4.7.16.1 element_value
fn element_value(b: &mut W, v: &ElementValue) {
	use ElementValue as E;
	match v {
		E::Byte { const_value_index } => {
			b.u1(b'B' as usize);
			b.u2(*const_value_index as usize);
		},
		E::Char { const_value_index } => {
			b.u1(b'C' as usize);
			b.u2(*const_value_index as usize);
		},
		E::Double { const_value_index } => {
			b.u1(b'D' as usize);
			b.u2(*const_value_index as usize);
		},
		E::Float { const_value_index } => {
			b.u1(b'F' as usize);
			b.u2(*const_value_index as usize);
		},
		E::Integer { const_value_index } => {
			b.u1(b'I' as usize);
			b.u2(*const_value_index as usize);
		},
		E::Long { const_value_index } => {
			b.u1(b'J' as usize);
			b.u2(*const_value_index as usize);
		},
		E::Short { const_value_index } => {
			b.u1(b'S' as usize);
			b.u2(*const_value_index as usize);
		},
		E::Boolean { const_value_index } => {
			b.u1(b'Z' as usize);
			b.u2(*const_value_index as usize);
		},
		E::String { const_value_index } => {
			b.u1(b's' as usize);
			b.u2(*const_value_index as usize);
		},
		E::Enum { type_name_index, const_name_index } => {
			b.u1(b'e' as usize);
			b.u2(*type_name_index as usize);
			b.u2(*const_name_index as usize);
		},
		E::Class { class_info_index } => {
			b.u1(b'c' as usize);
			b.u2(*class_info_index as usize);
		},
		E::Annotation { annotation_value } => {
			b.u1(b'@' as usize);
			annotation(b, annotation_value);
		},
		E::Array { values } => {
			b.u1(b'[' as usize);
			b.u2(values.len());
			for x in values {
				element_value(b, x);
			}
		},
	}
}

// ---------------------------------------------------------------------------------------------
// census: which variants of the crate's enums occur in a value

pub fn attr_kind(a: &AttributeInfo) -> &'static str {
	use AttributeInfo as A;
	match a {
		A::ConstantValue { .. } => "ConstantValue",
		A::Code { .. } => "Code",
		A::StackMapTable { .. } => "StackMapTable",
		A::Exceptions { .. } => "Exceptions",
		A::InnerClasses { .. } => "InnerClasses",
		A::EnclosingMethod { .. } => "EnclosingMethod",
		A::Synthetic { .. } => "Synthetic",
		A::Signature { .. } => "Signature",
		A::SourceFile { .. } => "SourceFile",
		A::SourceDebugExtension { .. } => "SourceDebugExtension",
		A::LineNumberTable { .. } => "LineNumberTable",
		A::LocalVariableTable { .. } => "LocalVariableTable",
		A::LocalVariableTypeTable { .. } => "LocalVariableTypeTable",
		A::Deprecated { .. } => "Deprecated",
		A::RuntimeVisibleAnnotations { .. } => "RuntimeVisibleAnnotations",
		A::RuntimeInvisibleAnnotations { .. } => "RuntimeInvisibleAnnotations",
		A::RuntimeVisibleParameterAnnotations { .. } => "RuntimeVisibleParameterAnnotations",
		A::RuntimeInvisibleParameterAnnotations { .. } => "RuntimeInvisibleParameterAnnotations",
		A::AnnotationDefault { .. } => "AnnotationDefault",
		A::BootstrapMethods { .. } => "BootstrapMethods",
		A::MethodParameters { .. } => "MethodParameters",
		A::Module { .. } => "Module",
		A::ModulePackages { .. } => "ModulePackages",
		A::ModuleMainClass { .. } => "ModuleMainClass",
		A::NestHost { .. } => "NestHost",
		A::NestMembers { .. } => "NestMembers",
		A::Record { .. } => "Record",
		A::PermittedSubclasses { .. } => "PermittedSubclasses",
		A::Other { .. } => "Other",
	}
}

pub const ATTR_KINDS: usize = 29;
pub const CP_KINDS: usize = 17;
pub const FRAME_KINDS: usize = 7;
pub const VTYPE_KINDS: usize = 9;
pub const ELEMENT_KINDS: usize = 13;

pub fn cp_kind(e: &CpInfo) -> &'static str {
	match e {
		CpInfo::Class { .. } => "Class",
		CpInfo::Fieldref { .. } => "Fieldref",
		CpInfo::Methodref { .. } => "Methodref",
		CpInfo::InterfaceMethodref { .. } => "InterfaceMethodref",
		CpInfo::String { .. } => "String",
		CpInfo::Integer { .. } => "Integer",
		CpInfo::Float { .. } => "Float",
		CpInfo::Long { .. } => "Long",
		CpInfo::Double { .. } => "Double",
		CpInfo::NameAndType { .. } => "NameAndType",
		CpInfo::Utf8 { .. } => "Utf8",
		CpInfo::MethodHandle { .. } => "MethodHandle",
		CpInfo::MethodType { .. } => "MethodType",
		CpInfo::Dynamic { .. } => "Dynamic",
		CpInfo::InvokeDynamic { .. } => "InvokeDynamic",
		CpInfo::Module { .. } => "Module",
		CpInfo::Package { .. } => "Package",
	}
}

/// name of the pool entry kind with this tag byte
pub fn cp_tag_name(tag: u8) -> &'static str {
	match tag {
		1 => "Utf8",
		3 => "Integer",
		4 => "Float",
		5 => "Long",
		6 => "Double",
		7 => "Class",
		8 => "String",
		9 => "Fieldref",
		10 => "Methodref",
		11 => "InterfaceMethodref",
		12 => "NameAndType",
		15 => "MethodHandle",
		16 => "MethodType",
		17 => "Dynamic",
		18 => "InvokeDynamic",
		19 => "Module",
		20 => "Package",
		_ => "?",
	}
}

/// set of variant names (prefixed by the enum) that occur anywhere in the value
#[derive(Default, Clone)]
pub struct Census(pub std::collections::BTreeMap<String, u64>);

impl Census {
	fn hit(&mut self, group: &str, name: &str) {
		*self.0.entry(format!("{group}.{name}")).or_insert(0) += 1;
	}
	pub fn merge(&mut self, other: Census) {
		for (k, v) in other.0 {
			*self.0.entry(k).or_insert(0) += v;
		}
	}
	pub fn count_group(&self, group: &str) -> u64 {
		let p = format!("{group}.");
		self.0.keys().filter(|k| k.starts_with(&p)).count() as u64
	}
	pub fn class(&mut self, c: &ClassFile) {
		for e in &c.constant_pool {
			self.hit("cp", cp_kind(e));
		}
		for f in &c.fields {
			self.attrs(&f.attributes);
		}
		for m in &c.methods {
			self.attrs(&m.attributes);
		}
		self.attrs(&c.attributes);
	}
	fn attrs(&mut self, v: &[AttributeInfo]) {
		use AttributeInfo as A;
		for a in v {
			self.hit("attribute", attr_kind(a));
			match a {
				A::Code { attributes, .. } => self.attrs(attributes),
				A::Record { components, .. } => {
					for c in components {
						self.attrs(&c.attributes);
					}
				},
				A::StackMapTable { entries, .. } => {
					for f in entries {
						self.frame(f);
					}
				},
				A::RuntimeVisibleAnnotations { annotations, .. } | A::RuntimeInvisibleAnnotations { annotations, .. } => {
					for x in annotations {
						self.annotation(x);
					}
				},
				A::RuntimeVisibleParameterAnnotations { parameter_annotations, .. } | A::RuntimeInvisibleParameterAnnotations { parameter_annotations, .. } => {
					for p in parameter_annotations {
						for x in &p.annotations {
							self.annotation(x);
						}
					}
				},
				A::AnnotationDefault { default_value, .. } => self.element(default_value),
				_ => {},
			}
		}
	}
	fn frame(&mut self, f: &StackMapFrame) {
		use StackMapFrame as F;
		match f {
			F::SameFrame { .. } => self.hit("frame", "SameFrame"),
			F::SameLocals1StackItemFrame { stack, .. } => {
				self.hit("frame", "SameLocals1StackItemFrame");
				self.vtype(stack);
			},
			F::SameLocals1StackItemFrameExtended { stack, .. } => {
				self.hit("frame", "SameLocals1StackItemFrameExtended");
				self.vtype(stack);
			},
			F::ChopFrame { .. } => self.hit("frame", "ChopFrame"),
			F::SameFrameExtended { .. } => self.hit("frame", "SameFrameExtended"),
			F::AppendFrame { locals, .. } => {
				self.hit("frame", "AppendFrame");
				for l in locals {
					self.vtype(l);
				}
			},
			F::FullFrame { locals, stack, .. } => {
				self.hit("frame", "FullFrame");
				for l in locals.iter().chain(stack) {
					self.vtype(l);
				}
			},
		}
	}
	fn vtype(&mut self, v: &VerificationTypeInfo) {
		use VerificationTypeInfo as V;
		let n = match v {
			V::Top {} => "Top",
			V::Integer {} => "Integer",
			V::Float {} => "Float",
			V::Null {} => "Null",
			V::UnintializedThis {} => "UninitializedThis",
			V::Object { .. } => "Object",
			V::Unintialized { .. } => "Uninitialized",
			V::Long {} => "Long",
			V::Double {} => "Double",
		};
		self.hit("vtype", n);
	}
	fn annotation(&mut self, a: &Annotation) {
		for p in &a.element_value_pairs {
			self.element(&p.value);
		}
	}
	fn element(&mut self, v: &ElementValue) {
		use ElementValue as E;
		let n = match v {
			E::Byte { .. } => "B",
			E::Char { .. } => "C",
			E::Double { .. } => "D",
			E::Float { .. } => "F",
			E::Integer { .. } => "I",
			E::Long { .. } => "J",
			E::Short { .. } => "S",
			E::Boolean { .. } => "Z",
			E::String { .. } => "s",
			E::Enum { .. } => "e",
			E::Class { .. } => "c",
			E::Annotation { annotation_value } => {
				self.annotation(annotation_value);
				"@"
			},
			E::Array { values } => {
				for x in values {
					self.element(x);
				}
				"["
			},
		};
		self.hit("element", n);
	}
}
