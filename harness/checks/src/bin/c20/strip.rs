//! Model-to-model maps that remove from a generated class exactly the two features whose presence
//! makes `raw_class_file` misread a file today (a two-slot pool entry; a MethodParameters attribute),
//! so that everything *else* in the kitchen-sink classes is still judged byte for byte.
//! The results are ordinary models: they go through the same `parse(assemble(m)) == m` self-check.

use cfmodel::asm::{Encoding, Pad};
use cfmodel::model::*;

fn konst(c: &mut SConst) {
	match c {
		SConst::Long(v) => *c = SConst::Int(*v as i32),
		SConst::Double(b) => *c = SConst::Float((*b >> 32) as u32),
		SConst::Dynamic(d) => bootstrap(&mut d.bootstrap),
		_ => {},
	}
}

fn bootstrap(b: &mut SBootstrap) {
	for a in &mut b.args {
		konst(a);
	}
}

fn element(e: &mut SElementValue) {
	match e {
		SElementValue::Const(tag, c) => {
			if matches!(c, SConst::Long(_)) {
				*tag = b'I';
			} else if matches!(c, SConst::Double(_)) {
				*tag = b'F';
			}
			konst(c);
		},
		SElementValue::Annotation(a) => annotation(a),
		SElementValue::Array(v) => v.iter_mut().for_each(element),
		_ => {},
	}
}

fn annotation(a: &mut SAnnotation) {
	for (_, v) in &mut a.pairs {
		element(v);
	}
}

fn annotations(a: &mut SAnnotations) {
	a.visible.iter_mut().for_each(annotation);
	a.invisible.iter_mut().for_each(annotation);
	a.visible_type.iter_mut().for_each(|t| annotation(&mut t.annotation));
	a.invisible_type.iter_mut().for_each(|t| annotation(&mut t.annotation));
}

/// replaces every Long/Double constant by an Int/Float one (and the element value tags with them)
pub fn without_two_slot_constants(c: &mut SClass) {
	annotations(&mut c.annotations);
	for f in &mut c.fields {
		if let Some(v) = &mut f.constant_value {
			konst(v);
		}
		annotations(&mut f.annotations);
	}
	for m in &mut c.methods {
		annotations(&mut m.annotations);
		for list in m.visible_param_annotations.iter_mut().chain(m.invisible_param_annotations.iter_mut()) {
			for p in list {
				p.iter_mut().for_each(annotation);
			}
		}
		if let Some(d) = &mut m.annotation_default {
			element(d);
		}
		if let Some(code) = &mut m.code {
			for i in &mut code.insns {
				match i {
					SInsn::Ldc(k) => konst(k),
					SInsn::InvokeDynamic(d) => bootstrap(&mut d.bootstrap),
					_ => {},
				}
			}
			code.visible_type.iter_mut().for_each(|t| annotation(&mut t.annotation));
			code.invisible_type.iter_mut().for_each(|t| annotation(&mut t.annotation));
		}
	}
	if let Some(r) = &mut c.record {
		for rc in r {
			annotations(&mut rc.annotations);
		}
	}
}

pub fn without_method_parameters(c: &mut SClass) {
	for m in &mut c.methods {
		m.parameters = None;
	}
}

pub fn without_two_slot_pads(e: &mut Encoding) {
	e.pads.retain(|(_, p)| !matches!(p, Pad::Long(_) | Pad::Double(_)));
}
