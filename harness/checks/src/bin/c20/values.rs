//! Exhaustive small raw class values: for every attribute kind / enum variant of `raw_class_file`
//! all instances with 0/1/2 elements per vector over a small explicit alphabet, each inside a
//! minimal but meaningful class (every index points at a pool entry of the kind the JVMS demands,
//! every attribute name index at a Utf8 with the attribute's name, code offsets on instruction
//! boundaries), so that the strict parser and duke can read what is written.
//!
//! Nothing is random; the order of cases is fixed, a case is addressed by its label.

use raw_class_file::*;

#[derive(Clone, Copy, Debug, PartialEq, Eq)]
pub enum PoolVariant {
	/// every one-slot kind except Dynamic/InvokeDynamic
	Base,
	/// Base + a Long and a Double as the last entries (no index of another entry moves)
	TwoSlotLast,
	/// a Long and a Double as the first entries: every other entry sits at a JVMS index that is
	/// not its position in the vector
	TwoSlotFirst,
}

impl PoolVariant {
	pub fn name(self) -> &'static str {
		match self {
			PoolVariant::Base => "base",
			PoolVariant::TwoSlotLast => "two-slot-last",
			PoolVariant::TwoSlotFirst => "two-slot-first",
		}
	}
}

pub const ATTRIBUTE_NAMES: &[&str] = &[
	"ConstantValue", "Code", "StackMapTable", "Exceptions", "InnerClasses", "EnclosingMethod", "Synthetic", "Signature",
	"SourceFile", "SourceDebugExtension", "LineNumberTable", "LocalVariableTable", "LocalVariableTypeTable", "Deprecated",
	"RuntimeVisibleAnnotations", "RuntimeInvisibleAnnotations", "RuntimeVisibleParameterAnnotations",
	"RuntimeInvisibleParameterAnnotations", "RuntimeVisibleTypeAnnotations", "RuntimeInvisibleTypeAnnotations",
	"AnnotationDefault", "BootstrapMethods", "MethodParameters", "Module", "ModulePackages", "ModuleMainClass", "NestHost",
	"NestMembers", "Record", "PermittedSubclasses", "x.Custom",
];

/// JVMS indices of the entries of the universe pool
#[derive(Clone, Debug, Default)]
pub struct Ix {
	pub this_class: u16,
	pub super_class: u16,
	pub module_info: u16,
	pub cls_t: u16,
	pub cls_a: u16,
	pub cls_b: u16,
	pub u_f: u16,
	pub u_int_desc: u16,
	pub u_m: u16,
	pub u_void_desc: u16,
	pub u_ann: u16,
	pub u_ann2: u16,
	pub u_v: u16,
	pub u_w: u16,
	pub u_text: u16,
	pub u_enum_type: u16,
	pub u_enum_const: u16,
	pub u_class_desc: u16,
	pub u_sig: u16,
	pub u_source: u16,
	pub u_inner_name: u16,
	pub u_version: u16,
	pub int: u16,
	pub float: u16,
	pub string: u16,
	pub nat_m: u16,
	pub nat_f: u16,
	pub fieldref: u16,
	pub methodref: u16,
	pub imethodref: u16,
	pub mh_method: u16,
	pub mh_field: u16,
	pub mtype: u16,
	pub module_a: u16,
	pub module_b: u16,
	pub package_a: u16,
	pub package_b: u16,
	pub long: u16,
	pub double: u16,
	names: Vec<(&'static str, u16)>,
}

impl Ix {
	pub fn name(&self, n: &str) -> u16 {
		self.names.iter().find(|(k, _)| *k == n).map(|(_, i)| *i).unwrap_or_else(|| panic!("no attribute name {n} in the universe pool"))
	}
}

pub struct PB {
	pub v: Vec<CpInfo>,
	pub next: u16,
}

impl PB {
	pub fn add(&mut self, e: CpInfo) -> u16 {
		let i = self.next;
		self.next += if matches!(e, CpInfo::Long { .. } | CpInfo::Double { .. }) { 2 } else { 1 };
		self.v.push(e);
		i
	}
	pub fn utf8(&mut self, s: &str) -> u16 {
		self.add(CpInfo::Utf8 { bytes: s.as_bytes().to_vec() })
	}
	pub fn class(&mut self, s: &str) -> u16 {
		let u = self.utf8(s);
		self.add(CpInfo::Class { name_index: u })
	}
}

pub fn universe(variant: PoolVariant) -> (Vec<CpInfo>, Ix, u16) {
	universe_ordered(variant, false, 0)
}

/// the universe pool with the attribute names rotated left by `rotate` and, if `names_first`, placed before
/// everything else (then the first of them is pool entry #1; otherwise the last of them is the last entry
/// of the base variant)
pub fn universe_ordered(variant: PoolVariant, names_first: bool, rotate: usize) -> (Vec<CpInfo>, Ix, u16) {
	let mut p = PB { v: Vec::new(), next: 1 };
	let mut ix = Ix::default();
	let add_names = |p: &mut PB, ix: &mut Ix| {
		for k in 0..ATTRIBUTE_NAMES.len() {
			let n = ATTRIBUTE_NAMES[(k + rotate) % ATTRIBUTE_NAMES.len()];
			let i = p.utf8(n);
			ix.names.push((n, i));
		}
	};
	if names_first {
		add_names(&mut p, &mut ix);
	}
	if variant == PoolVariant::TwoSlotFirst {
		ix.long = p.add(CpInfo::Long { high_bytes: 0x0102_0304, low_bytes: 0x0506_0708 });
		ix.double = p.add(CpInfo::Double { high_bytes: 0x4004_0000, low_bytes: 0 });
	}
	ix.this_class = p.class("p/Raw");
	ix.super_class = p.class("java/lang/Object");
	ix.module_info = p.class("module-info");
	ix.cls_t = p.class("p/T");
	ix.cls_a = p.class("p/Raw$A");
	ix.cls_b = p.class("p/Raw$B");
	ix.u_f = p.utf8("f");
	ix.u_int_desc = p.utf8("I");
	ix.u_m = p.utf8("m");
	ix.u_void_desc = p.utf8("()V");
	ix.u_ann = p.utf8("Lp/A;");
	ix.u_ann2 = p.utf8("Lp/B;");
	ix.u_v = p.utf8("v");
	ix.u_w = p.utf8("w");
	ix.u_text = p.utf8("text");
	ix.u_enum_type = p.utf8("Lp/E;");
	ix.u_enum_const = p.utf8("K");
	ix.u_class_desc = p.utf8("Lp/T;");
	ix.u_sig = p.utf8("TX;");
	ix.u_source = p.utf8("Raw.java");
	ix.u_inner_name = p.utf8("A");
	ix.u_version = p.utf8("1.0");
	ix.int = p.add(CpInfo::Integer { bytes: 0x7fff_ffff });
	ix.float = p.add(CpInfo::Float { bytes: 1.5f32.to_bits() });
	ix.string = p.add(CpInfo::String { string_index: ix.u_text });
	ix.nat_m = p.add(CpInfo::NameAndType { name_index: ix.u_m, descriptor_index: ix.u_void_desc });
	ix.nat_f = p.add(CpInfo::NameAndType { name_index: ix.u_f, descriptor_index: ix.u_int_desc });
	ix.fieldref = p.add(CpInfo::Fieldref { class_index: ix.cls_t, name_and_type_index: ix.nat_f });
	ix.methodref = p.add(CpInfo::Methodref { class_index: ix.cls_t, name_and_type_index: ix.nat_m });
	ix.imethodref = p.add(CpInfo::InterfaceMethodref { class_index: ix.cls_a, name_and_type_index: ix.nat_m });
	ix.mh_method = p.add(CpInfo::MethodHandle { reference_kind: 6, reference_index: ix.methodref });
	ix.mh_field = p.add(CpInfo::MethodHandle { reference_kind: 1, reference_index: ix.fieldref });
	ix.mtype = p.add(CpInfo::MethodType { descriptor_index: ix.u_void_desc });
	let u = p.utf8("m.a");
	ix.module_a = p.add(CpInfo::Module { name_index: u });
	let u = p.utf8("m.b");
	ix.module_b = p.add(CpInfo::Module { name_index: u });
	let u = p.utf8("p/e");
	ix.package_a = p.add(CpInfo::Package { name_index: u });
	let u = p.utf8("p/o");
	ix.package_b = p.add(CpInfo::Package { name_index: u });
	if !names_first {
		add_names(&mut p, &mut ix);
	}
	if variant == PoolVariant::TwoSlotLast {
		ix.long = p.add(CpInfo::Long { high_bytes: 0x0102_0304, low_bytes: 0x0506_0708 });
		ix.double = p.add(CpInfo::Double { high_bytes: 0x4004_0000, low_bytes: 0 });
	}
	(p.v, ix, p.next)
}

pub struct Case {
	pub label: String,
	/// the attribute kind / structure the case is about (part of difference keys)
	pub focus: &'static str,
	pub pool: PoolVariant,
	pub value: ClassFile,
	/// the case is driven through the large reader / writer alphabets and the in-place edit chains
	/// (false for the bulk of the stack map frame pairs, which get the small alphabets)
	pub deep: bool,
	/// the generator does not know whether the strict parser accepts the JVMS encoding of this value
	/// (a table repeated up to a boundary size, an attribute in a foreign place); if it does not, the
	/// case is counted and skipped instead of being a machinery error
	pub optional: bool,
}

/// all lists with 0, 1 and 2 elements over `alphabet`
pub fn lists012<T: Clone>(alphabet: &[T]) -> Vec<Vec<T>> {
	let mut out = vec![Vec::new()];
	for a in alphabet {
		out.push(vec![a.clone()]);
	}
	for a in alphabet {
		for b in alphabet {
			out.push(vec![a.clone(), b.clone()]);
		}
	}
	out
}

/// number of nops before the final `return` of the long code array
pub const LONG_CODE_NOPS: usize = 700;

struct Gen {
	pool: Vec<CpInfo>,
	ix: Ix,
	/// the next free JVMS pool index
	next: u16,
	variant: PoolVariant,
	out: Vec<Case>,
	counter: std::collections::BTreeMap<&'static str, usize>,
}

/// where an attribute is put
#[derive(Clone, Copy, Debug, PartialEq, Eq)]
pub enum Level {
	Class,
	Field,
	Method,
	Code,
	Record,
	/// the attributes of a module-info class
	ModuleClass,
}

pub const LEVELS: [Level; 6] = [Level::Class, Level::Field, Level::Method, Level::Code, Level::Record, Level::ModuleClass];

impl Gen {
	fn two_slot(&self) -> bool {
		self.variant != PoolVariant::Base
	}
	fn push(&mut self, focus: &'static str, value: ClassFile) {
		self.push_as(focus, value, true, false);
	}
	fn push_optional(&mut self, focus: &'static str, value: ClassFile) {
		self.push_as(focus, value, true, true);
	}
	fn push_as(&mut self, focus: &'static str, value: ClassFile, deep: bool, optional: bool) {
		let n = self.counter.entry(focus).or_insert(0);
		let label = format!("raw/{}/{}/{}", self.variant.name(), focus, *n);
		*n += 1;
		self.out.push(Case { label, focus, pool: self.variant, value, deep, optional });
	}
	/// a generator over another pool (same variant), for families that need their own pool layout
	fn with_pool(&self, (pool, ix, next): (Vec<CpInfo>, Ix, u16)) -> Gen {
		Gen { pool, ix, next, variant: self.variant, out: Vec::new(), counter: Default::default() }
	}
	fn place(&self, level: Level, a: Vec<AttributeInfo>) -> ClassFile {
		match level {
			Level::Class => self.in_class(a),
			Level::Field => self.in_field(a),
			Level::Method => self.in_method(a),
			Level::Code => self.in_code(Self::short_code(), a),
			Level::Record => self.in_record(a),
			Level::ModuleClass => {
				let mut c = self.module_host();
				c.attributes = a;
				c
			},
		}
	}
	fn host(&self) -> ClassFile {
		ClassFile { minor_version: 0, major_version: 61, constant_pool: self.pool.clone(), access_flags: 0x0021, this_class: self.ix.this_class, super_class: self.ix.super_class, interfaces: vec![], fields: vec![], methods: vec![], attributes: vec![] }
	}
	fn module_host(&self) -> ClassFile {
		ClassFile { minor_version: 0, major_version: 61, constant_pool: self.pool.clone(), access_flags: 0x8000, this_class: self.ix.module_info, super_class: 0, interfaces: vec![], fields: vec![], methods: vec![], attributes: vec![] }
	}
	fn in_class(&self, a: Vec<AttributeInfo>) -> ClassFile {
		let mut c = self.host();
		c.attributes = a;
		c
	}
	fn field(&self, a: Vec<AttributeInfo>) -> FieldInfo {
		FieldInfo { access_flags: 0x0019, name_index: self.ix.u_f, descriptor_index: self.ix.u_int_desc, attributes: a }
	}
	fn in_field(&self, a: Vec<AttributeInfo>) -> ClassFile {
		let mut c = self.host();
		c.fields = vec![self.field(a)];
		c
	}
	fn abstract_method(&self, a: Vec<AttributeInfo>) -> MethodInfo {
		MethodInfo { access_flags: 0x0401, name_index: self.ix.u_m, descriptor_index: self.ix.u_void_desc, attributes: a }
	}
	fn in_method(&self, a: Vec<AttributeInfo>) -> ClassFile {
		let mut c = self.host();
		c.access_flags = 0x0421;
		c.methods = vec![self.abstract_method(a)];
		c
	}
	fn code_attr(&self, code: Vec<u8>, exception_table: Vec<ExceptionTableEntry>, attributes: Vec<AttributeInfo>) -> AttributeInfo {
		AttributeInfo::Code { attribute_name_index: self.ix.name("Code"), max_stack: 2, max_locals: 3, code, exception_table, attributes }
	}
	fn concrete_method(&self, code: AttributeInfo) -> MethodInfo {
		MethodInfo { access_flags: 0x0009, name_index: self.ix.u_m, descriptor_index: self.ix.u_void_desc, attributes: vec![code] }
	}
	fn in_code(&self, code: Vec<u8>, a: Vec<AttributeInfo>) -> ClassFile {
		let mut c = self.host();
		c.methods = vec![self.concrete_method(self.code_attr(code, vec![], a))];
		c
	}
	fn in_record(&self, a: Vec<AttributeInfo>) -> ClassFile {
		let mut c = self.host();
		c.access_flags = 0x0031;
		c.attributes = vec![AttributeInfo::Record { attribute_name_index: self.ix.name("Record"), components: vec![RecordComponentInfo { name_index: self.ix.u_f, descriptor_index: self.ix.u_int_desc, attributes: a }] }];
		c
	}
	fn short_code() -> Vec<u8> {
		vec![insn::nop, insn::nop, insn::r#return]
	}
	fn long_code() -> Vec<u8> {
		let mut v = vec![insn::nop; LONG_CODE_NOPS];
		v.push(insn::r#return);
		v
	}

	// ---- alphabets -------------------------------------------------------------------------

	fn vtypes(&self) -> Vec<VerificationTypeInfo> {
		use VerificationTypeInfo as V;
		vec![V::Top {}, V::Integer {}, V::Float {}, V::Long {}, V::Double {}, V::Null {}, V::UnintializedThis {}, V::Object { cpool_index: self.ix.cls_t }, V::Unintialized { offset: 0 }, V::Unintialized { offset: 5 }]
	}

	/// (reduced alphabet, full alphabet) of stack map frames
	fn frames(&self) -> (Vec<StackMapFrame>, Vec<StackMapFrame>) {
		use StackMapFrame as F;
		let vt = self.vtypes();
		let vt3 = vec![vt[1].clone(), vt[7].clone(), vt[8].clone()];
		let small = vec![
			F::SameFrame { offset_delta: 0 },
			F::SameFrame { offset_delta: 63 },
			F::SameLocals1StackItemFrame { offset_delta: 0, stack: vt[1].clone() },
			F::SameLocals1StackItemFrame { offset_delta: 63, stack: vt[7].clone() },
			F::SameLocals1StackItemFrameExtended { offset_delta: 64, stack: vt[8].clone() },
			F::SameLocals1StackItemFrameExtended { offset_delta: 300, stack: vt[3].clone() },
			F::ChopFrame { k: 1, offset_delta: 0 },
			F::ChopFrame { k: 2, offset_delta: 64 },
			F::ChopFrame { k: 3, offset_delta: 300 },
			F::SameFrameExtended { offset_delta: 0 },
			F::SameFrameExtended { offset_delta: 300 },
			F::AppendFrame { offset_delta: 0, locals: vec![vt[1].clone()] },
			F::AppendFrame { offset_delta: 64, locals: vec![vt[7].clone(), vt[4].clone()] },
			F::AppendFrame { offset_delta: 300, locals: vec![vt[8].clone(), vt[0].clone(), vt[7].clone()] },
			F::FullFrame { offset_delta: 0, locals: vec![], stack: vec![] },
			F::FullFrame { offset_delta: 1, locals: vec![vt[7].clone()], stack: vec![] },
			F::FullFrame { offset_delta: 64, locals: vec![], stack: vec![vt[8].clone()] },
			F::FullFrame { offset_delta: 300, locals: vec![vt[1].clone(), vt[7].clone()], stack: vec![vt[7].clone(), vt[3].clone()] },
		];
		let mut full = Vec::new();
		for v in &vt {
			for d in [0u8, 63] {
				full.push(F::SameLocals1StackItemFrame { offset_delta: d, stack: v.clone() });
			}
			for d in [0u16, 300] {
				full.push(F::SameLocals1StackItemFrameExtended { offset_delta: d, stack: v.clone() });
			}
			full.push(F::AppendFrame { offset_delta: 0, locals: vec![v.clone()] });
			full.push(F::AppendFrame { offset_delta: 300, locals: vec![v.clone()] });
			for v2 in &vt {
				full.push(F::AppendFrame { offset_delta: 1, locals: vec![v.clone(), v2.clone()] });
			}
		}
		for i in 0..vt.len() {
			full.push(F::AppendFrame { offset_delta: 2, locals: vec![vt[i].clone(), vt[(i + 1) % vt.len()].clone(), vt[(i + 2) % vt.len()].clone()] });
		}
		for k in 1..=3u8 {
			for d in [0u16, 63, 64, 300] {
				full.push(F::ChopFrame { k, offset_delta: d });
			}
		}
		for d in [0u16, 63, 64, 255, 256, 300] {
			full.push(F::SameFrameExtended { offset_delta: d });
		}
		for d in 0..=63u8 {
			full.push(F::SameFrame { offset_delta: d });
		}
		// every frame_type of same_locals_1_stack_item_frame (64..=127)
		for d in 1..=62u8 {
			full.push(F::SameLocals1StackItemFrame { offset_delta: d, stack: vt[(d % 10) as usize].clone() });
		}
		for locals in lists012(&vt3) {
			for stack in lists012(&vt3) {
				full.push(F::FullFrame { offset_delta: 0, locals: locals.clone(), stack });
			}
		}
		full.push(F::FullFrame { offset_delta: 300, locals: vt.clone(), stack: vt.iter().rev().cloned().collect() });
		full.extend(small.iter().cloned());
		(small, full)
	}

	/// element values: (small alphabet, all up to nesting depth 2)
	fn element_values(&self) -> (Vec<ElementValue>, Vec<ElementValue>) {
		use ElementValue as E;
		let ix = &self.ix;
		let mut base = vec![
			E::Byte { const_value_index: ix.int },
			E::Char { const_value_index: ix.int },
			E::Float { const_value_index: ix.float },
			E::Integer { const_value_index: ix.int },
			E::Short { const_value_index: ix.int },
			E::Boolean { const_value_index: ix.int },
			E::String { const_value_index: ix.u_text },
			E::Enum { type_name_index: ix.u_enum_type, const_name_index: ix.u_enum_const },
			E::Class { class_info_index: ix.u_class_desc },
		];
		if self.two_slot() {
			base.push(E::Double { const_value_index: ix.double });
			base.push(E::Long { const_value_index: ix.long });
		}
		let small = vec![base[3].clone(), base[6].clone(), base[7].clone()];
		let ann = |pairs: Vec<ElementValuePairsEntry>| Annotation { type_index: ix.u_ann2, element_value_pairs: pairs };
		let pair = |n: u16, v: &ElementValue| ElementValuePairsEntry { element_name_index: n, value: v.clone() };
		let mut all = base.clone();
		all.push(E::Annotation { annotation_value: ann(vec![]) });
		for b in &base {
			all.push(E::Annotation { annotation_value: ann(vec![pair(ix.u_v, b)]) });
		}
		for a in &small {
			for b in &small {
				all.push(E::Annotation { annotation_value: ann(vec![pair(ix.u_v, a), pair(ix.u_w, b)]) });
			}
		}
		all.push(E::Array { values: vec![] });
		for b in &base {
			all.push(E::Array { values: vec![b.clone()] });
		}
		for a in &small {
			for b in &small {
				all.push(E::Array { values: vec![a.clone(), b.clone()] });
			}
		}
		// depth 2
		let nested_arr = E::Array { values: vec![E::Array { values: vec![] }, E::Array { values: vec![small[0].clone()] }] };
		let nested_ann = E::Annotation { annotation_value: ann(vec![pair(ix.u_v, &E::Annotation { annotation_value: ann(vec![pair(ix.u_w, &small[1])]) })]) };
		all.push(nested_arr.clone());
		all.push(nested_ann.clone());
		all.push(E::Array { values: vec![nested_ann.clone(), nested_arr.clone()] });
		all.push(E::Annotation { annotation_value: ann(vec![pair(ix.u_v, &nested_arr)]) });
		(small, all)
	}

	/// annotations: (small alphabet, all)
	fn annotations(&self) -> (Vec<Annotation>, Vec<Annotation>) {
		let ix = &self.ix;
		let (small_ev, all_ev) = self.element_values();
		let mut all = vec![Annotation { type_index: ix.u_ann, element_value_pairs: vec![] }];
		for e in &all_ev {
			all.push(Annotation { type_index: ix.u_ann, element_value_pairs: vec![ElementValuePairsEntry { element_name_index: ix.u_v, value: e.clone() }] });
		}
		for a in &small_ev {
			for b in &small_ev {
				all.push(Annotation { type_index: ix.u_ann, element_value_pairs: vec![ElementValuePairsEntry { element_name_index: ix.u_v, value: a.clone() }, ElementValuePairsEntry { element_name_index: ix.u_w, value: b.clone() }] });
			}
		}
		let small = vec![all[0].clone(), all[4].clone(), all[all.len() - 1].clone()];
		(small, all)
	}

	// ---- per-kind enumerations -------------------------------------------------------------

	fn run(&mut self) {
		self.structure();
		self.pool_entries();
		self.simple_attributes();
		self.code();
		self.code_tables();
		self.stack_map_table();
		self.annotation_attributes();
		self.bootstrap_methods();
		self.module();
		self.record();
		self.other();
		self.attribute_pairs();
		self.attribute_placement();
		self.attribute_pairs_all_kinds();
		self.name_dispatch();
		self.table_sizes();
		self.attribute_names_text();
		self.flag_bits();
		self.element_value_nesting();
		self.byte_array_sizes();
		self.pool_index_positions();
		self.attribute_kinds_by_version();
	}

	fn structure(&mut self) {
		let ix = self.ix.clone();
		for v in [(45u16, 3u16), (52, 0), (61, 0), (61, 65535), (65, 0)] {
			let mut c = self.host();
			c.major_version = v.0;
			c.minor_version = v.1;
			self.push("ClassFile", c);
		}
		for flags in [0u16, 0x0001, 0x0411, 0x0601, 0x1000, 0x2601, 0x4031, 0xffff & 0x7631] {
			let mut c = self.host();
			c.access_flags = flags;
			self.push("ClassFile", c);
		}
		for l in lists012(&[ix.cls_a, ix.cls_b]) {
			let mut c = self.host();
			c.interfaces = l;
			self.push("ClassFile", c);
		}
		let mut c = self.host();
		c.super_class = 0;
		self.push("ClassFile", c);
		let cv = AttributeInfo::ConstantValue { attribute_name_index: ix.name("ConstantValue"), constantvalue_index: ix.int };
		let fields = [self.field(vec![]), FieldInfo { access_flags: 0x50DF & !0x0006, name_index: ix.u_w, descriptor_index: ix.u_int_desc, attributes: vec![cv] }];
		for l in lists012(&fields) {
			let mut c = self.host();
			c.fields = l;
			self.push("FieldInfo", c);
		}
		let methods = [self.abstract_method(vec![]), MethodInfo { access_flags: 0x0009, name_index: ix.u_v, descriptor_index: ix.u_void_desc, attributes: vec![self.code_attr(Self::short_code(), vec![], vec![])] }];
		for l in lists012(&methods) {
			let mut c = self.host();
			c.access_flags = 0x0421;
			c.methods = l;
			self.push("MethodInfo", c);
		}
	}

	/// every CpInfo variant as 0/1/2 additional (unused) entries at the end of the pool
	fn pool_entries(&mut self) {
		let ix = self.ix.clone();
		if self.variant == PoolVariant::TwoSlotFirst {
			return;
		}
		// the next free JVMS index
		let (_, _, next) = universe(self.variant);
		let mut kinds: Vec<(&'static str, Vec<CpInfo>)> = vec![
			("Class", vec![CpInfo::Class { name_index: ix.u_text }]),
			("Fieldref", vec![CpInfo::Fieldref { class_index: ix.cls_a, name_and_type_index: ix.nat_f }]),
			("Methodref", vec![CpInfo::Methodref { class_index: ix.cls_a, name_and_type_index: ix.nat_m }]),
			("InterfaceMethodref", vec![CpInfo::InterfaceMethodref { class_index: ix.cls_b, name_and_type_index: ix.nat_m }]),
			("String", vec![CpInfo::String { string_index: ix.u_f }]),
			("Integer", vec![CpInfo::Integer { bytes: 0 }, CpInfo::Integer { bytes: 0x8000_0000 }, CpInfo::Integer { bytes: 0xffff_ffff }]),
			("Float", vec![CpInfo::Float { bytes: 0 }, CpInfo::Float { bytes: 0x7fc0_0001 }]),
			("NameAndType", vec![CpInfo::NameAndType { name_index: ix.u_v, descriptor_index: ix.u_int_desc }]),
			("Utf8", vec![
				CpInfo::Utf8 { bytes: vec![] },
				CpInfo::Utf8 { bytes: vec![b'a'] },
				CpInfo::Utf8 { bytes: vec![b'a', b'b'] },
				CpInfo::Utf8 { bytes: vec![0xc0, 0x80] },
				CpInfo::Utf8 { bytes: vec![0xed, 0xa0, 0x80] },
				CpInfo::Utf8 { bytes: vec![b'x'; 255] },
				CpInfo::Utf8 { bytes: vec![b'x'; 256] },
				CpInfo::Utf8 { bytes: vec![b'x'; 65535] },
			]),
			("MethodHandle", (1..=9u8).map(|k| CpInfo::MethodHandle { reference_kind: k, reference_index: match k { 1..=4 => ix.fieldref, 9 => ix.imethodref, _ => ix.methodref } }).chain([CpInfo::MethodHandle { reference_kind: 6, reference_index: ix.imethodref }]).collect()),
			("MethodType", vec![CpInfo::MethodType { descriptor_index: ix.u_int_desc }]),
			("Module", vec![CpInfo::Module { name_index: ix.u_text }]),
			("Package", vec![CpInfo::Package { name_index: ix.u_text }]),
		];
		if self.two_slot() {
			kinds.push(("Long", vec![CpInfo::Long { high_bytes: 0, low_bytes: 0 }, CpInfo::Long { high_bytes: 0xffff_ffff, low_bytes: 0xffff_ffff }]));
			kinds.push(("Double", vec![CpInfo::Double { high_bytes: 0x7ff8_0000, low_bytes: 1 }]));
		}
		let singles: Vec<CpInfo> = kinds.iter().flat_map(|(_, v)| v.iter().cloned()).collect();
		let firsts: Vec<CpInfo> = kinds.iter().map(|(_, v)| v[0].clone()).collect();
		for e in &singles {
			let mut c = self.host();
			c.constant_pool.push(e.clone());
			self.push("CpInfo", c);
		}
		for a in &firsts {
			for b in &firsts {
				let mut c = self.host();
				c.constant_pool.push(a.clone());
				c.constant_pool.push(b.clone());
				self.push("CpInfo", c);
			}
		}
		// Dynamic / InvokeDynamic need a BootstrapMethods attribute to refer to
		let bsm = |n: usize| AttributeInfo::BootstrapMethods { attribute_name_index: ix.name("BootstrapMethods"), bootstrap_methods: (0..n).map(|_| BootstrapMethodsEntry { bootstrap_method_ref: ix.mh_method, boostrap_arguments: vec![] }).collect() };
		let dynamic = [CpInfo::Dynamic { bootstrap_method_attr_index: 0, name_and_type_index: ix.nat_f }, CpInfo::InvokeDynamic { bootstrap_method_attr_index: 0, name_and_type_index: ix.nat_m }, CpInfo::Dynamic { bootstrap_method_attr_index: 1, name_and_type_index: ix.nat_f }, CpInfo::InvokeDynamic { bootstrap_method_attr_index: 1, name_and_type_index: ix.nat_m }];
		for l in lists012(&dynamic).into_iter().skip(1) {
			let mut c = self.in_class(vec![bsm(2)]);
			c.constant_pool.extend(l);
			self.push("CpInfo", c);
		}
		// a Dynamic constant as a bootstrap argument of the *other* bootstrap method
		let mut c = self.host();
		c.constant_pool.push(CpInfo::Dynamic { bootstrap_method_attr_index: 0, name_and_type_index: ix.nat_f });
		c.attributes = vec![AttributeInfo::BootstrapMethods { attribute_name_index: ix.name("BootstrapMethods"), bootstrap_methods: vec![BootstrapMethodsEntry { bootstrap_method_ref: ix.mh_method, boostrap_arguments: vec![ix.int] }, BootstrapMethodsEntry { bootstrap_method_ref: ix.mh_field, boostrap_arguments: vec![next, ix.string] }] }];
		self.push("CpInfo", c);
	}

	fn simple_attributes(&mut self) {
		let ix = self.ix.clone();
		let mut consts = vec![ix.int, ix.float, ix.string];
		if self.two_slot() {
			consts.push(ix.long);
			consts.push(ix.double);
		}
		for c in consts {
			let v = self.in_field(vec![AttributeInfo::ConstantValue { attribute_name_index: ix.name("ConstantValue"), constantvalue_index: c }]);
			self.push("ConstantValue", v);
		}
		let two = [ix.cls_a, ix.cls_b];
		for l in lists012(&two) {
			let v = self.in_method(vec![AttributeInfo::Exceptions { attribute_name_index: ix.name("Exceptions"), exception_index_table: l.clone() }]);
			self.push("Exceptions", v);
			let v = self.in_class(vec![AttributeInfo::NestMembers { attribute_name_index: ix.name("NestMembers"), classes: l.clone() }]);
			self.push("NestMembers", v);
			let v = self.in_class(vec![AttributeInfo::PermittedSubclasses { attribute_name_index: ix.name("PermittedSubclasses"), classes: l.clone() }]);
			self.push("PermittedSubclasses", v);
		}
		let inner = [
			InnerClassesEntry { inner_class_info_index: ix.cls_a, outer_class_info_index: ix.this_class, inner_name_index: ix.u_inner_name, inner_class_access_flags: 0x0009 },
			InnerClassesEntry { inner_class_info_index: ix.cls_b, outer_class_info_index: 0, inner_name_index: 0, inner_class_access_flags: 0x761F },
		];
		for l in lists012(&inner) {
			let v = self.in_class(vec![AttributeInfo::InnerClasses { attribute_name_index: ix.name("InnerClasses"), classes: l }]);
			self.push("InnerClasses", v);
		}
		for m in [0, ix.nat_m] {
			let v = self.in_class(vec![AttributeInfo::EnclosingMethod { attribute_name_index: ix.name("EnclosingMethod"), class_index: ix.cls_t, method_index: m }]);
			self.push("EnclosingMethod", v);
		}
		for level in 0..3 {
			let s = AttributeInfo::Synthetic { attribute_name_index: ix.name("Synthetic") };
			let d = AttributeInfo::Deprecated { attribute_name_index: ix.name("Deprecated") };
			let g = AttributeInfo::Signature { attribute_name_index: ix.name("Signature"), signature_index: ix.u_sig };
			for (focus, a) in [("Synthetic", s), ("Deprecated", d), ("Signature", g)] {
				let v = match level {
					0 => self.in_class(vec![a]),
					1 => self.in_field(vec![a]),
					_ => self.in_method(vec![a]),
				};
				self.push(focus, v);
			}
		}
		let v = self.in_record(vec![AttributeInfo::Signature { attribute_name_index: ix.name("Signature"), signature_index: ix.u_sig }]);
		self.push("Signature", v);
		let v = self.in_class(vec![AttributeInfo::SourceFile { attribute_name_index: ix.name("SourceFile"), sourcefile_index: ix.u_source }]);
		self.push("SourceFile", v);
		for b in [vec![], vec![b'S'], vec![b'S', b'M'], vec![0xc0, 0x80], b"SMAP\nRaw.java\nJava\n*E\n".to_vec(), vec![b'x'; 255], vec![b'x'; 256], vec![b'x'; 70000]] {
			let v = self.in_class(vec![AttributeInfo::SourceDebugExtension { attribute_name_index: ix.name("SourceDebugExtension"), debug_extension: b }]);
			self.push("SourceDebugExtension", v);
		}
		let v = self.in_class(vec![AttributeInfo::NestHost { attribute_name_index: ix.name("NestHost"), host_class_index: ix.cls_t }]);
		self.push("NestHost", v);
		let params = [MethodParametersEntry { name_index: ix.u_v, access_flags: 0x0010 }, MethodParametersEntry { name_index: 0, access_flags: 0x9000 }];
		for l in lists012(&params) {
			let v = self.in_method(vec![AttributeInfo::MethodParameters { attribute_name_index: ix.name("MethodParameters"), parameters: l }]);
			self.push("MethodParameters", v);
		}
	}

	fn code(&mut self) {
		let ix = self.ix.clone();
		let lnt = AttributeInfo::LineNumberTable { attribute_name_index: ix.name("LineNumberTable"), line_number_table: vec![LineNumberTableEntry { start_pc: 0, line_number: 1 }] };
		let lvt = AttributeInfo::LocalVariableTable { attribute_name_index: ix.name("LocalVariableTable"), local_variable_table: vec![] };
		let other = AttributeInfo::Other { attribute_name_index: ix.name("x.Custom"), info: vec![9] };
		let attr_lists = lists012(&[lnt, lvt, other]);
		let handlers = [
			ExceptionTableEntry { start_pc: 0, end_pc: 1, handler_pc: 2, catch_type: 0 },
			ExceptionTableEntry { start_pc: 1, end_pc: 3, handler_pc: 0, catch_type: ix.cls_t },
		];
		let handler_lists = lists012(&handlers);
		for (max_stack, max_locals) in [(0u16, 0u16), (65535, 65535)] {
			for code in [vec![insn::r#return], vec![insn::nop, insn::r#return], Self::short_code(), Self::long_code()] {
				let n = code.len();
				for et in &handler_lists {
					if n < 3 && !et.is_empty() {
						continue;
					}
					for attrs in &attr_lists {
						let a = AttributeInfo::Code { attribute_name_index: ix.name("Code"), max_stack, max_locals, code: code.clone(), exception_table: et.clone(), attributes: attrs.clone() };
						let mut c = self.host();
						c.methods = vec![self.concrete_method(a)];
						self.push("Code", c);
					}
				}
			}
		}
		// a code array of the maximal length
		let mut big = vec![insn::nop; 65534];
		big.push(insn::r#return);
		let v = self.in_code(big, vec![]);
		self.push("Code", v);
	}

	fn code_tables(&mut self) {
		let ix = self.ix.clone();
		let lines = [LineNumberTableEntry { start_pc: 0, line_number: 1 }, LineNumberTableEntry { start_pc: 2, line_number: 65535 }];
		for l in lists012(&lines) {
			let v = self.in_code(Self::short_code(), vec![AttributeInfo::LineNumberTable { attribute_name_index: ix.name("LineNumberTable"), line_number_table: l }]);
			self.push("LineNumberTable", v);
		}
		let vars = [
			LocalVariableTableEntry { start_pc: 0, length: 3, name_index: ix.u_v, descriptor_index: ix.u_int_desc, index: 0 },
			LocalVariableTableEntry { start_pc: 1, length: 0, name_index: ix.u_w, descriptor_index: ix.u_class_desc, index: 65535 },
		];
		for l in lists012(&vars) {
			let v = self.in_code(Self::short_code(), vec![AttributeInfo::LocalVariableTable { attribute_name_index: ix.name("LocalVariableTable"), local_variable_table: l }]);
			self.push("LocalVariableTable", v);
		}
		let vars = [
			LocalVariableTypeTableEntry { start_pc: 0, length: 3, name_index: ix.u_v, signature_index: ix.u_sig, index: 0 },
			LocalVariableTypeTableEntry { start_pc: 2, length: 1, name_index: ix.u_w, signature_index: ix.u_sig, index: 256 },
		];
		for l in lists012(&vars) {
			let v = self.in_code(Self::short_code(), vec![AttributeInfo::LocalVariableTypeTable { attribute_name_index: ix.name("LocalVariableTypeTable"), local_variable_type_table: l }]);
			self.push("LocalVariableTypeTable", v);
		}
	}

	fn stack_map_table(&mut self) {
		let ix = self.ix.clone();
		let (small, full) = self.frames();
		let name = ix.name("StackMapTable");
		// (table, deep)
		let mut tables: Vec<(Vec<StackMapFrame>, bool)> = vec![(vec![], true)];
		for f in &full {
			tables.push((vec![f.clone()], true));
		}
		for a in &small {
			for b in &small {
				tables.push((vec![a.clone(), b.clone()], true));
			}
		}
		for a in &full {
			for b in &small {
				tables.push((vec![a.clone(), b.clone()], false));
				tables.push((vec![b.clone(), a.clone()], false));
			}
		}
		for (t, deep) in tables {
			let v = self.in_code(Self::long_code(), vec![AttributeInfo::StackMapTable { attribute_name_index: name, entries: t }]);
			self.push_as("StackMapTable", v, deep, false);
		}
		// frames at the largest offset a method can have, and the largest number of frames
		if self.variant == PoolVariant::Base {
			use StackMapFrame as F;
			let vt = self.vtypes();
			let mut big = vec![insn::nop; 65534];
			big.push(insn::r#return);
			let far: Vec<Vec<StackMapFrame>> = vec![
				vec![F::SameFrameExtended { offset_delta: 65534 }],
				vec![F::ChopFrame { k: 1, offset_delta: 65534 }],
				vec![F::SameLocals1StackItemFrameExtended { offset_delta: 65534, stack: vt[7].clone() }],
				vec![F::AppendFrame { offset_delta: 65534, locals: vec![vt[1].clone()] }],
				vec![F::FullFrame { offset_delta: 65534, locals: vec![vt[8].clone()], stack: vec![vt[4].clone()] }],
				vec![F::SameFrame { offset_delta: 63 }, F::SameFrameExtended { offset_delta: 65470 }],
				(0..65535).map(|_| F::SameFrame { offset_delta: 0 }).collect(),
			];
			for t in far {
				let v = self.in_code(big.clone(), vec![AttributeInfo::StackMapTable { attribute_name_index: name, entries: t }]);
				self.push("StackMapTable", v);
			}
		}
	}

	fn annotation_attributes(&mut self) {
		let ix = self.ix.clone();
		let (small, all) = self.annotations();
		let mut lists: Vec<Vec<Annotation>> = vec![vec![]];
		for a in &all {
			lists.push(vec![a.clone()]);
		}
		for a in &small {
			for b in &small {
				lists.push(vec![a.clone(), b.clone()]);
			}
		}
		for visible in [true, false] {
			for level in 0..4 {
				for l in &lists {
					let (focus, a) = if visible {
						("RuntimeVisibleAnnotations", AttributeInfo::RuntimeVisibleAnnotations { attribute_name_index: ix.name("RuntimeVisibleAnnotations"), annotations: l.clone() })
					} else {
						("RuntimeInvisibleAnnotations", AttributeInfo::RuntimeInvisibleAnnotations { attribute_name_index: ix.name("RuntimeInvisibleAnnotations"), annotations: l.clone() })
					};
					let v = match level {
						0 => self.in_class(vec![a]),
						1 => self.in_field(vec![a]),
						2 => self.in_method(vec![a]),
						_ => self.in_record(vec![a]),
					};
					self.push(focus, v);
				}
			}
			// parameter annotations: 0/1/2 parameters with 0/1/2 annotations each, and every annotation once
			let per_param: Vec<ParameterAnnotationEntry> = lists012(&small[..2]).into_iter().map(|annotations| ParameterAnnotationEntry { annotations }).collect();
			let mut plists = lists012(&per_param);
			for a in &all {
				plists.push(vec![ParameterAnnotationEntry { annotations: vec![a.clone()] }]);
			}
			plists.push((0..255).map(|_| ParameterAnnotationEntry { annotations: vec![] }).collect());
			for l in plists {
				let (focus, a) = if visible {
					("RuntimeVisibleParameterAnnotations", AttributeInfo::RuntimeVisibleParameterAnnotations { attribute_name_index: ix.name("RuntimeVisibleParameterAnnotations"), parameter_annotations: l })
				} else {
					("RuntimeInvisibleParameterAnnotations", AttributeInfo::RuntimeInvisibleParameterAnnotations { attribute_name_index: ix.name("RuntimeInvisibleParameterAnnotations"), parameter_annotations: l })
				};
				let v = self.in_method(vec![a]);
				self.push(focus, v);
			}
		}
		let (_, evs) = self.element_values();
		for e in evs {
			let v = self.in_method(vec![AttributeInfo::AnnotationDefault { attribute_name_index: ix.name("AnnotationDefault"), default_value: e }]);
			self.push("AnnotationDefault", v);
		}
	}

	fn bootstrap_methods(&mut self) {
		let ix = self.ix.clone();
		let mut loadable = vec![ix.int, ix.float, ix.string, ix.cls_t, ix.mtype, ix.mh_field];
		if self.two_slot() {
			loadable.push(ix.long);
			loadable.push(ix.double);
		}
		let entries: Vec<BootstrapMethodsEntry> = lists012(&loadable).into_iter().map(|args| BootstrapMethodsEntry { bootstrap_method_ref: ix.mh_method, boostrap_arguments: args }).collect();
		let small = vec![entries[0].clone(), entries[1].clone(), entries[entries.len() - 1].clone()];
		let mut tables: Vec<Vec<BootstrapMethodsEntry>> = vec![vec![]];
		for e in &entries {
			tables.push(vec![e.clone()]);
		}
		for a in &small {
			for b in &small {
				tables.push(vec![a.clone(), b.clone()]);
			}
		}
		for t in tables {
			let v = self.in_class(vec![AttributeInfo::BootstrapMethods { attribute_name_index: ix.name("BootstrapMethods"), bootstrap_methods: t }]);
			self.push("BootstrapMethods", v);
		}
	}

	fn module(&mut self) {
		let ix = self.ix.clone();
		let requires = lists012(&[
			ModuleRequiresEntry { requires_index: ix.module_a, requires_flags: 0x8000, requires_version_index: 0 },
			ModuleRequiresEntry { requires_index: ix.module_b, requires_flags: 0x0060, requires_version_index: ix.u_version },
		]);
		let exports = lists012(&[
			ModuleExportsEntry { exports_index: ix.package_a, exports_flags: 0, exports_to_index: vec![] },
			ModuleExportsEntry { exports_index: ix.package_b, exports_flags: 0x1000, exports_to_index: vec![ix.module_a] },
			ModuleExportsEntry { exports_index: ix.package_a, exports_flags: 0x8000, exports_to_index: vec![ix.module_a, ix.module_b] },
		]);
		let opens = lists012(&[
			ModuleOpensEntry { opens_index: ix.package_a, opens_flags: 0, opens_to_index: vec![] },
			ModuleOpensEntry { opens_index: ix.package_b, opens_flags: 0x1000, opens_to_index: vec![ix.module_b] },
			ModuleOpensEntry { opens_index: ix.package_b, opens_flags: 0x8000, opens_to_index: vec![ix.module_b, ix.module_a] },
		]);
		let uses = lists012(&[ix.cls_t, ix.cls_a]);
		let provides = lists012(&[
			ModuleProvidesEntry { provides_index: ix.cls_t, provides_with_index: vec![ix.cls_a] },
			ModuleProvidesEntry { provides_index: ix.cls_a, provides_with_index: vec![ix.cls_a, ix.cls_b] },
			ModuleProvidesEntry { provides_index: ix.cls_b, provides_with_index: vec![] },
		]);
		let name = ix.name("Module");
		let emit = |g: &mut Gen, flags: u16, version: u16, r: &Vec<ModuleRequiresEntry>, e: &Vec<ModuleExportsEntry>, o: &Vec<ModuleOpensEntry>, u: &Vec<u16>, p: &Vec<ModuleProvidesEntry>| {
			let mut c = g.module_host();
			c.attributes = vec![AttributeInfo::Module { attribute_name_index: name, module_name_index: ix.module_a, module_flags: flags, module_version_index: version, requires: r.clone(), exports: e.clone(), opens: o.clone(), uses_index: u.clone(), provides: p.clone() }];
			g.push("Module", c);
		};
		// every dimension fully, the others empty or with their first one-element list
		for base in [0usize, 1] {
			for (i, r) in requires.iter().enumerate() {
				emit(self, 0, 0, r, &exports[base], &opens[base], &uses[base], &provides[base]);
				if i == 0 {
					emit(self, 0x9020, ix.u_version, r, &exports[base], &opens[base], &uses[base], &provides[base]);
				}
			}
			for e in &exports {
				emit(self, 0, 0, &requires[base], e, &opens[base], &uses[base], &provides[base]);
			}
			for o in &opens {
				emit(self, 0x0020, 0, &requires[base], &exports[base], o, &uses[base], &provides[base]);
			}
			for u in &uses {
				emit(self, 0, ix.u_version, &requires[base], &exports[base], &opens[base], u, &provides[base]);
			}
			for p in &provides {
				emit(self, 0x1000, 0, &requires[base], &exports[base], &opens[base], &uses[base], p);
			}
		}
		// all size vectors {0,1,2}^5 with the last list of each size
		let pick = |n: usize, len: usize| -> usize {
			match n {
				0 => 0,
				1 => 1,
				_ => len - 1,
			}
		};
		for idx in 0..243usize {
			let d = [idx % 3, idx / 3 % 3, idx / 9 % 3, idx / 27 % 3, idx / 81 % 3];
			emit(self, 0, 0, &requires[pick(d[0], requires.len())], &exports[pick(d[1], exports.len())], &opens[pick(d[2], opens.len())], &uses[pick(d[3], uses.len())], &provides[pick(d[4], provides.len())]);
		}
		for l in lists012(&[ix.package_a, ix.package_b]) {
			let mut c = self.module_host();
			c.attributes = vec![AttributeInfo::ModulePackages { attribute_name_index: ix.name("ModulePackages"), package_index: l }];
			self.push("ModulePackages", c);
		}
		let mut c = self.module_host();
		c.attributes = vec![AttributeInfo::ModuleMainClass { attribute_name_index: ix.name("ModuleMainClass"), main_class_index: ix.cls_t }];
		self.push("ModuleMainClass", c);
	}

	fn record(&mut self) {
		let ix = self.ix.clone();
		let sig = AttributeInfo::Signature { attribute_name_index: ix.name("Signature"), signature_index: ix.u_sig };
		let (small, _) = self.annotations();
		let rva = AttributeInfo::RuntimeVisibleAnnotations { attribute_name_index: ix.name("RuntimeVisibleAnnotations"), annotations: vec![small[1].clone()] };
		let other = AttributeInfo::Other { attribute_name_index: ix.name("x.Custom"), info: vec![1, 2] };
		let comps: Vec<RecordComponentInfo> = [vec![], vec![sig.clone()], vec![sig, rva], vec![other]].into_iter().enumerate().map(|(i, attributes)| RecordComponentInfo { name_index: if i % 2 == 0 { ix.u_f } else { ix.u_w }, descriptor_index: ix.u_int_desc, attributes }).collect();
		for l in lists012(&comps) {
			let mut c = self.host();
			c.access_flags = 0x0031;
			c.attributes = vec![AttributeInfo::Record { attribute_name_index: ix.name("Record"), components: l }];
			self.push("Record", c);
		}
	}

	fn other(&mut self) {
		let ix = self.ix.clone();
		for info in [vec![], vec![1], vec![1, 2], vec![0xca, 0xfe, 0xba, 0xbe, 0, 0, 0, 0], vec![7; 255], vec![7; 256], vec![7; 70000]] {
			for level in 0..5 {
				let a = AttributeInfo::Other { attribute_name_index: ix.name("x.Custom"), info: info.clone() };
				let v = match level {
					0 => self.in_class(vec![a]),
					1 => self.in_field(vec![a]),
					2 => self.in_method(vec![a]),
					3 => self.in_code(Self::short_code(), vec![a]),
					_ => self.in_record(vec![a]),
				};
				self.push("Other", v);
			}
		}
		// the type annotation attributes are not modelled by the crate: they are `Other` with a well-formed body
		let ann = [(ix.u_ann >> 8) as u8, ix.u_ann as u8, 0, 0];
		for visible in [true, false] {
			let name = ix.name(if visible { "RuntimeVisibleTypeAnnotations" } else { "RuntimeInvisibleTypeAnnotations" });
			let mk = |body: Vec<u8>| AttributeInfo::Other { attribute_name_index: name, info: body };
			let one = |target: &[u8]| -> Vec<u8> {
				let mut b = vec![0, 1];
				b.extend_from_slice(target);
				b.push(0); // empty type path
				b.extend_from_slice(&ann);
				b
			};
			let v = self.in_class(vec![mk(vec![0, 0])]);
			self.push("Other", v);
			let v = self.in_class(vec![mk(one(&[0x10, 0xff, 0xff]))]);
			self.push("Other", v);
			let v = self.in_field(vec![mk(one(&[0x13]))]);
			self.push("Other", v);
			let v = self.in_method(vec![mk(one(&[0x16, 0]))]);
			self.push("Other", v);
			let v = self.in_code(Self::short_code(), vec![mk(one(&[0x43, 0, 1]))]);
			self.push("Other", v);
			let v = self.in_record(vec![mk(one(&[0x13]))]);
			self.push("Other", v);
		}
	}

	/// two attributes of different kinds next to each other in one container
	fn attribute_pairs(&mut self) {
		let ix = self.ix.clone();
		let class_level = vec![
			AttributeInfo::SourceFile { attribute_name_index: ix.name("SourceFile"), sourcefile_index: ix.u_source },
			AttributeInfo::Signature { attribute_name_index: ix.name("Signature"), signature_index: ix.u_sig },
			AttributeInfo::Deprecated { attribute_name_index: ix.name("Deprecated") },
			AttributeInfo::Synthetic { attribute_name_index: ix.name("Synthetic") },
			AttributeInfo::NestMembers { attribute_name_index: ix.name("NestMembers"), classes: vec![ix.cls_a] },
			AttributeInfo::PermittedSubclasses { attribute_name_index: ix.name("PermittedSubclasses"), classes: vec![ix.cls_b] },
			AttributeInfo::InnerClasses { attribute_name_index: ix.name("InnerClasses"), classes: vec![InnerClassesEntry { inner_class_info_index: ix.cls_a, outer_class_info_index: ix.this_class, inner_name_index: ix.u_inner_name, inner_class_access_flags: 8 }] },
			AttributeInfo::EnclosingMethod { attribute_name_index: ix.name("EnclosingMethod"), class_index: ix.cls_t, method_index: 0 },
			AttributeInfo::SourceDebugExtension { attribute_name_index: ix.name("SourceDebugExtension"), debug_extension: b"dbg".to_vec() },
			AttributeInfo::Other { attribute_name_index: ix.name("x.Custom"), info: vec![5] },
		];
		for (i, a) in class_level.iter().enumerate() {
			for (j, b) in class_level.iter().enumerate() {
				if i != j {
					let v = self.in_class(vec![a.clone(), b.clone()]);
					self.push("attribute-pairs", v);
				}
			}
		}
		let method_level = vec![
			AttributeInfo::Exceptions { attribute_name_index: ix.name("Exceptions"), exception_index_table: vec![ix.cls_t] },
			AttributeInfo::MethodParameters { attribute_name_index: ix.name("MethodParameters"), parameters: vec![MethodParametersEntry { name_index: ix.u_v, access_flags: 0 }] },
			AttributeInfo::Signature { attribute_name_index: ix.name("Signature"), signature_index: ix.u_sig },
			AttributeInfo::AnnotationDefault { attribute_name_index: ix.name("AnnotationDefault"), default_value: ElementValue::Integer { const_value_index: ix.int } },
			AttributeInfo::RuntimeVisibleParameterAnnotations { attribute_name_index: ix.name("RuntimeVisibleParameterAnnotations"), parameter_annotations: vec![ParameterAnnotationEntry { annotations: vec![] }] },
			AttributeInfo::Deprecated { attribute_name_index: ix.name("Deprecated") },
		];
		for (i, a) in method_level.iter().enumerate() {
			for (j, b) in method_level.iter().enumerate() {
				if i != j {
					let v = self.in_method(vec![a.clone(), b.clone()]);
					self.push("attribute-pairs", v);
				}
			}
		}
	}
}


// ---- one instance of every attribute kind, and the families built from them ------------------

/// the names of the 28 attribute kinds the crate models (everything else is `Other`)
pub const MODELLED_NAMES: &[&str] = &[
	"ConstantValue", "Code", "StackMapTable", "Exceptions", "InnerClasses", "EnclosingMethod", "Synthetic", "Signature",
	"SourceFile", "SourceDebugExtension", "LineNumberTable", "LocalVariableTable", "LocalVariableTypeTable", "Deprecated",
	"RuntimeVisibleAnnotations", "RuntimeInvisibleAnnotations", "RuntimeVisibleParameterAnnotations",
	"RuntimeInvisibleParameterAnnotations", "AnnotationDefault", "BootstrapMethods", "MethodParameters", "Module",
	"ModulePackages", "ModuleMainClass", "NestHost", "NestMembers", "Record", "PermittedSubclasses",
];

impl Gen {
	/// one instance of every attribute kind (29: the 28 modelled ones and `Other`), every table of it with one
	/// element, with the name of its kind and the place the JVMS gives it
	fn samples(&self) -> Vec<(&'static str, Level, AttributeInfo)> {
		use AttributeInfo as A;
		let ix = &self.ix;
		let n = |s: &str| ix.name(s);
		let arr = ElementValue::Array { values: vec![ElementValue::Integer { const_value_index: ix.int }] };
		let ann = Annotation { type_index: ix.u_ann, element_value_pairs: vec![ElementValuePairsEntry { element_name_index: ix.u_v, value: arr.clone() }] };
		let lnt = A::LineNumberTable { attribute_name_index: n("LineNumberTable"), line_number_table: vec![LineNumberTableEntry { start_pc: 0, line_number: 7 }] };
		vec![
			("ConstantValue", Level::Field, A::ConstantValue { attribute_name_index: n("ConstantValue"), constantvalue_index: ix.int }),
			("Code", Level::Method, A::Code {
				attribute_name_index: n("Code"), max_stack: 1, max_locals: 2, code: Self::short_code(),
				exception_table: vec![ExceptionTableEntry { start_pc: 0, end_pc: 1, handler_pc: 2, catch_type: ix.cls_t }], attributes: vec![lnt.clone()],
			}),
			("StackMapTable", Level::Code, A::StackMapTable {
				attribute_name_index: n("StackMapTable"),
				entries: vec![StackMapFrame::FullFrame { offset_delta: 1, locals: vec![VerificationTypeInfo::Integer {}], stack: vec![VerificationTypeInfo::Object { cpool_index: ix.cls_t }] }],
			}),
			("Exceptions", Level::Method, A::Exceptions { attribute_name_index: n("Exceptions"), exception_index_table: vec![ix.cls_t] }),
			("InnerClasses", Level::Class, A::InnerClasses {
				attribute_name_index: n("InnerClasses"),
				classes: vec![InnerClassesEntry { inner_class_info_index: ix.cls_a, outer_class_info_index: ix.this_class, inner_name_index: ix.u_inner_name, inner_class_access_flags: 0x0009 }],
			}),
			("EnclosingMethod", Level::Class, A::EnclosingMethod { attribute_name_index: n("EnclosingMethod"), class_index: ix.cls_t, method_index: ix.nat_m }),
			("Synthetic", Level::Class, A::Synthetic { attribute_name_index: n("Synthetic") }),
			("Signature", Level::Class, A::Signature { attribute_name_index: n("Signature"), signature_index: ix.u_sig }),
			("SourceFile", Level::Class, A::SourceFile { attribute_name_index: n("SourceFile"), sourcefile_index: ix.u_source }),
			("SourceDebugExtension", Level::Class, A::SourceDebugExtension { attribute_name_index: n("SourceDebugExtension"), debug_extension: b"SMAP".to_vec() }),
			("LineNumberTable", Level::Code, lnt),
			("LocalVariableTable", Level::Code, A::LocalVariableTable {
				attribute_name_index: n("LocalVariableTable"),
				local_variable_table: vec![LocalVariableTableEntry { start_pc: 0, length: 3, name_index: ix.u_v, descriptor_index: ix.u_int_desc, index: 1 }],
			}),
			("LocalVariableTypeTable", Level::Code, A::LocalVariableTypeTable {
				attribute_name_index: n("LocalVariableTypeTable"),
				local_variable_type_table: vec![LocalVariableTypeTableEntry { start_pc: 0, length: 3, name_index: ix.u_v, signature_index: ix.u_sig, index: 1 }],
			}),
			("Deprecated", Level::Class, A::Deprecated { attribute_name_index: n("Deprecated") }),
			("RuntimeVisibleAnnotations", Level::Class, A::RuntimeVisibleAnnotations { attribute_name_index: n("RuntimeVisibleAnnotations"), annotations: vec![ann.clone()] }),
			("RuntimeInvisibleAnnotations", Level::Field, A::RuntimeInvisibleAnnotations { attribute_name_index: n("RuntimeInvisibleAnnotations"), annotations: vec![ann.clone()] }),
			("RuntimeVisibleParameterAnnotations", Level::Method, A::RuntimeVisibleParameterAnnotations {
				attribute_name_index: n("RuntimeVisibleParameterAnnotations"), parameter_annotations: vec![ParameterAnnotationEntry { annotations: vec![ann.clone()] }],
			}),
			("RuntimeInvisibleParameterAnnotations", Level::Method, A::RuntimeInvisibleParameterAnnotations {
				attribute_name_index: n("RuntimeInvisibleParameterAnnotations"), parameter_annotations: vec![ParameterAnnotationEntry { annotations: vec![ann.clone()] }],
			}),
			("AnnotationDefault", Level::Method, A::AnnotationDefault {
				attribute_name_index: n("AnnotationDefault"),
				default_value: ElementValue::Array { values: vec![ElementValue::Annotation { annotation_value: ann.clone() }] },
			}),
			("BootstrapMethods", Level::Class, A::BootstrapMethods {
				attribute_name_index: n("BootstrapMethods"), bootstrap_methods: vec![BootstrapMethodsEntry { bootstrap_method_ref: ix.mh_method, boostrap_arguments: vec![ix.string] }],
			}),
			("MethodParameters", Level::Method, A::MethodParameters { attribute_name_index: n("MethodParameters"), parameters: vec![MethodParametersEntry { name_index: ix.u_v, access_flags: 0x0010 }] }),
			("Module", Level::ModuleClass, A::Module {
				attribute_name_index: n("Module"), module_name_index: ix.module_a, module_flags: 0x0020, module_version_index: ix.u_version,
				requires: vec![ModuleRequiresEntry { requires_index: ix.module_b, requires_flags: 0x0020, requires_version_index: 0 }],
				exports: vec![ModuleExportsEntry { exports_index: ix.package_a, exports_flags: 0, exports_to_index: vec![ix.module_b] }],
				opens: vec![ModuleOpensEntry { opens_index: ix.package_b, opens_flags: 0x1000, opens_to_index: vec![ix.module_b] }],
				uses_index: vec![ix.cls_t],
				provides: vec![ModuleProvidesEntry { provides_index: ix.cls_t, provides_with_index: vec![ix.cls_a] }],
			}),
			("ModulePackages", Level::ModuleClass, A::ModulePackages { attribute_name_index: n("ModulePackages"), package_index: vec![ix.package_a] }),
			("ModuleMainClass", Level::ModuleClass, A::ModuleMainClass { attribute_name_index: n("ModuleMainClass"), main_class_index: ix.cls_t }),
			("NestHost", Level::Class, A::NestHost { attribute_name_index: n("NestHost"), host_class_index: ix.cls_t }),
			("NestMembers", Level::Class, A::NestMembers { attribute_name_index: n("NestMembers"), classes: vec![ix.cls_a] }),
			("Record", Level::Class, A::Record {
				attribute_name_index: n("Record"),
				components: vec![RecordComponentInfo { name_index: ix.u_f, descriptor_index: ix.u_int_desc, attributes: vec![A::Signature { attribute_name_index: n("Signature"), signature_index: ix.u_sig }] }],
			}),
			("PermittedSubclasses", Level::Class, A::PermittedSubclasses { attribute_name_index: n("PermittedSubclasses"), classes: vec![ix.cls_b] }),
			("Other", Level::Class, A::Other { attribute_name_index: n("x.Custom"), info: vec![0xca, 0xfe] }),
		]
	}

	/// every attribute kind in every container: the crate recognises an attribute by its name alone, wherever it is
	/// (the JVMS lets a reader ignore an attribute in a foreign place; it is still a well-formed class file)
	fn attribute_placement(&mut self) {
		for (_, _, a) in self.samples() {
			for level in LEVELS {
				let v = self.place(level, vec![a.clone()]);
				self.push_optional("attribute-placement", v);
			}
		}
	}

	/// every ordered pair of different attribute kinds next to each other, in the container of the first
	fn attribute_pairs_all_kinds(&mut self) {
		let s = self.samples();
		for (i, (_, level, a)) in s.iter().enumerate() {
			for (j, (_, _, b)) in s.iter().enumerate() {
				if i != j {
					let v = self.place(*level, vec![a.clone(), b.clone()]);
					self.push_optional("attribute-pairs-all-kinds", v);
				}
			}
		}
	}

	/// the dispatch on the pool's UTF-8 name: names that nearly are the name of a modelled attribute, the name
	/// at the first and at the last index of the pool, and the same name twice in the pool
	fn name_dispatch(&mut self) {
		use AttributeInfo as A;
		let samples = self.samples();
		// (1) near misses: an unknown attribute whose name differs from a modelled name by one character, by case,
		//     or is a prefix of it - once with the body of an instance of that kind (a sloppy comparison reads it as
		//     that kind), once with a one-byte body that fits no kind
		for (kind, level, a) in &samples {
			if *kind == "Other" {
				continue;
			}
			let body = super::refenc::attribute_body(a);
			let mut near: Vec<String> = vec![format!("{kind}x"), kind[..kind.len() - 1].to_owned(), kind.to_lowercase(), kind.to_uppercase(), format!("x{kind}"), format!("{kind}\u{1}")];
			near.retain(|n| !ATTRIBUTE_NAMES.contains(&n.as_str()));
			for (k, name) in near.iter().enumerate() {
				for (b, info) in [body.clone(), vec![9u8]].into_iter().enumerate() {
					let mut c = self.place(*level, vec![A::Other { attribute_name_index: self.next, info }]);
					c.constant_pool.push(CpInfo::Utf8 { bytes: name.as_bytes().to_vec() });
					if (k + b) % 2 == 1 {
						// not always the last entry of the pool
						c.constant_pool.push(CpInfo::Utf8 { bytes: b"pad".to_vec() });
					}
					self.push("attribute-name-near-miss", c);
				}
			}
		}
		// the empty name, and an unknown attribute named like an entry that is there for another purpose (index 1 in the base pool)
		let mut c = self.in_class(vec![A::Other { attribute_name_index: self.next, info: vec![1, 2, 3] }]);
		c.constant_pool.push(CpInfo::Utf8 { bytes: vec![] });
		self.push("attribute-name-near-miss", c);
		for idx in [self.ix.u_f, self.ix.u_source, self.ix.u_void_desc] {
			let c = self.in_class(vec![A::Other { attribute_name_index: idx, info: vec![4] }]);
			self.push("attribute-name-near-miss", c);
		}
		if self.variant != PoolVariant::Base {
			return;
		}
		// (2) the name of every kind once as pool entry #1 and once as the last pool entry
		for first in [true, false] {
			for (pos, name) in ATTRIBUTE_NAMES.iter().enumerate() {
				let kind = if *name == "x.Custom" { "Other" } else { name };
				let rotate = if first { pos } else { (pos + 1) % ATTRIBUTE_NAMES.len() };
				let g = self.with_pool(universe_ordered(self.variant, first, rotate));
				let want = if first { 1 } else { g.next - 1 };
				assert_eq!(g.ix.name(name), want, "generator: the attribute name is not where it was meant to be");
				match g.samples().into_iter().find(|(k, _, _)| k == &kind) {
					Some((_, level, a)) => {
						let v = g.place(level, vec![a]);
						self.push("attribute-name-position", v);
					},
					None => {
						// the two type annotation names: not modelled, an opaque attribute with a well-formed body
						let v = g.in_class(vec![A::Other { attribute_name_index: want, info: vec![0, 0] }]);
						self.push("attribute-name-position", v);
					},
				}
			}
		}
		// (3) the name twice in the pool: two attributes of the kind, each named through another entry
		for (kind, _, _) in &samples {
			let name = if *kind == "Other" { "x.Custom" } else { kind };
			let mut ix2 = self.ix.clone();
			for e in ix2.names.iter_mut() {
				if e.0 == name {
					e.1 = self.next;
				}
			}
			let mut pool2 = self.pool.clone();
			pool2.push(CpInfo::Utf8 { bytes: name.as_bytes().to_vec() });
			let g2 = self.with_pool((pool2.clone(), ix2, self.next + 1));
			let a1 = samples.iter().find(|(k, _, _)| k == kind).map(|(_, _, a)| a.clone()).unwrap();
			let a2 = g2.samples().into_iter().find(|(k, _, _)| k == kind).map(|(_, _, a)| a).unwrap();
			for (x, y) in [(&a1, &a2), (&a2, &a1)] {
				// in two fields
				let mut c = g2.host();
				c.fields = vec![g2.field(vec![x.clone()]), FieldInfo { access_flags: 0x0002, name_index: g2.ix.u_w, descriptor_index: g2.ix.u_int_desc, attributes: vec![y.clone()] }];
				self.push_optional("attribute-name-twice-in-pool", c);
				// in the class and in a method
				let mut c = g2.in_method(vec![y.clone()]);
				c.attributes = vec![x.clone()];
				self.push_optional("attribute-name-twice-in-pool", c);
			}
		}
	}

	/// every table of every attribute kind (and of the class itself) with 3, 255, 256 and 65535 elements
	/// (as far as the width of its count allows), and the largest constant pool
	fn table_sizes(&mut self) {
		use super::edits::{self, Op};
		if self.variant != PoolVariant::Base {
			return;
		}
		let other = AttributeInfo::Other { attribute_name_index: self.ix.name("x.Custom"), info: vec![1] };
		let mut host = self.host();
		host.access_flags = 0x0421;
		host.interfaces = vec![self.ix.cls_a];
		host.fields = vec![self.field(vec![other.clone()])];
		host.methods = vec![self.abstract_method(vec![other.clone()])];
		host.attributes = vec![other];
		let mut bases: Vec<(ClassFile, bool)> = vec![(host, true)];
		for (_, level, a) in self.samples() {
			bases.push((self.place(level, vec![a]), false));
		}
		for (mut base, is_host) in bases {
			let tabs = edits::tables(&mut base);
			for (t, (info, _)) in tabs.iter().enumerate() {
				let of_host = info.what.starts_with("ClassFile.") || info.what.starts_with("FieldInfo.") || info.what.starts_with("MethodInfo.");
				if of_host != is_host {
					continue;
				}
				for size in [3usize, 255, 256, 65535] {
					let mut v = base.clone();
					if edits::apply(&mut v, t, Op::Resize(size)).is_some() {
						self.push_optional("table-sizes", v);
					}
				}
			}
		}
		// the largest constant pool: constant_pool_count = 65535
		let mut c = self.host();
		let have = c.constant_pool.len();
		c.constant_pool.extend((have..65534).map(|i| CpInfo::Integer { bytes: i as u32 }));
		self.push("table-sizes", c);
	}
}

// ---- second extension pass: text that is not ASCII, reserved bits, nesting depth, sizes at powers of two, high indices ----

/// `n` bytes that repeat with period 251 (a prime: no power-of-two block of them equals its neighbour)
pub fn pattern_bytes(n: usize) -> Vec<u8> {
	(0..n).map(|i| (i % 251) as u8).collect()
}

/// the prefix lengths of the text sweeps: short ones and one below / at / above the lengths messages are usually cut at
pub const TEXT_PREFIX_LENGTHS: &[usize] = &[0, 1, 2, 3, 7, 8, 15, 16, 31, 32, 59, 60, 61, 79, 80, 81, 99, 100, 101, 119, 120, 121, 139, 140];

/// one character of 1, 2 and 3 bytes, a supplementary character (two 3-byte surrogates in modified UTF-8), the encoded
/// NUL and a lone surrogate (all legal in a CONSTANT_Utf8, JVMS 4.4.7; the last three are not standard UTF-8)
pub const TEXT_TAILS: &[(&str, &[u8])] = &[
	("1-byte", b"z"),
	("2-byte", &[0xc3, 0xa9]),
	("3-byte", &[0xe2, 0x82, 0xac]),
	("surrogate-pair", &[0xed, 0xa0, 0xbd, 0xed, 0xb8, 0x80]),
	("encoded-nul", &[0xc0, 0x80]),
	("lone-surrogate", &[0xed, 0xa0, 0x80]),
];

impl Gen {
	/// The dispatch on the attribute's name reads the name as bytes. Names that are not ASCII: `k` ASCII characters and one
	/// character of every encoded width at the end, at the start, and around the name of a modelled attribute; in every
	/// container; the name as the last pool entry and followed by another entry.
	fn attribute_names_text(&mut self) {
		use AttributeInfo as A;
		let mut names: Vec<Vec<u8>> = Vec::new();
		for k in TEXT_PREFIX_LENGTHS {
			for (_, tail) in TEXT_TAILS {
				let mut n = vec![b'n'; *k];
				n.extend_from_slice(tail);
				names.push(n);
				if *k > 0 && *k <= 3 {
					let mut n = tail.to_vec();
					n.extend(std::iter::repeat(b'n').take(*k));
					names.push(n);
				}
			}
		}
		for modelled in ["Code", "SourceFile", "Module", "RuntimeVisibleAnnotations"] {
			for (_, tail) in &TEXT_TAILS[1..] {
				let mut n = modelled.as_bytes().to_vec();
				n.extend_from_slice(tail);
				names.push(n);
				let mut n = tail.to_vec();
				n.extend_from_slice(modelled.as_bytes());
				names.push(n);
				// the character in the middle of the name
				let mut n = modelled.as_bytes()[..2].to_vec();
				n.extend_from_slice(tail);
				n.extend_from_slice(&modelled.as_bytes()[2..]);
				names.push(n);
			}
		}
		for (i, name) in names.iter().enumerate() {
			let level = LEVELS[i % 5]; // not the module class
			let mut c = self.place(level, vec![A::Other { attribute_name_index: self.next, info: vec![1, 2, 3] }]);
			c.constant_pool.push(CpInfo::Utf8 { bytes: name.clone() });
			if i % 2 == 1 {
				c.constant_pool.push(CpInfo::Utf8 { bytes: b"pad".to_vec() });
			}
			self.push_optional("attribute-name-text", c);
		}
		// the same texts where the crate does not look at them: what SourceFile, Signature and a field name point at
		for (i, name) in names.iter().enumerate().filter(|(i, _)| i % 5 == 0) {
			let mut c = match i % 3 {
				0 => self.in_class(vec![A::SourceFile { attribute_name_index: self.ix.name("SourceFile"), sourcefile_index: self.next }]),
				1 => self.in_class(vec![A::SourceDebugExtension { attribute_name_index: self.ix.name("SourceDebugExtension"), debug_extension: name.clone() }]),
				_ => {
					let mut c = self.host();
					c.fields = vec![FieldInfo { access_flags: 0x0002, name_index: self.next, descriptor_index: self.ix.u_int_desc, attributes: vec![] }];
					c
				},
			};
			c.constant_pool.push(CpInfo::Utf8 { bytes: name.clone() });
			self.push_optional("attribute-name-text", c);
		}
	}

	/// every flags field of the format with each single bit and with all bits: bits the JVMS does not assign are part of
	/// the value like any other (a reader may ignore them; this crate is a representation, it has to keep them)
	fn flag_bits(&mut self) {
		use AttributeInfo as A;
		let ix = self.ix.clone();
		let mut patterns: Vec<u16> = (0..16).map(|b| 1u16 << b).collect();
		patterns.extend([0, 0xffff, 0x7fff, 0x8001]);
		for f in patterns {
			let mut c = self.host();
			c.access_flags = f;
			self.push_optional("flag-bits", c);
			let mut c = self.host();
			c.fields = vec![FieldInfo { access_flags: f, name_index: ix.u_f, descriptor_index: ix.u_int_desc, attributes: vec![] }];
			self.push_optional("flag-bits", c);
			let mut c = self.host();
			c.access_flags = 0x0421;
			c.methods = vec![MethodInfo { access_flags: f, name_index: ix.u_m, descriptor_index: ix.u_void_desc, attributes: vec![] }];
			self.push_optional("flag-bits", c);
			// the same with a body (a method without ACC_ABSTRACT / ACC_NATIVE has one)
			let mut c = self.host();
			c.methods = vec![MethodInfo { access_flags: f, name_index: ix.u_m, descriptor_index: ix.u_void_desc, attributes: vec![self.code_attr(Self::short_code(), vec![], vec![])] }];
			self.push_optional("flag-bits", c);
			let c = self.in_class(vec![A::InnerClasses {
				attribute_name_index: ix.name("InnerClasses"),
				classes: vec![InnerClassesEntry { inner_class_info_index: ix.cls_a, outer_class_info_index: ix.this_class, inner_name_index: ix.u_inner_name, inner_class_access_flags: f }],
			}]);
			self.push_optional("flag-bits", c);
			let c = self.in_method(vec![A::MethodParameters { attribute_name_index: ix.name("MethodParameters"), parameters: vec![MethodParametersEntry { name_index: ix.u_v, access_flags: f }] }]);
			self.push_optional("flag-bits", c);
			for which in 0..4 {
				let mut c = self.module_host();
				c.attributes = vec![A::Module {
					attribute_name_index: ix.name("Module"), module_name_index: ix.module_a, module_flags: if which == 0 { f } else { 0 }, module_version_index: 0,
					requires: vec![ModuleRequiresEntry { requires_index: ix.module_b, requires_flags: if which == 1 { f } else { 0 }, requires_version_index: 0 }],
					exports: vec![ModuleExportsEntry { exports_index: ix.package_a, exports_flags: if which == 2 { f } else { 0 }, exports_to_index: vec![] }],
					opens: vec![ModuleOpensEntry { opens_index: ix.package_b, opens_flags: if which == 3 { f } else { 0 }, opens_to_index: vec![] }],
					uses_index: vec![], provides: vec![],
				}];
				self.push_optional("flag-bits", c);
			}
		}
	}

	/// element values nested 1..=62 deep (the strict parser follows 64 levels): arrays in arrays, annotations in annotations,
	/// and the two alternating (either one outermost), in every attribute that holds element values
	fn element_value_nesting(&mut self) {
		use AttributeInfo as A;
		use ElementValue as E;
		let ix = self.ix.clone();
		let leaf = E::Integer { const_value_index: ix.int };
		let arr = |inner: E| E::Array { values: vec![inner] };
		let ann = |inner: E| E::Annotation { annotation_value: Annotation { type_index: ix.u_ann2, element_value_pairs: vec![ElementValuePairsEntry { element_name_index: ix.u_v, value: inner }] } };
		for depth in 1..=62usize {
			for shape in 0..4 {
				let mut e = leaf.clone();
				for level in 0..depth {
					let array = match shape {
						0 => true,
						1 => false,
						2 => level % 2 == 0,
						_ => level % 2 == 1,
					};
					e = if array { arr(e) } else { ann(e) };
				}
				let annotation = Annotation { type_index: ix.u_ann, element_value_pairs: vec![ElementValuePairsEntry { element_name_index: ix.u_w, value: e.clone() }] };
				let v = match (depth + shape) % 4 {
					0 => self.in_method(vec![A::AnnotationDefault { attribute_name_index: ix.name("AnnotationDefault"), default_value: e }]),
					1 => self.in_class(vec![A::RuntimeVisibleAnnotations { attribute_name_index: ix.name("RuntimeVisibleAnnotations"), annotations: vec![annotation] }]),
					2 => self.in_field(vec![A::RuntimeInvisibleAnnotations { attribute_name_index: ix.name("RuntimeInvisibleAnnotations"), annotations: vec![annotation] }]),
					_ => self.in_method(vec![A::RuntimeVisibleParameterAnnotations {
						attribute_name_index: ix.name("RuntimeVisibleParameterAnnotations"),
						parameter_annotations: vec![ParameterAnnotationEntry { annotations: vec![] }, ParameterAnnotationEntry { annotations: vec![annotation] }],
					}]),
				};
				self.push_optional("element-value-nesting", v);
			}
		}
	}

	/// every kind of byte array with one byte less than, exactly and one byte more than 4, 8, 16, 32 and 64 KiB (as far as
	/// its count allows): the sizes of the buffers such arrays travel through. The content has period 251, so that a block
	/// that lands in another block's place shows.
	fn byte_array_sizes(&mut self) {
		use AttributeInfo as A;
		if self.variant != PoolVariant::Base {
			return;
		}
		let ix = self.ix.clone();
		for kib in [4usize, 8, 16, 32, 64] {
			for size in [kib * 1024 - 1, kib * 1024, kib * 1024 + 1] {
				let v = self.in_class(vec![A::Other { attribute_name_index: ix.name("x.Custom"), info: pattern_bytes(size) }]);
				self.push("byte-array-sizes", v);
				// not the last thing in the file
				let v = self.in_field(vec![A::Other { attribute_name_index: ix.name("x.Custom"), info: pattern_bytes(size) }, A::Deprecated { attribute_name_index: ix.name("Deprecated") }]);
				self.push("byte-array-sizes", v);
				let v = self.in_class(vec![A::SourceDebugExtension { attribute_name_index: ix.name("SourceDebugExtension"), debug_extension: (0..size).map(|i| b' ' + (i % 89) as u8).collect() }]);
				self.push("byte-array-sizes", v);
				if size <= 65535 {
					let mut c = self.host();
					c.constant_pool.push(CpInfo::Utf8 { bytes: (0..size).map(|i| b'a' + (i % 23) as u8).collect() });
					self.push("byte-array-sizes", c);
					// one-byte instructions without operands, period 7
					let cycle = [insn::nop, insn::iconst_0, insn::pop, insn::nop, insn::nop, insn::iconst_1, insn::pop];
					let mut code: Vec<u8> = (0..size - 1).map(|i| cycle[i % 7]).collect();
					code.push(insn::r#return);
					let v = self.in_code(code, vec![]);
					self.push("byte-array-sizes", v);
				}
			}
		}
	}

	/// an attribute named (and pointing) through pool indices that do not fit one byte / are negative as a 16-bit signed
	/// number / are the last of the largest pool: the pool is filled up with unused Integer entries
	fn pool_index_positions(&mut self) {
		use AttributeInfo as A;
		if self.variant != PoolVariant::Base {
			return;
		}
		let ix = self.ix.clone();
		for p in [255u16, 256, 257, 32767, 32768, 65533] {
			let mut pool = self.pool.clone();
			pool.extend((self.next..p).map(|i| CpInfo::Integer { bytes: i as u32 }));
			assert_eq!(pool.len() + 1, p as usize, "generator: the next free index is not where it was meant to be");
			let lnt = |name: u16| A::LineNumberTable { attribute_name_index: name, line_number_table: vec![LineNumberTableEntry { start_pc: 0, line_number: 1 }] };
			// (name at p, what the attribute points at at p + 1)
			let cases: Vec<(&str, ClassFile)> = vec![
				("SourceFile", self.in_class(vec![A::SourceFile { attribute_name_index: p, sourcefile_index: p + 1 }])),
				("x.High", self.in_field(vec![A::Other { attribute_name_index: p, info: vec![1, 2, 3] }])),
				("LineNumberTable", self.in_code(Self::short_code(), vec![lnt(p)])),
				("Signature", self.in_record(vec![A::Signature { attribute_name_index: p, signature_index: ix.u_sig }])),
			];
			for (name, mut c) in cases {
				c.constant_pool = pool.clone();
				c.constant_pool.push(CpInfo::Utf8 { bytes: name.as_bytes().to_vec() });
				c.constant_pool.push(CpInfo::Utf8 { bytes: b"High.java".to_vec() });
				self.push("pool-index-positions", c);
			}
		}
	}
}

impl Gen {
	/// every attribute kind in its place in a class of every major version that introduced an attribute, the one before
	/// it, and the preview minor version: the raw representation has no notion of "too new for this version" (a JVM
	/// ignores an attribute it does not know; a representation keeps it)
	fn attribute_kinds_by_version(&mut self) {
		let versions: [(u16, u16); 14] = [(45, 0), (45, 3), (48, 0), (49, 0), (50, 0), (51, 0), (52, 0), (53, 0), (54, 0), (55, 0), (59, 65535), (60, 0), (61, 0), (65, 0)];
		for (_, level, a) in self.samples() {
			for (major, minor) in versions {
				let mut c = self.place(level, vec![a.clone()]);
				c.major_version = major;
				c.minor_version = minor;
				self.push_optional("attribute-kinds-by-version", c);
			}
		}
	}
}

/// how deep the element values of the class nest (0 = none; a constant = 1; an array of constants = 2; ...)
pub fn element_nesting(c: &ClassFile) -> usize {
	fn element(e: &ElementValue) -> usize {
		1 + match e {
			ElementValue::Array { values } => values.iter().map(element).max().unwrap_or(0),
			ElementValue::Annotation { annotation_value } => annotation(annotation_value),
			_ => 0,
		}
	}
	fn annotation(a: &Annotation) -> usize {
		a.element_value_pairs.iter().map(|p| element(&p.value)).max().unwrap_or(0)
	}
	fn attributes(v: &[AttributeInfo]) -> usize {
		use AttributeInfo as A;
		v.iter().map(|a| match a {
			A::RuntimeVisibleAnnotations { annotations, .. } | A::RuntimeInvisibleAnnotations { annotations, .. } => annotations.iter().map(annotation).max().unwrap_or(0),
			A::RuntimeVisibleParameterAnnotations { parameter_annotations, .. } | A::RuntimeInvisibleParameterAnnotations { parameter_annotations, .. } => {
				parameter_annotations.iter().flat_map(|p| p.annotations.iter()).map(annotation).max().unwrap_or(0)
			},
			A::AnnotationDefault { default_value, .. } => element(default_value),
			A::Code { attributes: inner, .. } => attributes(inner),
			A::Record { components, .. } => components.iter().map(|c| attributes(&c.attributes)).max().unwrap_or(0),
			_ => 0,
		}).max().unwrap_or(0)
	}
	attributes(&c.attributes).max(c.fields.iter().map(|f| attributes(&f.attributes)).max().unwrap_or(0)).max(c.methods.iter().map(|m| attributes(&m.attributes)).max().unwrap_or(0))
}

/// the values of the sequence space (c20.rs `run_sequences`): every attribute kind in its place over the standard pool, and
/// over pools of the same length in which the attribute names sit at other indices (the name of the kind first / last)
pub fn sequence_values() -> Vec<Case> {
	let (pool, ix, next) = universe(PoolVariant::Base);
	let g = Gen { pool, ix, next, variant: PoolVariant::Base, out: Vec::new(), counter: Default::default() };
	let mut out: Vec<Case> = Vec::new();
	let mut push = |what: String, value: ClassFile| {
		let label = format!("sequence-value/{}/{what}", out.len());
		out.push(Case { label, focus: "sequences", pool: PoolVariant::Base, value, deep: false, optional: false });
	};
	push("empty class".into(), g.host());
	for (kind, level, a) in g.samples() {
		push(format!("{kind} over the standard pool"), g.place(level, vec![a]));
	}
	for first in [true, false] {
		for (pos, name) in ATTRIBUTE_NAMES.iter().enumerate().filter(|(p, _)| p % 2 == 0) {
			let kind = if *name == "x.Custom" { "Other" } else { name };
			let rotate = if first { pos } else { (pos + 1) % ATTRIBUTE_NAMES.len() };
			let g2 = g.with_pool(universe_ordered(PoolVariant::Base, first, rotate));
			if let Some((_, level, a)) = g2.samples().into_iter().find(|(k, _, _)| k == &kind) {
				push(format!("{kind} with its name {} in the pool", if first { "first" } else { "last" }), g2.place(level, vec![a]));
			}
		}
	}
	out
}

/// every case of one pool variant, in a fixed order
pub fn cases(variant: PoolVariant) -> Vec<Case> {
	let (pool, ix, next) = universe(variant);
	let mut g = Gen { pool, ix, next, variant, out: Vec::new(), counter: Default::default() };
	if variant == PoolVariant::TwoSlotFirst {
		// one representative sweep: the symptom is the same for every attribute (its name is looked up one entry off)
		g.simple_attributes();
		g.code_tables();
		g.record();
		g.structure();
	} else {
		g.run();
	}
	g.out
}

/// every ordered pair of frames of the full alphabet as a two-entry StackMapTable, generated on demand
pub struct FramePairs {
	g: Gen,
	full: Vec<StackMapFrame>,
}

impl FramePairs {
	pub fn new(variant: PoolVariant) -> FramePairs {
		let (pool, ix, next) = universe(variant);
		let g = Gen { pool, ix, next, variant, out: Vec::new(), counter: Default::default() };
		let (_, full) = g.frames();
		FramePairs { g, full }
	}
	pub fn count(&self) -> usize {
		self.full.len() * self.full.len()
	}
	pub fn nth(&self, i: usize) -> Case {
		let n = self.full.len();
		let t = vec![self.full[i / n].clone(), self.full[i % n].clone()];
		let value = self.g.in_code(Gen::long_code(), vec![AttributeInfo::StackMapTable { attribute_name_index: self.g.ix.name("StackMapTable"), entries: t }]);
		Case { label: format!("raw/{}/StackMapTable-pair/{}", self.g.variant.name(), i), focus: "StackMapTable", pool: self.g.variant, value, deep: false, optional: false }
	}
}
