//! Compiles modules of the *binary* crate `feather-build-rs` (which exposes no library) into the
//! harness, unchanged, by `#[path]`-including their source files under a crate root that provides
//! the few `crate::…` items they import, and exports thin `pub` wrappers around their `pub(crate)` API.
//!
//! Nothing of the included code is re-implemented here: every wrapper is a direct call.

#![allow(dead_code, deprecated, unused_imports, unused_variables, unused_mut, redundant_semicolons)]
#![allow(clippy::all)]

// crate-root marker types imported by the included modules (`use crate::{Intermediary, Named}`)
pub struct Official;
pub struct Intermediary;
pub struct Named;

pub(crate) mod download {
	pub(crate) mod versions_manifest {
		/// same public shape as `/repo/src/download/versions_manifest.rs` (serde derives left out)
		#[derive(Debug, Clone, PartialEq, Hash, Eq)]
		pub(crate) struct MinecraftVersion(pub(crate) String);
	}
}

#[path = "/repo/src/version_graph.rs"]
mod version_graph;

pub mod vg {
	//! wrappers around `/repo/src/version_graph.rs`
	use std::path::Path;
	use anyhow::Result;
	use quill::tree::mappings::Mappings;
	use crate::version_graph::{Split, VersionGraph};
	use crate::{Intermediary, Named};

	pub type VersionMappings = Mappings<2, (Intermediary, Named)>;

	#[derive(Clone, Copy, Debug, PartialEq, Eq, Hash, PartialOrd, Ord)]
	pub enum SplitKind {
		None,
		First,
		Second,
	}

	fn kind(s: Split) -> SplitKind {
		match s {
			Split::None => SplitKind::None,
			Split::First => SplitKind::First,
			Split::Second => SplitKind::Second,
		}
	}

	/// a resolved `VersionGraph`
	pub struct Resolved(VersionGraph);

	/// `VersionGraph::resolve(dir)`
	pub fn resolve(dir: &Path) -> Result<Resolved> {
		VersionGraph::resolve(dir).map(Resolved)
	}

	impl Resolved {
		/// `VersionGraph::versions()`: the version string and depth of every entry, in iteration order
		pub fn versions(&self) -> Vec<(String, usize)> {
			self.0.versions().map(|v| (v.as_str().to_owned(), v.depth())).collect()
		}

		/// `VersionGraph::get(name)`: the split kind and the version string of the entry found
		pub fn get(&self, name: &str) -> Result<(SplitKind, String)> {
			self.0.get(name).map(|(s, v)| (kind(s), v.as_str().to_owned()))
		}

		/// `VersionGraph::get(name)` followed by `VersionGraph::apply_diffs(entry)`
		pub fn apply_diffs(&self, name: &str) -> Result<VersionMappings> {
			let (_, v) = self.0.get(name)?;
			self.0.apply_diffs(v)
		}

		/// `VersionGraph::apply_diffs` on the `index`-th entry of `VersionGraph::versions()`
		pub fn apply_diffs_nth(&self, index: usize) -> Option<Result<VersionMappings>> {
			let v = self.0.versions().nth(index)?;
			Some(self.0.apply_diffs(v))
		}

		/// version strings of `VersionGraph::parents` / `VersionGraph::children` of the entry found by `get(name)`
		pub fn parents(&self, name: &str) -> Result<Vec<String>> {
			let (_, v) = self.0.get(name)?;
			Ok(self.0.parents(v).map(|p| p.as_str().to_owned()).collect())
		}
		pub fn children(&self, name: &str) -> Result<Vec<String>> {
			let (_, v) = self.0.get(name)?;
			Ok(self.0.children(v).map(|p| p.as_str().to_owned()).collect())
		}

		/// is the entry found by `get(name)` the root (`is_root_then_get_mappings` is `Some`)?
		pub fn is_root(&self, name: &str) -> Result<bool> {
			let (_, v) = self.0.get(name)?;
			Ok(self.0.is_root_then_get_mappings(v).is_some())
		}
	}

	/// `version_graph::map_shortcut`
	pub fn map_shortcut(version: &str) -> &str {
		crate::version_graph::map_shortcut(version)
	}
}
