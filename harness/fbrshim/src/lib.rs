//! Compiles modules of the *binary* crate `feather-build-rs` (which exposes no library) into the
//! harness, unchanged, by `#[path]`-including their source files under a crate root that provides
//! the few `crate::…` items they import, and exports thin `pub` wrappers around their `pub(crate)` API.
//!
//! Nothing of the included code is re-implemented here: every wrapper is a direct call.

#![allow(dead_code, deprecated, unused_imports, unused_variables, unused_mut, redundant_semicolons)]
#![allow(clippy::all)]

// crate-root marker types imported by the included modules (`use crate::{Intermediary, Named}`)
pub struct Official;
pub struct Intermediary;
pub struct Named;

pub(crate) mod download {
	pub(crate) mod versions_manifest {
		/// same public shape as `/repo/src/download/versions_manifest.rs` (serde derives left out)
		#[derive(Debug, Clone, PartialEq, Hash, Eq)]
		pub(crate) struct MinecraftVersion(pub(crate) String);
	}
}

#[path = "/repo/src/version_graph.rs"]
mod version_graph;

pub mod vg {
	//! wrappers around `/repo/src/version_graph.rs`
	use std::path::Path;
	use anyhow::Result;
	use quill::tree::mappings::Mappings;
	use crate::version_graph::{Split, VersionGraph};
	use crate::{Intermediary, Named};

	pub type VersionMappings = Mappings<2, (Intermediary, Named)>;

	#[derive(Clone, Copy, Debug, PartialEq, Eq, Hash, PartialOrd, Ord)]
	pub enum SplitKind {
		None,
		First,
		Second,
	}

	fn kind(s: Split) -> SplitKind {
		match s {
			Split::None => SplitKind::None,
			Split::First => SplitKind::First,
			Split::Second => SplitKind::Second,
		}
	}

	/// a resolved `VersionGraph`
	pub struct Resolved(VersionGraph);

	/// `VersionGraph::resolve(dir)`
	pub fn resolve(dir: &Path) -> Result<Resolved> {
		VersionGraph::resolve(dir).map(Resolved)
	}

	impl Resolved {
		/// `VersionGraph::versions()`: the version string and depth of every entry, in iteration order
		pub fn versions(&self) -> Vec<(String, usize)> {
			self.0.versions().map(|v| (v.as_str().to_owned(), v.depth())).collect()
		}

		/// `VersionGraph::get(name)`: the split kind and the version string of the entry found
		pub fn get(&self, name: &str) -> Result<(SplitKind, String)> {
			self.0.get(name).map(|(s, v)| (kind(s), v.as_str().to_owned()))
		}

		/// `VersionGraph::get(name)` followed by `VersionGraph::apply_diffs(entry)`
		pub fn apply_diffs(&self, name: &str) -> Result<VersionMappings> {
			let (_, v) = self.0.get(name)?;
			self.0.apply_diffs(v)
		}

		/// `VersionGraph::apply_diffs` on the `index`-th entry of `VersionGraph::versions()`
		pub fn apply_diffs_nth(&self, index: usize) -> Option<Result<VersionMappings>> {
			let v = self.0.versions().nth(index)?;
			Some(self.0.apply_diffs(v))
		}

		/// version strings of `VersionGraph::parents` / `VersionGraph::children` of the entry found by `get(name)`
		pub fn parents(&self, name: &str) -> Result<Vec<String>> {
			let (_, v) = self.0.get(name)?;
			Ok(self.0.parents(v).map(|p| p.as_str().to_owned()).collect())
		}
		pub fn children(&self, name: &str) -> Result<Vec<String>> {
			let (_, v) = self.0.get(name)?;
			Ok(self.0.children(v).map(|p| p.as_str().to_owned()).collect())
		}

		/// is the entry found by `get(name)` the root (`is_root_then_get_mappings` is `Some`)?
		pub fn is_root(&self, name: &str) -> Result<bool> {
			let (_, v) = self.0.get(name)?;
			Ok(self.0.is_root_then_get_mappings(v).is_some())
		}
	}

	/// `version_graph::map_shortcut`
	pub fn map_shortcut(version: &str) -> &str {
		crate::version_graph::map_shortcut(version)
	}
}

#[path = "/repo/src/specialized_methods/mod.rs"]
mod specialized_methods;

pub mod sm {
	//! wrappers around `/repo/src/specialized_methods/mod.rs` (added for C15)
	use std::cell::RefCell;
	use anyhow::{bail, Result};
	use duke::tree::class::{ObjClassName, ObjClassNameSlice};
	use duke::tree::field::{FieldDescriptorSlice, FieldNameAndDesc, FieldNameSlice};
	use duke::tree::method::{MethodDescriptorSlice, MethodNameAndDesc, MethodNameSlice, MethodRefObj};
	use dukebox::storage::Jar;
	use quill::remapper::{ARemapper, BRemapper};
	use quill::tree::mappings::Mappings;
	use crate::specialized_methods::GetSpecializedMethods;
	use crate::{Intermediary, Named, Official};

	/// official -> intermediary
	pub type Calamus = Mappings<2, (Official, Intermediary)>;
	/// intermediary -> named
	pub type NamedMappings = Mappings<2, (Intermediary, Named)>;

	/// (class, name, descriptor)
	pub type Ref = (String, String, String);

	fn to_ref(r: &MethodRefObj) -> Ref {
		(r.class.as_inner().to_string(), r.name.as_inner().to_string(), r.desc.as_inner().to_string())
	}

	/// the two maps of `SpecializedMethods`, in iteration order
	#[derive(Clone, Debug, PartialEq, Eq)]
	pub struct Pairs {
		/// (bridge, specialized)
		pub bridge_to_specialized: Vec<(Ref, Ref)>,
		/// (specialized, bridge)
		pub specialized_to_bridge: Vec<(Ref, Ref)>,
	}

	/// An identity remapper that records every `map_method_ref_obj` query: the only way to observe the
	/// private field `specialized_to_bridge` is through `SpecializedMethods::remap`, which queries the
	/// remapper with every key and value of both maps in order.
	#[derive(Default)]
	struct Recorder {
		log: RefCell<Vec<MethodRefObj>>,
	}

	impl ARemapper for Recorder {
		fn map_class_fail(&self, _class: &ObjClassNameSlice) -> Result<Option<ObjClassName>> {
			Ok(None)
		}
	}

	impl BRemapper for Recorder {
		fn map_field_fail(&self, _owner: &ObjClassNameSlice, _name: &FieldNameSlice, _desc: &FieldDescriptorSlice) -> Result<Option<FieldNameAndDesc>> {
			Ok(None)
		}
		fn map_method_fail(&self, _owner: &ObjClassNameSlice, _name: &MethodNameSlice, _desc: &MethodDescriptorSlice) -> Result<Option<MethodNameAndDesc>> {
			Ok(None)
		}
		fn map_method_ref_obj(&self, method_ref: &MethodRefObj) -> Result<MethodRefObj> {
			self.log.borrow_mut().push(method_ref.clone());
			Ok(method_ref.clone())
		}
	}

	/// `GetSpecializedMethods::get_specialized_methods(jar)`; `bridge_to_specialized` is read directly,
	/// `specialized_to_bridge` through the queries `SpecializedMethods::remap` makes (see [`Recorder`]).
	pub fn get_specialized_methods(jar: &impl Jar) -> Result<Pairs> {
		let found = jar.get_specialized_methods()?;
		let b2s: Vec<(Ref, Ref)> = found.bridge_to_specialized.iter().map(|(b, s)| (to_ref(b), to_ref(s))).collect();
		let recorder = Recorder::default();
		let _identity = found.remap(&recorder)?;
		let log: Vec<Ref> = recorder.log.into_inner().iter().map(to_ref).collect();
		let n = b2s.len() * 2;
		if log.len() < n || (log.len() - n) % 2 != 0 {
			bail!("shim: SpecializedMethods::remap made {} queries for {} bridge_to_specialized pairs", log.len(), b2s.len());
		}
		for (i, (b, s)) in b2s.iter().enumerate() {
			if &log[2 * i] != b || &log[2 * i + 1] != s {
				bail!("shim: SpecializedMethods::remap does not query bridge_to_specialized first and in order");
			}
		}
		let s2b = log[n..].chunks(2).map(|c| (c[0].clone(), c[1].clone())).collect();
		Ok(Pairs { bridge_to_specialized: b2s, specialized_to_bridge: s2b })
	}

	/// `add_specialized_methods_to_mappings(main_jar, calamus, libraries, mappings)`
	pub fn add_specialized_methods_to_mappings<J: Jar, L: Jar>(main_jar: &J, calamus: &Calamus, libraries: &[L], mappings: &NamedMappings) -> Result<NamedMappings> {
		crate::specialized_methods::add_specialized_methods_to_mappings(main_jar, calamus, libraries, mappings)
	}
}
