//! Reference semantics of applying a diff, of diffing two sets, and the `.tinydiff` text form.
//!
//! `apply` is written from the property statement: additions appear, removals disappear with their
//! subtree, edits replace the old value, untouched entries stay identical; a stated old value that
//! does not match the target, or an addition that collides, refuses the whole application.

use std::collections::BTreeMap;
use crate::{Act, DClass, DField, DMethod, DParam, MClass, MDiff, MField, MMethod, MParam, MSet};
use crate::tiny::ParseError;

/// What the statement demands of one application.
#[derive(Clone, Debug, PartialEq, Eq)]
pub struct Expect {
	/// `Some(set)`: a successful application must produce exactly this set. `None`: must be refused.
	pub result: Option<MSet>,
	/// the statement does not say whether this diff is consistent (e.g. actions below a removed
	/// entry, a change-free line for an entry that does not exist): refusing is acceptable too
	pub may_refuse: bool,
	/// why the application must be refused (for messages)
	pub reason: String,
}

struct Refuse(String);

struct St {
	t: usize,
	may_refuse: bool,
}

fn apply_opt(a: &Act, cur: Option<String>, what: &str) -> Result<Option<String>, Refuse> {
	match a {
		Act::None => Ok(cur),
		Act::Add(b) => match cur {
			Some(c) => Err(Refuse(format!("{what}: addition of {b:?} collides with existing {c:?}"))),
			None => Ok(Some(b.clone())),
		},
		Act::Remove(x) => match cur {
			Some(c) if &c == x => Ok(None),
			other => Err(Refuse(format!("{what}: removal states old value {x:?} but target has {other:?}"))),
		},
		Act::Edit(x, b) => match cur {
			Some(c) if &c == x => Ok(Some(b.clone())),
			other => Err(Refuse(format!("{what}: edit states old value {x:?} but target has {other:?}"))),
		},
	}
}

/// generic node step: returns Ok(None) if the node is removed
enum Step {
	Keep,
	Fresh,
	Removed,
}

fn step_name(st: &St, a: &Act, names: Option<&mut Vec<Option<String>>>, what: &str) -> Result<Step, Refuse> {
	match names {
		Some(names) => {
			let cur = names[st.t].clone();
			match a {
				Act::Remove(_) => {
					apply_opt(a, cur, what)?;
					Ok(Step::Removed)
				},
				_ => {
					names[st.t] = apply_opt(a, cur, what)?;
					Ok(Step::Keep)
				},
			}
		},
		None => match a {
			Act::Add(_) => Ok(Step::Fresh),
			Act::None => Err(Refuse(format!("{what}: no action for an entry that does not exist"))),
			other => Err(Refuse(format!("{what}: {other:?} on an entry that does not exist"))),
		},
	}
}

fn has_content_param(d: &DParam) -> bool {
	!d.info.is_none() || !d.doc.is_none()
}
fn has_content_field(d: &DField) -> bool {
	!d.info.is_none() || !d.doc.is_none()
}
fn has_content_method(d: &DMethod) -> bool {
	!d.info.is_none() || !d.doc.is_none() || d.params.values().any(has_content_param)
}
fn has_content_class(d: &DClass) -> bool {
	!d.info.is_none() || !d.doc.is_none() || d.fields.values().any(has_content_field) || d.methods.values().any(has_content_method)
}

fn fresh_row(n: usize, t: usize, key_name: Option<&str>, a: &Act) -> Vec<Option<String>> {
	let mut row = vec![None; n];
	row[0] = key_name.map(|s| s.to_owned());
	if let Act::Add(b) = a {
		row[t] = Some(b.clone());
	}
	row
}

fn apply_params(st: &mut St, n: usize, d: &BTreeMap<usize, DParam>, mut cur: BTreeMap<usize, MParam>, what: &str) -> Result<BTreeMap<usize, MParam>, Refuse> {
	for (idx, dp) in d {
		let w = format!("{what} parameter {idx}");
		match step_name(st, &dp.info, cur.get_mut(idx).map(|p| &mut p.names), &w) {
			Ok(Step::Keep) => {
				let p = cur.get_mut(idx).ok_or_else(|| Refuse("internal".into()))?;
				p.doc = apply_opt(&dp.doc, p.doc.take(), &format!("{w} comment"))?;
			},
			Ok(Step::Fresh) => {
				let p = MParam { names: fresh_row(n, st.t, None, &dp.info), doc: apply_opt(&dp.doc, None, &format!("{w} comment"))? };
				cur.insert(*idx, p);
			},
			Ok(Step::Removed) => {
				if !dp.doc.is_none() {
					st.may_refuse = true;
				}
				cur.remove(idx);
			},
			Err(r) => {
				// a change-free line for a missing entry: the statement does not call this inconsistent
				if dp.info.is_none() && !has_content_param(dp) && !cur.contains_key(idx) {
					st.may_refuse = true;
					continue;
				}
				return Err(r);
			},
		}
	}
	Ok(cur)
}

fn apply_fields(st: &mut St, n: usize, d: &BTreeMap<(String, String), DField>, mut cur: BTreeMap<(String, String), MField>, what: &str) -> Result<BTreeMap<(String, String), MField>, Refuse> {
	for (key, df) in d {
		let w = format!("{what} field {key:?}");
		match step_name(st, &df.info, cur.get_mut(key).map(|p| &mut p.names), &w) {
			Ok(Step::Keep) => {
				let f = cur.get_mut(key).ok_or_else(|| Refuse("internal".into()))?;
				f.doc = apply_opt(&df.doc, f.doc.take(), &format!("{w} comment"))?;
			},
			Ok(Step::Fresh) => {
				let f = MField { names: fresh_row(n, st.t, Some(&key.0), &df.info), doc: apply_opt(&df.doc, None, &format!("{w} comment"))? };
				cur.insert(key.clone(), f);
			},
			Ok(Step::Removed) => {
				if !df.doc.is_none() {
					st.may_refuse = true;
				}
				cur.remove(key);
			},
			Err(r) => {
				if df.info.is_none() && !has_content_field(df) && !cur.contains_key(key) {
					st.may_refuse = true;
					continue;
				}
				return Err(r);
			},
		}
	}
	Ok(cur)
}

fn apply_methods(st: &mut St, n: usize, d: &BTreeMap<(String, String), DMethod>, mut cur: BTreeMap<(String, String), MMethod>, what: &str) -> Result<BTreeMap<(String, String), MMethod>, Refuse> {
	for (key, dm) in d {
		let w = format!("{what} method {key:?}");
		match step_name(st, &dm.info, cur.get_mut(key).map(|p| &mut p.names), &w) {
			Ok(Step::Keep) => {
				let m = cur.get_mut(key).ok_or_else(|| Refuse("internal".into()))?;
				m.doc = apply_opt(&dm.doc, m.doc.take(), &format!("{w} comment"))?;
				m.params = apply_params(st, n, &dm.params, std::mem::take(&mut m.params), &w)?;
			},
			Ok(Step::Fresh) => {
				let m = MMethod {
					names: fresh_row(n, st.t, Some(&key.0), &dm.info),
					doc: apply_opt(&dm.doc, None, &format!("{w} comment"))?,
					params: apply_params(st, n, &dm.params, BTreeMap::new(), &w)?,
				};
				cur.insert(key.clone(), m);
			},
			Ok(Step::Removed) => {
				if !dm.doc.is_none() || dm.params.values().any(has_content_param) {
					st.may_refuse = true;
				}
				cur.remove(key);
			},
			Err(r) => {
				if dm.info.is_none() && !has_content_method(dm) && !cur.contains_key(key) {
					st.may_refuse = true;
					continue;
				}
				return Err(r);
			},
		}
	}
	Ok(cur)
}

/// Applies `d` to `target` in namespace index `t` (≥ 1).
pub fn apply(d: &MDiff, target: &MSet, t: usize) -> Expect {
	let n = target.n();
	let mut st = St { t, may_refuse: false };
	let mut out = target.clone();
	let r: Result<(), Refuse> = (|| {
		match &d.info {
			Act::None => {},
			Act::Edit(a, b) => {
				if &out.ns[t] != a {
					return Err(Refuse(format!("namespace edit states old name {a:?} but target has {:?}", out.ns[t])));
				}
				out.ns[t] = b.clone();
			},
			other => return Err(Refuse(format!("namespace action {other:?} makes no sense"))),
		}
		out.doc = apply_opt(&d.doc, out.doc.take(), "mappings comment")?;
		for (key, dc) in &d.classes {
			let w = format!("class {key:?}");
			match step_name(&st, &dc.info, out.classes.get_mut(key).map(|c| &mut c.names), &w) {
				Ok(Step::Keep) => {
					let c = out.classes.get_mut(key).ok_or_else(|| Refuse("internal".into()))?;
					c.doc = apply_opt(&dc.doc, c.doc.take(), &format!("{w} comment"))?;
					c.fields = apply_fields(&mut st, n, &dc.fields, std::mem::take(&mut c.fields), &w)?;
					c.methods = apply_methods(&mut st, n, &dc.methods, std::mem::take(&mut c.methods), &w)?;
				},
				Ok(Step::Fresh) => {
					let c = MClass {
						names: fresh_row(n, t, Some(key), &dc.info),
						doc: apply_opt(&dc.doc, None, &format!("{w} comment"))?,
						fields: apply_fields(&mut st, n, &dc.fields, BTreeMap::new(), &w)?,
						methods: apply_methods(&mut st, n, &dc.methods, BTreeMap::new(), &w)?,
					};
					out.classes.insert(key.clone(), c);
				},
				Ok(Step::Removed) => {
					if !dc.doc.is_none() || dc.fields.values().any(has_content_field) || dc.methods.values().any(has_content_method) {
						st.may_refuse = true;
					}
					out.classes.remove(key);
				},
				Err(r) => {
					if dc.info.is_none() && !has_content_class(dc) && !out.classes.contains_key(key) {
						st.may_refuse = true;
						continue;
					}
					return Err(r);
				},
			}
		}
		Ok(())
	})();
	match r {
		Ok(()) => Expect { result: Some(out), may_refuse: st.may_refuse, reason: String::new() },
		Err(Refuse(reason)) => Expect { result: None, may_refuse: true, reason },
	}
}

// ---------------------------------------------------------------------------------------------
// reference diff (two namespaces, target = index 1)

fn name_act(a: Option<&Option<String>>, b: Option<&Option<String>>) -> Option<Act> {
	match (a, b) {
		(Some(Some(a)), Some(Some(b))) => Some(if a == b { Act::None } else { Act::Edit(a.clone(), b.clone()) }),
		(Some(None), Some(None)) => Some(Act::None),
		(Some(None), Some(Some(b))) => Some(Act::Add(b.clone())),
		// an entry that stays but loses its name cannot be said: a removal removes the entry
		(Some(Some(_)), Some(None)) => None,
		(Some(Some(a)), None) => Some(Act::Remove(a.clone())),
		(None, Some(Some(b))) => Some(Act::Add(b.clone())),
		// entries without a target name can neither be added nor removed by a diff
		(Some(None), None) | (None, Some(None)) => None,
		(None, None) => Some(Act::None),
	}
}

fn doc_act(a: Option<&Option<String>>, b: Option<&Option<String>>) -> Act {
	Act::from_tuple(a.cloned().flatten(), b.cloned().flatten())
}

fn union_keys<'a, K: Ord + Clone, V>(a: Option<&'a BTreeMap<K, V>>, b: Option<&'a BTreeMap<K, V>>) -> Vec<K> {
	let mut keys: Vec<K> = a.into_iter().flat_map(|m| m.keys().cloned()).chain(b.into_iter().flat_map(|m| m.keys().cloned())).collect();
	keys.sort();
	keys.dedup();
	keys
}

/// The smallest diff `d` with `apply(d, a) == b`, or `None` where the diff language cannot say it.
/// Entries that do not change at all are left out.
pub fn diff(a: &MSet, b: &MSet) -> Option<MDiff> {
	if a.ns != b.ns || a.n() != 2 {
		return None;
	}
	let mut d = MDiff { info: Act::None, doc: doc_act(Some(&a.doc), Some(&b.doc)), classes: BTreeMap::new() };
	for key in union_keys(Some(&a.classes), Some(&b.classes)) {
		let (ca, cb) = (a.classes.get(&key), b.classes.get(&key));
		let mut dc = DClass {
			info: name_act(ca.map(|c| &c.names[1]), cb.map(|c| &c.names[1]))?,
			doc: doc_act(ca.map(|c| &c.doc), cb.map(|c| &c.doc)),
			..Default::default()
		};
		let removed = cb.is_none();
		if !removed {
			for fk in union_keys(ca.map(|c| &c.fields), cb.map(|c| &c.fields)) {
				let (fa, fb) = (ca.and_then(|c| c.fields.get(&fk)), cb.and_then(|c| c.fields.get(&fk)));
				let df = DField {
					info: name_act(fa.map(|f| &f.names[1]), fb.map(|f| &f.names[1]))?,
					doc: if fb.is_none() { Act::None } else { doc_act(fa.map(|f| &f.doc), fb.map(|f| &f.doc)) },
				};
				if has_content_field(&df) {
					dc.fields.insert(fk, df);
				}
			}
			for mk in union_keys(ca.map(|c| &c.methods), cb.map(|c| &c.methods)) {
				let (ma, mb) = (ca.and_then(|c| c.methods.get(&mk)), cb.and_then(|c| c.methods.get(&mk)));
				let mut dm = DMethod {
					info: name_act(ma.map(|f| &f.names[1]), mb.map(|f| &f.names[1]))?,
					doc: if mb.is_none() { Act::None } else { doc_act(ma.map(|f| &f.doc), mb.map(|f| &f.doc)) },
					params: BTreeMap::new(),
				};
				if mb.is_some() {
					for pk in union_keys(ma.map(|m| &m.params), mb.map(|m| &m.params)) {
						let (pa, pb) = (ma.and_then(|m| m.params.get(&pk)), mb.and_then(|m| m.params.get(&pk)));
						// parameters have no source name in a diff: one that has a source name on side b only cannot be created
						if pa.is_none() && pb.is_some_and(|p| p.names[0].is_some()) {
							return None;
						}
						if let (Some(pa), Some(pb)) = (pa, pb) {
							if pa.names[0] != pb.names[0] {
								return None;
							}
						}
						let dp = DParam {
							info: name_act(pa.map(|f| &f.names[1]), pb.map(|f| &f.names[1]))?,
							doc: if pb.is_none() { Act::None } else { doc_act(pa.map(|f| &f.doc), pb.map(|f| &f.doc)) },
						};
						if has_content_param(&dp) {
							dm.params.insert(pk, dp);
						}
					}
				}
				if has_content_method(&dm) {
					dc.methods.insert(mk, dm);
				}
			}
		} else {
			dc.doc = Act::None;
		}
		if has_content_class(&dc) {
			d.classes.insert(key, dc);
		}
	}
	Some(d)
}

// ---------------------------------------------------------------------------------------------
// .tinydiff text

fn act_cells(a: &Act, esc: &dyn Fn(&str) -> String) -> String {
	let (x, y) = a.to_tuple();
	format!("\t{}\t{}", x.map(|s| esc(&s)).unwrap_or_default(), y.map(|s| esc(&s)).unwrap_or_default())
}

/// Can this diff be written as `.tinydiff` text and mean the same when read? Empty strings are
/// "absent" in the text, `Edit(a, a)` reads as no action, comments with tabs/newline-escapes aside.
pub fn printable(d: &MDiff) -> bool {
	fn ok_name(a: &Act) -> bool {
		match a {
			Act::None => true,
			Act::Add(b) => !b.is_empty(),
			Act::Remove(a) => !a.is_empty(),
			Act::Edit(a, b) => !a.is_empty() && !b.is_empty() && a != b,
		}
	}
	fn ok_doc(a: &Act) -> bool {
		let f = |s: &String| !s.is_empty() && !s.contains('\t') && !s.contains('\\') && !s.contains('\r');
		match a {
			Act::None => true,
			Act::Add(b) => f(b),
			Act::Remove(a) => f(a),
			Act::Edit(a, b) => f(a) && f(b) && a != b,
		}
	}
	d.info.is_none() && d.doc.is_none()
		&& d.classes.values().all(|c| ok_name(&c.info) && ok_doc(&c.doc)
			&& c.fields.values().all(|f| ok_name(&f.info) && ok_doc(&f.doc))
			&& c.methods.values().all(|m| ok_name(&m.info) && ok_doc(&m.doc) && m.params.values().all(|p| ok_name(&p.info) && ok_doc(&p.doc))))
}

pub fn print(d: &MDiff) -> String {
	let esc: &dyn Fn(&str) -> String = &crate::tiny::escape;
	let id: &dyn Fn(&str) -> String = &|s: &str| s.to_owned();
	let mut o = String::from("tiny\t2\t0\n");
	for (k, c) in &d.classes {
		o.push_str(&format!("c\t{k}{}\n", act_cells(&c.info, id)));
		if !c.doc.is_none() {
			o.push_str(&format!("\tc{}\n", act_cells(&c.doc, esc)));
		}
		for ((name, desc), f) in &c.fields {
			o.push_str(&format!("\tf\t{desc}\t{name}{}\n", act_cells(&f.info, id)));
			if !f.doc.is_none() {
				o.push_str(&format!("\t\tc{}\n", act_cells(&f.doc, esc)));
			}
		}
		for ((name, desc), m) in &c.methods {
			o.push_str(&format!("\tm\t{desc}\t{name}{}\n", act_cells(&m.info, id)));
			if !m.doc.is_none() {
				o.push_str(&format!("\t\tc{}\n", act_cells(&m.doc, esc)));
			}
			for (idx, p) in &m.params {
				o.push_str(&format!("\t\tp\t{idx}\t{}\n", act_cells(&p.info, id)));
				if !p.doc.is_none() {
					o.push_str(&format!("\t\t\tc{}\n", act_cells(&p.doc, esc)));
				}
			}
		}
	}
	o
}

#[allow(dead_code)]
fn _unused(_: ParseError) {}

#[cfg(test)]
mod tests {
	use super::*;
	use crate::row;

	fn sample() -> (MSet, MSet) {
		let mut a = MSet::new(&["o", "n"]);
		let mut c = MClass { names: row(&[Some("A"), Some("X")]), ..Default::default() };
		c.fields.insert(("f".into(), "I".into()), MField { names: row(&[Some("f"), Some("g")]), doc: Some("d".into()) });
		a.classes.insert("A".into(), c);
		let mut b = a.clone();
		b.classes.get_mut("A").unwrap().names[1] = Some("Y".into());
		b.classes.get_mut("A").unwrap().fields.clear();
		b.classes.insert("B".into(), MClass { names: row(&[Some("B"), Some("Z")]), doc: Some("c".into()), ..Default::default() });
		(a, b)
	}

	#[test]
	fn diff_apply() {
		let (a, b) = sample();
		let d = diff(&a, &b).unwrap();
		let e = apply(&d, &a, 1);
		assert_eq!(e.result, Some(b));
		assert!(!e.may_refuse);
	}

	#[test]
	fn refuse() {
		let (a, _) = sample();
		let mut d = MDiff::default();
		d.classes.insert("A".into(), DClass { info: Act::Edit("WRONG".into(), "Q".into()), ..Default::default() });
		assert_eq!(apply(&d, &a, 1).result, None);
	}
}
