//! Deterministic exhaustive generator of mapping sets over a small universe.
//!
//! A universe lists the entries that may exist; every entry is either absent or present with one of
//! its row variants and one of its comment variants; children exist only below present parents.
//! The space is the product over classes of each class's variant list and is addressed by index.

use std::collections::BTreeMap;
use crate::{MClass, MField, MMethod, MParam, MSet, Row};

#[derive(Clone, Debug)]
pub struct ParamU {
	pub index: usize,
	pub rows: Vec<Row>,
	pub docs: Vec<Option<String>>,
}

#[derive(Clone, Debug)]
pub struct FieldU {
	pub name: String,
	pub desc: String,
	/// name variants for namespaces 1..n (the first namespace is always `name`)
	pub rows: Vec<Row>,
	pub docs: Vec<Option<String>>,
}

#[derive(Clone, Debug)]
pub struct MethodU {
	pub name: String,
	pub desc: String,
	pub rows: Vec<Row>,
	pub docs: Vec<Option<String>>,
	pub params: Vec<ParamU>,
}

#[derive(Clone, Debug)]
pub struct ClassU {
	pub key: String,
	pub rows: Vec<Row>,
	pub docs: Vec<Option<String>>,
	pub fields: Vec<FieldU>,
	pub methods: Vec<MethodU>,
	/// may this class be absent? (default true)
	pub optional: bool,
}

#[derive(Clone, Debug)]
pub struct Universe {
	pub ns: Vec<String>,
	pub classes: Vec<ClassU>,
}

/// all full rows `[first, tail…]` for the tails given
fn full_rows(first: Option<&str>, tails: &[Row]) -> Vec<Row> {
	tails.iter().map(|t| {
		let mut r = vec![first.map(|s| s.to_owned())];
		r.extend(t.iter().cloned());
		r
	}).collect()
}

fn product_maps<K: Ord + Clone, V: Clone>(options: &[(K, Vec<Option<V>>)]) -> Vec<BTreeMap<K, V>> {
	let mut out = vec![BTreeMap::new()];
	for (k, opts) in options {
		let mut next = Vec::with_capacity(out.len() * opts.len());
		for base in &out {
			for o in opts {
				let mut m = base.clone();
				if let Some(v) = o {
					m.insert(k.clone(), v.clone());
				}
				next.push(m);
			}
		}
		out = next;
	}
	out
}

fn param_variants(p: &ParamU) -> Vec<Option<MParam>> {
	let mut v = vec![None];
	for r in &p.rows {
		for d in &p.docs {
			v.push(Some(MParam { names: r.clone(), doc: d.clone() }));
		}
	}
	v
}

fn field_variants(f: &FieldU) -> Vec<Option<MField>> {
	let mut v = vec![None];
	for r in full_rows(Some(&f.name), &f.rows) {
		for d in &f.docs {
			v.push(Some(MField { names: r.clone(), doc: d.clone() }));
		}
	}
	v
}

fn method_variants(m: &MethodU) -> Vec<Option<MMethod>> {
	let params: Vec<(usize, Vec<Option<MParam>>)> = m.params.iter().map(|p| (p.index, param_variants(p))).collect();
	let pmaps = product_maps(&params);
	let mut v = vec![None];
	for r in full_rows(Some(&m.name), &m.rows) {
		for d in &m.docs {
			for pm in &pmaps {
				v.push(Some(MMethod { names: r.clone(), doc: d.clone(), params: pm.clone() }));
			}
		}
	}
	v
}

pub fn class_variants(c: &ClassU) -> Vec<Option<MClass>> {
	let fields: Vec<((String, String), Vec<Option<MField>>)> = c.fields.iter().map(|f| ((f.name.clone(), f.desc.clone()), field_variants(f))).collect();
	let methods: Vec<((String, String), Vec<Option<MMethod>>)> = c.methods.iter().map(|m| ((m.name.clone(), m.desc.clone()), method_variants(m))).collect();
	let fmaps = product_maps(&fields);
	let mmaps = product_maps(&methods);
	let mut v = if c.optional { vec![None] } else { vec![] };
	for r in full_rows(Some(&c.key), &c.rows) {
		for d in &c.docs {
			for fm in &fmaps {
				for mm in &mmaps {
					v.push(Some(MClass { names: r.clone(), doc: d.clone(), fields: fm.clone(), methods: mm.clone() }));
				}
			}
		}
	}
	v
}

/// The enumerated space: `variants[i]` lists what class i can be.
pub struct Space {
	pub ns: Vec<String>,
	pub keys: Vec<String>,
	pub variants: Vec<Vec<Option<MClass>>>,
}

impl Space {
	pub fn new(u: &Universe) -> Space {
		Space { ns: u.ns.clone(), keys: u.classes.iter().map(|c| c.key.clone()).collect(), variants: u.classes.iter().map(class_variants).collect() }
	}
	pub fn dims(&self) -> Vec<usize> {
		self.variants.iter().map(|v| v.len()).collect()
	}
	pub fn len(&self) -> u64 {
		self.variants.iter().map(|v| v.len() as u64).product()
	}
	pub fn is_empty(&self) -> bool {
		self.len() == 0
	}
	pub fn nth(&self, mut idx: u64) -> MSet {
		let mut set = MSet { ns: self.ns.clone(), doc: None, classes: BTreeMap::new() };
		for i in (0..self.variants.len()).rev() {
			let d = self.variants[i].len() as u64;
			let k = (idx % d) as usize;
			idx /= d;
			if let Some(c) = &self.variants[i][k] {
				set.classes.insert(self.keys[i].clone(), c.clone());
			}
		}
		set
	}
	pub fn all(&self) -> Vec<MSet> {
		(0..self.len()).map(|i| self.nth(i)).collect()
	}
}

/// convenience: tails for namespaces 1..n where each cell is absent or the given name
pub fn tails(options_per_ns: &[&[Option<&str>]]) -> Vec<Row> {
	let mut out: Vec<Row> = vec![vec![]];
	for opts in options_per_ns {
		let mut next = Vec::new();
		for base in &out {
			for o in *opts {
				let mut r = base.clone();
				r.push(o.map(|s| s.to_owned()));
				next.push(r);
			}
		}
		out = next;
	}
	out
}

pub fn docs(options: &[Option<&str>]) -> Vec<Option<String>> {
	options.iter().map(|o| o.map(|s| s.to_owned())).collect()
}

#[cfg(test)]
mod tests {
	use super::*;

	#[test]
	fn small_space() {
		let u = Universe {
			ns: vec!["a".into(), "b".into()],
			classes: vec![ClassU {
				key: "A".into(),
				rows: tails(&[&[None, Some("X")]]),
				docs: docs(&[None, Some("d")]),
				fields: vec![FieldU { name: "f".into(), desc: "I".into(), rows: tails(&[&[Some("g")]]), docs: docs(&[None]) }],
				methods: vec![],
				optional: true,
			}],
		};
		let s = Space::new(&u);
		// absent + 2 rows * 2 docs * (field absent | present)
		assert_eq!(s.len(), 1 + 2 * 2 * 2);
		for m in s.all() {
			m.check().unwrap();
		}
	}
}
