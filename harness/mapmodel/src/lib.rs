//! Boring reference model of quill's mapping sets and diffs: BTreeMaps of strings.
//!
//! Written from the property statements and the format descriptions, not from quill's code.
//! Conversions to and from `quill::tree::mappings::Mappings<N, _>` use public API only.

use std::collections::BTreeMap;
use anyhow::{anyhow, bail, Result};
use indexmap::IndexMap;
use java_string::JavaString;
use duke::tree::class::ObjClassName;
use duke::tree::field::{FieldDescriptor, FieldName, FieldNameAndDesc};
use duke::tree::method::{MethodDescriptor, MethodName, MethodNameAndDesc, ParameterName};
use quill::tree::mappings::{
	ClassMapping, ClassNowodeMapping, FieldMapping, FieldNowodeMapping, JavadocMapping, Mappings, MethodMapping,
	MethodNowodeMapping, ParameterKey, ParameterMapping, ParameterNowodeMapping,
};
use quill::tree::mappings_diff::{Action, ClassNowodeDiff, FieldNowodeDiff, MappingsDiff, MethodNowodeDiff, ParameterNowodeDiff};
use quill::tree::names::Names;
use quill::tree::NodeInfo;

pub mod tiny;
pub mod diff;
pub mod gen;

/// One name per namespace; `None` = no name in that namespace.
pub type Row = Vec<Option<String>>;

/// key of a field or method in the first namespace: (name, descriptor)
pub type MemberKey = (String, String);

#[derive(Clone, Debug, Default, PartialEq, Eq, Hash, PartialOrd, Ord)]
pub struct MSet {
	pub ns: Vec<String>,
	pub doc: Option<String>,
	pub classes: BTreeMap<String, MClass>,
}

#[derive(Clone, Debug, Default, PartialEq, Eq, Hash, PartialOrd, Ord)]
pub struct MClass {
	pub names: Row,
	pub doc: Option<String>,
	pub fields: BTreeMap<MemberKey, MField>,
	pub methods: BTreeMap<MemberKey, MMethod>,
}

#[derive(Clone, Debug, Default, PartialEq, Eq, Hash, PartialOrd, Ord)]
pub struct MField {
	pub names: Row,
	pub doc: Option<String>,
}

#[derive(Clone, Debug, Default, PartialEq, Eq, Hash, PartialOrd, Ord)]
pub struct MMethod {
	pub names: Row,
	pub doc: Option<String>,
	pub params: BTreeMap<usize, MParam>,
}

#[derive(Clone, Debug, Default, PartialEq, Eq, Hash, PartialOrd, Ord)]
pub struct MParam {
	pub names: Row,
	pub doc: Option<String>,
}

impl MSet {
	pub fn new(ns: &[&str]) -> MSet {
		MSet { ns: ns.iter().map(|s| s.to_string()).collect(), doc: None, classes: BTreeMap::new() }
	}
	pub fn n(&self) -> usize {
		self.ns.len()
	}
	/// number of class + field + method + parameter entries
	pub fn entries(&self) -> usize {
		self.classes.values().map(|c| 1 + c.fields.len() + c.methods.values().map(|m| 1 + m.params.len()).sum::<usize>()).sum()
	}
	/// Checks the model's own well-formedness: every row has `n` cells, first names equal keys.
	pub fn check(&self) -> Result<()> {
		let n = self.n();
		for (k, c) in &self.classes {
			if c.names.len() != n || c.names[0].as_deref() != Some(k.as_str()) {
				bail!("class {k:?}: bad row {:?}", c.names);
			}
			for ((name, _), f) in &c.fields {
				if f.names.len() != n || f.names[0].as_deref() != Some(name.as_str()) {
					bail!("field {name:?} in {k:?}: bad row {:?}", f.names);
				}
			}
			for ((name, _), m) in &c.methods {
				if m.names.len() != n || m.names[0].as_deref() != Some(name.as_str()) {
					bail!("method {name:?} in {k:?}: bad row {:?}", m.names);
				}
				for (i, p) in &m.params {
					if p.names.len() != n {
						bail!("parameter {i} of {name:?} in {k:?}: bad row {:?}", p.names);
					}
				}
			}
		}
		Ok(())
	}
}

pub fn row(cells: &[Option<&str>]) -> Row {
	cells.iter().map(|c| c.map(|s| s.to_string())).collect()
}

// ---------------------------------------------------------------------------------------------
// typed name constructors (validated by duke's own TryFrom; a failure is a generator bug)

pub fn cls(s: &str) -> Result<ObjClassName> {
	ObjClassName::try_from(JavaString::from(s))
}
pub fn fname(s: &str) -> Result<FieldName> {
	FieldName::try_from(JavaString::from(s))
}
pub fn fdesc(s: &str) -> Result<FieldDescriptor> {
	FieldDescriptor::try_from(JavaString::from(s))
}
pub fn mname(s: &str) -> Result<MethodName> {
	MethodName::try_from(JavaString::from(s))
}
pub fn mdesc(s: &str) -> Result<MethodDescriptor> {
	MethodDescriptor::try_from(JavaString::from(s))
}
pub fn pname(s: &str) -> Result<ParameterName> {
	ParameterName::try_from(JavaString::from(s))
}

pub fn js(s: &java_string::JavaStr) -> String {
	s.to_string()
}

fn names_to<const N: usize, T>(row: &Row, f: impl Fn(&str) -> Result<T>) -> Result<Names<N, T>>
where
	T: AsRef<java_string::JavaStr> + std::fmt::Debug,
{
	if row.len() != N {
		bail!("row {row:?} has not {N} cells");
	}
	let v: Vec<Option<T>> = row.iter().map(|c| c.as_deref().map(&f).transpose()).collect::<Result<_>>()?;
	let arr: [Option<T>; N] = v.try_into().map_err(|_| anyhow!("length"))?;
	Names::try_from(arr)
}

fn names_from<const N: usize, T>(names: &Names<N, T>) -> Row
where
	T: AsRef<java_string::JavaStr>,
{
	let arr: &[Option<T>; N] = names.into();
	arr.iter().map(|c| c.as_ref().map(|t| t.as_ref().to_string())).collect()
}

/// Order in which the entries of each level are inserted when building the quill object.
#[derive(Clone, Copy, Debug, PartialEq, Eq)]
pub enum Order {
	Sorted,
	Reversed,
	/// rotate the sorted order left by k
	Rotated(usize),
}

fn ordered<'a, K, V>(m: &'a BTreeMap<K, V>, o: Order) -> Vec<(&'a K, &'a V)> {
	let mut v: Vec<_> = m.iter().collect();
	match o {
		Order::Sorted => {},
		Order::Reversed => v.reverse(),
		Order::Rotated(k) => {
			if !v.is_empty() {
				let k = k % v.len();
				v.rotate_left(k);
			}
		},
	}
	v
}

pub fn to_quill<const N: usize, Ns>(m: &MSet) -> Result<Mappings<N, Ns>> {
	to_quill_ordered(m, Order::Sorted)
}

pub fn class_to_quill<const N: usize>(c: &MClass, o: Order) -> Result<ClassNowodeMapping<N>> {
	let mut qc: ClassNowodeMapping<N> = ClassNowodeMapping::new(ClassMapping { names: names_to(&c.names, cls)? });
	qc.javadoc = c.doc.clone().map(JavadocMapping);
	for ((name, desc), f) in ordered(&c.fields, o) {
		let mut qf: FieldNowodeMapping<N> = FieldNowodeMapping::new(FieldMapping { desc: fdesc(desc)?, names: names_to(&f.names, fname)? });
		qf.javadoc = f.doc.clone().map(JavadocMapping);
		let key = FieldNameAndDesc { name: fname(name)?, desc: fdesc(desc)? };
		if qc.fields.insert(key, qf).is_some() {
			bail!("duplicate field");
		}
	}
	for ((name, desc), me) in ordered(&c.methods, o) {
		let mut qm: MethodNowodeMapping<N> = MethodNowodeMapping::new(MethodMapping { desc: mdesc(desc)?, names: names_to(&me.names, mname)? });
		qm.javadoc = me.doc.clone().map(JavadocMapping);
		for (idx, p) in ordered(&me.params, o) {
			let mut qp: ParameterNowodeMapping<N> = ParameterNowodeMapping::new(ParameterMapping { index: *idx, names: names_to(&p.names, pname)? });
			qp.javadoc = p.doc.clone().map(JavadocMapping);
			qm.parameters.insert(ParameterKey { index: *idx }, qp);
		}
		let key = MethodNameAndDesc { name: mname(name)?, desc: mdesc(desc)? };
		if qc.methods.insert(key, qm).is_some() {
			bail!("duplicate method");
		}
	}
	Ok(qc)
}

pub fn to_quill_ordered<const N: usize, Ns>(m: &MSet, o: Order) -> Result<Mappings<N, Ns>> {
	if m.ns.len() != N {
		bail!("model has {} namespaces, expected {N}", m.ns.len());
	}
	m.check()?;
	let ns: Vec<&str> = m.ns.iter().map(|s| s.as_str()).collect();
	let ns: [&str; N] = ns.try_into().map_err(|_| anyhow!("length"))?;
	let mut q: Mappings<N, Ns> = Mappings::from_namespaces(ns)?;
	q.javadoc = m.doc.clone().map(JavadocMapping);
	for (k, c) in ordered(&m.classes, o) {
		let qc = class_to_quill::<N>(c, o)?;
		if q.classes.insert(cls(k)?, qc).is_some() {
			bail!("duplicate class");
		}
	}
	Ok(q)
}

/// Problems found while projecting a quill object into the model: these are *real-code* invariant
/// breaks (an entry stored under a key that is not its first-namespace name/descriptor).
#[derive(Clone, Debug, PartialEq, Eq)]
pub struct KeyMismatch(pub String);

pub fn from_quill<const N: usize, Ns>(q: &Mappings<N, Ns>) -> std::result::Result<MSet, KeyMismatch> {
	let ns: &[String; N] = (&q.info.namespaces).into();
	let mut m = MSet { ns: ns.to_vec(), doc: q.javadoc.as_ref().map(|j| j.0.clone()), classes: BTreeMap::new() };
	for (k, c) in &q.classes {
		let (key, mc) = class_from_quill(k, c)?;
		if m.classes.insert(key.clone(), mc).is_some() {
			return Err(KeyMismatch(format!("two classes under key {key:?}")));
		}
	}
	Ok(m)
}

pub fn class_from_quill<const N: usize>(k: &ObjClassName, c: &ClassNowodeMapping<N>) -> std::result::Result<(String, MClass), KeyMismatch> {
	let key = js(k.as_inner());
	let names = names_from(&c.info.names);
	if names[0].as_deref() != Some(key.as_str()) {
		return Err(KeyMismatch(format!("class stored under key {key:?} has first name {:?}", names[0])));
	}
	let mut mc = MClass { names, doc: c.javadoc.as_ref().map(|j| j.0.clone()), fields: BTreeMap::new(), methods: BTreeMap::new() };
	for (fk, f) in &c.fields {
		let fkey = (js(fk.name.as_inner()), js(fk.desc.as_inner()));
		let names = names_from(&f.info.names);
		if names[0].as_deref() != Some(fkey.0.as_str()) || js(f.info.desc.as_inner()) != fkey.1 {
			return Err(KeyMismatch(format!("field stored under key {fkey:?} in class {key:?} has first name {:?} and descriptor {:?}", names[0], f.info.desc)));
		}
		mc.fields.insert(fkey, MField { names, doc: f.javadoc.as_ref().map(|j| j.0.clone()) });
	}
	for (mk, me) in &c.methods {
		let mkey = (js(mk.name.as_inner()), js(mk.desc.as_inner()));
		let names = names_from(&me.info.names);
		if names[0].as_deref() != Some(mkey.0.as_str()) || js(me.info.desc.as_inner()) != mkey.1 {
			return Err(KeyMismatch(format!("method stored under key {mkey:?} in class {key:?} has first name {:?} and descriptor {:?}", names[0], me.info.desc)));
		}
		let mut mm = MMethod { names, doc: me.javadoc.as_ref().map(|j| j.0.clone()), params: BTreeMap::new() };
		for (pk, p) in &me.parameters {
			if pk.index != p.info.index {
				return Err(KeyMismatch(format!("parameter stored under index {} in {mkey:?} of {key:?} has index {}", pk.index, p.info.index)));
			}
			mm.params.insert(pk.index, MParam { names: names_from(&p.info.names), doc: p.javadoc.as_ref().map(|j| j.0.clone()) });
		}
		mc.methods.insert(mkey, mm);
	}
	Ok((key, mc))
}

// ---------------------------------------------------------------------------------------------
// diffs

#[derive(Clone, Debug, Default, PartialEq, Eq, Hash, PartialOrd, Ord)]
pub enum Act {
	#[default]
	None,
	Add(String),
	Remove(String),
	Edit(String, String),
}

impl Act {
	pub fn from_tuple(a: Option<String>, b: Option<String>) -> Act {
		match (a, b) {
			(None, None) => Act::None,
			(None, Some(b)) => Act::Add(b),
			(Some(a), None) => Act::Remove(a),
			(Some(a), Some(b)) => Act::Edit(a, b),
		}
	}
	pub fn to_tuple(&self) -> (Option<String>, Option<String>) {
		match self {
			Act::None => (None, None),
			Act::Add(b) => (None, Some(b.clone())),
			Act::Remove(a) => (Some(a.clone()), None),
			Act::Edit(a, b) => (Some(a.clone()), Some(b.clone())),
		}
	}
	pub fn is_none(&self) -> bool {
		matches!(self, Act::None)
	}
	pub fn kind(&self) -> &'static str {
		match self {
			Act::None => "none",
			Act::Add(_) => "add",
			Act::Remove(_) => "remove",
			Act::Edit(a, b) if a == b => "edit-same",
			Act::Edit(..) => "edit",
		}
	}
}

#[derive(Clone, Debug, Default, PartialEq, Eq, Hash, PartialOrd, Ord)]
pub struct MDiff {
	pub info: Act,
	pub doc: Act,
	pub classes: BTreeMap<String, DClass>,
}

#[derive(Clone, Debug, Default, PartialEq, Eq, Hash, PartialOrd, Ord)]
pub struct DClass {
	pub info: Act,
	pub doc: Act,
	pub fields: BTreeMap<MemberKey, DField>,
	pub methods: BTreeMap<MemberKey, DMethod>,
}

#[derive(Clone, Debug, Default, PartialEq, Eq, Hash, PartialOrd, Ord)]
pub struct DField {
	pub info: Act,
	pub doc: Act,
}

#[derive(Clone, Debug, Default, PartialEq, Eq, Hash, PartialOrd, Ord)]
pub struct DMethod {
	pub info: Act,
	pub doc: Act,
	pub params: BTreeMap<usize, DParam>,
}

#[derive(Clone, Debug, Default, PartialEq, Eq, Hash, PartialOrd, Ord)]
pub struct DParam {
	pub info: Act,
	pub doc: Act,
}

fn act_to<T>(a: &Act, f: impl Fn(&str) -> Result<T>) -> Result<Action<T>> {
	Ok(match a {
		Act::None => Action::None,
		Act::Add(b) => Action::Add(f(b)?),
		Act::Remove(a) => Action::Remove(f(a)?),
		Act::Edit(a, b) => Action::Edit(f(a)?, f(b)?),
	})
}

fn act_from<T>(a: &Action<T>, f: impl Fn(&T) -> String) -> Act {
	match a {
		Action::None => Act::None,
		Action::Add(b) => Act::Add(f(b)),
		Action::Remove(a) => Act::Remove(f(a)),
		Action::Edit(a, b) => Act::Edit(f(a), f(b)),
	}
}

fn doc_to(a: &Act) -> Action<JavadocMapping> {
	match a {
		Act::None => Action::None,
		Act::Add(b) => Action::Add(JavadocMapping(b.clone())),
		Act::Remove(a) => Action::Remove(JavadocMapping(a.clone())),
		Act::Edit(a, b) => Action::Edit(JavadocMapping(a.clone()), JavadocMapping(b.clone())),
	}
}

fn doc_from(a: &Action<JavadocMapping>) -> Act {
	act_from(a, |j| j.0.clone())
}

pub fn diff_to_quill(d: &MDiff, o: Order) -> Result<MappingsDiff> {
	let mut q = MappingsDiff::new(act_to(&d.info, |s| Ok(s.to_owned()))?);
	q.javadoc = doc_to(&d.doc);
	for (k, c) in ordered(&d.classes, o) {
		let mut qc = ClassNowodeDiff::new(act_to(&c.info, cls)?);
		qc.javadoc = doc_to(&c.doc);
		for ((name, desc), f) in ordered(&c.fields, o) {
			let mut qf = FieldNowodeDiff::new(act_to(&f.info, fname)?);
			qf.javadoc = doc_to(&f.doc);
			qc.fields.insert(FieldNameAndDesc { name: fname(name)?, desc: fdesc(desc)? }, qf);
		}
		for ((name, desc), m) in ordered(&c.methods, o) {
			let mut qm = MethodNowodeDiff::new(act_to(&m.info, mname)?);
			qm.javadoc = doc_to(&m.doc);
			for (idx, p) in ordered(&m.params, o) {
				let mut qp = ParameterNowodeDiff::new(act_to(&p.info, pname)?);
				qp.javadoc = doc_to(&p.doc);
				qm.parameters.insert(ParameterKey { index: *idx }, qp);
			}
			qc.methods.insert(MethodNameAndDesc { name: mname(name)?, desc: mdesc(desc)? }, qm);
		}
		q.classes.insert(cls(k)?, qc);
	}
	Ok(q)
}

pub fn diff_from_quill(q: &MappingsDiff) -> MDiff {
	let mut d = MDiff { info: act_from(&q.info, |s| s.clone()), doc: doc_from(&q.javadoc), classes: BTreeMap::new() };
	for (k, c) in &q.classes {
		let mut dc = DClass { info: act_from(&c.info, |n| js(n.as_inner())), doc: doc_from(&c.javadoc), fields: BTreeMap::new(), methods: BTreeMap::new() };
		for (fk, f) in &c.fields {
			dc.fields.insert((js(fk.name.as_inner()), js(fk.desc.as_inner())), DField { info: act_from(&f.info, |n| js(n.as_inner())), doc: doc_from(&f.javadoc) });
		}
		for (mk, m) in &c.methods {
			let mut dm = DMethod { info: act_from(&m.info, |n| js(n.as_inner())), doc: doc_from(&m.javadoc), params: BTreeMap::new() };
			for (pk, p) in &m.parameters {
				dm.params.insert(pk.index, DParam { info: act_from(&p.info, |n| js(n.as_inner())), doc: doc_from(&p.javadoc) });
			}
			dc.methods.insert((js(mk.name.as_inner()), js(mk.desc.as_inner())), dm);
		}
		d.classes.insert(js(k.as_inner()), dc);
	}
	d
}

/// insertion order of an IndexMap's keys, for order-sensitivity checks
pub fn index_keys<K: Clone, V>(m: &IndexMap<K, V>) -> Vec<K> {
	m.keys().cloned().collect()
}

/// Renders the first difference between two model sets as a path, for violation keys and messages.
pub fn first_difference(expected: &MSet, actual: &MSet) -> Option<(String, String)> {
	if expected.ns != actual.ns {
		return Some(("namespaces".into(), format!("expected {:?}, got {:?}", expected.ns, actual.ns)));
	}
	if expected.doc != actual.doc {
		return Some(("mappings.comment".into(), format!("expected {:?}, got {:?}", expected.doc, actual.doc)));
	}
	fn keys_diff<K: Ord + std::fmt::Debug, V>(level: &str, e: &BTreeMap<K, V>, a: &BTreeMap<K, V>) -> Option<(String, String)> {
		for k in e.keys() {
			if !a.contains_key(k) {
				return Some((format!("{level}:missing"), format!("{level} {k:?} missing")));
			}
		}
		for k in a.keys() {
			if !e.contains_key(k) {
				return Some((format!("{level}:extra"), format!("unexpected {level} {k:?}")));
			}
		}
		None
	}
	if let Some(d) = keys_diff("class", &expected.classes, &actual.classes) {
		return Some(d);
	}
	for (k, ec) in &expected.classes {
		let ac = &actual.classes[k];
		if ec.names != ac.names {
			return Some(("class.names".into(), format!("class {k:?}: expected names {:?}, got {:?}", ec.names, ac.names)));
		}
		if ec.doc != ac.doc {
			return Some(("class.comment".into(), format!("class {k:?}: expected comment {:?}, got {:?}", ec.doc, ac.doc)));
		}
		if let Some(d) = keys_diff("field", &ec.fields, &ac.fields) {
			return Some((d.0, format!("in class {k:?}: {}", d.1)));
		}
		if let Some(d) = keys_diff("method", &ec.methods, &ac.methods) {
			return Some((d.0, format!("in class {k:?}: {}", d.1)));
		}
		for (fk, ef) in &ec.fields {
			let af = &ac.fields[fk];
			if ef.names != af.names {
				return Some(("field.names".into(), format!("field {fk:?} of {k:?}: expected names {:?}, got {:?}", ef.names, af.names)));
			}
			if ef.doc != af.doc {
				return Some(("field.comment".into(), format!("field {fk:?} of {k:?}: expected comment {:?}, got {:?}", ef.doc, af.doc)));
			}
		}
		for (mk, em) in &ec.methods {
			let am = &ac.methods[mk];
			if em.names != am.names {
				return Some(("method.names".into(), format!("method {mk:?} of {k:?}: expected names {:?}, got {:?}", em.names, am.names)));
			}
			if em.doc != am.doc {
				return Some(("method.comment".into(), format!("method {mk:?} of {k:?}: expected comment {:?}, got {:?}", em.doc, am.doc)));
			}
			if let Some(d) = keys_diff("parameter", &em.params, &am.params) {
				return Some((d.0, format!("in method {mk:?} of {k:?}: {}", d.1)));
			}
			for (pk, ep) in &em.params {
				let ap = &am.params[pk];
				if ep.names != ap.names {
					return Some(("parameter.names".into(), format!("parameter {pk} of {mk:?} of {k:?}: expected names {:?}, got {:?}", ep.names, ap.names)));
				}
				if ep.doc != ap.doc {
					return Some(("parameter.comment".into(), format!("parameter {pk} of {mk:?} of {k:?}: expected comment {:?}, got {:?}", ep.doc, ap.doc)));
				}
			}
		}
	}
	if expected != actual {
		return Some(("other".into(), "sets differ".into()));
	}
	None
}
