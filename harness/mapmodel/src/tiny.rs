//! Reference Tiny v2 printer and reader for the model, written from the format description:
//!
//! ```text
//! tiny <TAB> 2 <TAB> 0 <TAB> ns0 <TAB> ns1 …
//! c <TAB> name0 <TAB> name1 …                      class (depth 0)
//! <TAB> c <TAB> comment                            comment of the enclosing entry (depth+1)
//! <TAB> f <TAB> desc <TAB> name0 <TAB> name1 …     field (depth 1)
//! <TAB> m <TAB> desc <TAB> name0 <TAB> name1 …     method (depth 1)
//! <TAB><TAB> p <TAB> index <TAB> name0 …           parameter (depth 2)
//! ```
//! An absent name is an empty cell. A line belongs to the nearest preceding line one level up.

use std::collections::BTreeMap;
use crate::{MClass, MField, MMethod, MParam, MSet, Row};

pub fn escape(s: &str) -> String {
	let mut out = String::new();
	for c in s.chars() {
		match c {
			'\\' => out.push_str("\\\\"),
			'\n' => out.push_str("\\n"),
			'\r' => out.push_str("\\r"),
			'\t' => out.push_str("\\t"),
			'\0' => out.push_str("\\0"),
			c => out.push(c),
		}
	}
	out
}

/// the escapes of the Tiny v2 format: `\\` → backslash, `\n` → newline, `\r` → carriage return, `\t` → tab, `\0` → NUL; any other
/// backslash pair is kept literally
pub fn unescape(s: &str) -> String {
	let mut out = String::new();
	let mut it = s.chars().peekable();
	while let Some(c) = it.next() {
		if c == '\\' {
			match it.peek() {
				Some('n') => {
					it.next();
					out.push('\n');
				},
				Some('\\') => {
					it.next();
					out.push('\\');
				},
				Some('r') => {
					it.next();
					out.push('\r');
				},
				Some('t') => {
					it.next();
					out.push('\t');
				},
				Some('0') => {
					it.next();
					out.push('\0');
				},
				_ => out.push('\\'),
			}
		} else {
			out.push(c);
		}
	}
	out
}

fn push_row(out: &mut String, row: &Row) {
	for c in row {
		out.push('\t');
		if let Some(c) = c {
			out.push_str(c);
		}
	}
	out.push('\n');
}

/// Prints the model in key order (class key; (name, descriptor); parameter index).
/// `esc` is the comment escaping function (quill's own rule escapes only newlines).
pub fn print_with(m: &MSet, esc: &dyn Fn(&str) -> String) -> String {
	let mut o = String::from("tiny\t2\t0");
	for n in &m.ns {
		o.push('\t');
		o.push_str(n);
	}
	o.push('\n');
	for c in m.classes.values() {
		o.push('c');
		push_row(&mut o, &c.names);
		if let Some(d) = &c.doc {
			o.push_str(&format!("\tc\t{}\n", esc(d)));
		}
		for ((_, desc), f) in &c.fields {
			o.push_str(&format!("\tf\t{desc}"));
			push_row(&mut o, &f.names);
			if let Some(d) = &f.doc {
				o.push_str(&format!("\t\tc\t{}\n", esc(d)));
			}
		}
		for ((_, desc), me) in &c.methods {
			o.push_str(&format!("\tm\t{desc}"));
			push_row(&mut o, &me.names);
			if let Some(d) = &me.doc {
				o.push_str(&format!("\t\tc\t{}\n", esc(d)));
			}
			for (i, p) in &me.params {
				o.push_str(&format!("\t\tp\t{i}"));
				push_row(&mut o, &p.names);
				if let Some(d) = &p.doc {
					o.push_str(&format!("\t\t\tc\t{}\n", esc(d)));
				}
			}
		}
	}
	o
}

pub fn print(m: &MSet) -> String {
	print_with(m, &escape)
}

#[derive(Clone, Debug, PartialEq, Eq)]
pub enum ParseError {
	/// the text is not something the format description covers
	Malformed(String),
}

fn cells_to_row(cells: &[&str], n: usize) -> Result<Row, ParseError> {
	if cells.len() != n {
		return Err(ParseError::Malformed(format!("expected {n} name cells, got {}", cells.len())));
	}
	Ok(cells.iter().map(|c| if c.is_empty() { None } else { Some(c.to_string()) }).collect())
}

/// Reference reader. Only the structure rules of the format are applied; name validity is not judged.
pub fn parse(text: &str) -> Result<MSet, ParseError> {
	parse_lenient(text).and_then(|(set, unknown)| if unknown == 0 { Ok(set) } else { Err(ParseError::Malformed("line kind not covered by the format description at this depth".into())) })
}

/// Like [`parse`], but a line whose kind the format description does not define at its position
/// (for example a parameter line below a field) is skipped together with everything nested in it,
/// as the format asks of unknown sections; the number of such lines is returned.
pub fn parse_lenient(text: &str) -> Result<(MSet, usize), ParseError> {
	let mal = |s: String| ParseError::Malformed(s);
	let mut lines = text.split('\n').collect::<Vec<_>>();
	if lines.last() == Some(&"") {
		lines.pop();
	}
	let lines: Vec<&str> = lines.into_iter().map(|l| l.strip_suffix('\r').unwrap_or(l)).collect();
	let header = lines.first().ok_or_else(|| mal("no header".into()))?;
	let h: Vec<&str> = header.split('\t').collect();
	if h.len() < 5 || h[0] != "tiny" || h[1] != "2" || h[2] != "0" {
		return Err(mal(format!("bad header {header:?}")));
	}
	let ns: Vec<String> = h[3..].iter().map(|s| s.to_string()).collect();
	if ns.iter().any(|s| s.is_empty()) {
		return Err(mal("empty namespace".into()));
	}
	let n = ns.len();
	let mut set = MSet { ns, doc: None, classes: BTreeMap::new() };

	// current path
	let mut cur_class: Option<String> = None;
	let mut cur_field: Option<(String, String)> = None;
	let mut cur_method: Option<(String, String)> = None;
	let mut cur_param: Option<usize> = None;
	let mut unknown = 0usize;
	let mut skip_below: Option<usize> = None;
	let mut prev_depth = 0usize;

	for (ln, line) in lines.iter().enumerate().skip(1) {
		let depth = line.chars().take_while(|c| *c == '\t').count();
		let rest = &line[depth..];
		let cells: Vec<&str> = rest.split('\t').collect();
		let kind = cells[0];
		let err = |s: &str| mal(format!("line {}: {s}: {line:?}", ln + 1));
		if ln > 1 && depth > prev_depth + 1 {
			return Err(err("indentation jumps by more than one level"));
		}
		if ln == 1 && depth > 0 {
			return Err(err("first line is indented"));
		}
		prev_depth = depth;
		if let Some(d) = skip_below {
			if depth > d {
				continue;
			}
			skip_below = None;
		}
		match (depth, kind) {
			(0, "c") => {
				let row = cells_to_row(&cells[1..], n)?;
				let key = row[0].clone().ok_or_else(|| err("class without source name"))?;
				if set.classes.contains_key(&key) {
					return Err(err("duplicate class"));
				}
				set.classes.insert(key.clone(), MClass { names: row, ..Default::default() });
				cur_class = Some(key);
				cur_field = None;
				cur_method = None;
				cur_param = None;
			},
			(1, "f") | (1, "m") => {
				let ck = cur_class.clone().ok_or_else(|| err("member outside class"))?;
				if cells.len() < 2 {
					return Err(err("no descriptor"));
				}
				let desc = cells[1].to_string();
				let row = cells_to_row(&cells[2..], n)?;
				let name = row[0].clone().ok_or_else(|| err("member without source name"))?;
				let c = set.classes.get_mut(&ck).ok_or_else(|| err("internal"))?;
				cur_param = None;
				if kind == "f" {
					if c.fields.contains_key(&(name.clone(), desc.clone())) {
						return Err(err("duplicate field"));
					}
					c.fields.insert((name.clone(), desc.clone()), MField { names: row, doc: None });
					cur_field = Some((name, desc));
					cur_method = None;
				} else {
					if c.methods.contains_key(&(name.clone(), desc.clone())) {
						return Err(err("duplicate method"));
					}
					c.methods.insert((name.clone(), desc.clone()), MMethod { names: row, doc: None, params: BTreeMap::new() });
					cur_method = Some((name, desc));
					cur_field = None;
				}
			},
			(2, "p") if cur_method.is_some() => {
				let ck = cur_class.clone().ok_or_else(|| err("parameter outside class"))?;
				let mk = cur_method.clone().ok_or_else(|| err("parameter outside method"))?;
				if cells.len() < 2 {
					return Err(err("no index"));
				}
				let idx: usize = cells[1].parse().map_err(|_| err("bad index"))?;
				let row = cells_to_row(&cells[2..], n)?;
				let m = set.classes.get_mut(&ck).and_then(|c| c.methods.get_mut(&mk)).ok_or_else(|| err("internal"))?;
				if m.params.contains_key(&idx) {
					return Err(err("duplicate parameter"));
				}
				m.params.insert(idx, MParam { names: row, doc: None });
				cur_param = Some(idx);
			},
			(d, "c") if d >= 1 => {
				if cells.len() != 2 {
					return Err(err("comment line needs exactly one cell"));
				}
				let text = unescape(cells[1]);
				let ck = cur_class.clone().ok_or_else(|| err("comment outside class"))?;
				let c = set.classes.get_mut(&ck).ok_or_else(|| err("internal"))?;
				let slot: &mut Option<String> = match d {
					1 => &mut c.doc,
					2 => {
						if let Some(fk) = &cur_field {
							&mut c.fields.get_mut(fk).ok_or_else(|| err("internal"))?.doc
						} else if let Some(mk) = &cur_method {
							&mut c.methods.get_mut(mk).ok_or_else(|| err("internal"))?.doc
						} else {
							return Err(err("comment at depth 2 without member"));
						}
					},
					3 => {
						let mk = cur_method.clone().ok_or_else(|| err("comment at depth 3 without method"))?;
						let pi = cur_param.ok_or_else(|| err("comment at depth 3 without parameter"))?;
						&mut c.methods.get_mut(&mk).and_then(|m| m.params.get_mut(&pi)).ok_or_else(|| err("internal"))?.doc
					},
					_ => return Err(err("comment too deep")),
				};
				if slot.is_some() {
					return Err(err("second comment"));
				}
				*slot = Some(text);
			},
			_ => {
				unknown += 1;
				skip_below = Some(depth);
				continue;
			},
		}
		// a depth-1 comment after members still belongs to the class; but a member line resets deeper context
		if depth == 1 && kind == "c" {
			// class comment: deeper context ends
			cur_field = None;
			cur_method = None;
			cur_param = None;
		}
		if depth == 2 && kind == "c" {
			cur_param = None;
		}
	}
	Ok((set, unknown))
}

#[cfg(test)]
mod tests {
	use super::*;
	use crate::row;

	#[test]
	fn round_trip() {
		let mut m = MSet::new(&["a", "b"]);
		let mut c = MClass { names: row(&[Some("A"), Some("B")]), doc: Some("x\ny".into()), ..Default::default() };
		c.fields.insert(("f".into(), "I".into()), MField { names: row(&[Some("f"), None]), doc: None });
		let mut me = MMethod { names: row(&[Some("m"), Some("n")]), doc: Some("d".into()), params: BTreeMap::new() };
		me.params.insert(1, MParam { names: row(&[None, Some("p")]), doc: Some("pd".into()) });
		c.methods.insert(("m".into(), "()V".into()), me);
		m.classes.insert("A".into(), c);
		let t = print(&m);
		assert_eq!(parse(&t).unwrap(), m);
	}

	#[test]
	fn esc() {
		assert_eq!(unescape(&escape("a\\nb\nc\\")), "a\\nb\nc\\");
	}
}
