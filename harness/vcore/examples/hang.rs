//! Self-test of the watchdog (HANG_MODE=spin|sleep|idle): a spinning case must be reported as a timeout
//! (exit 1), so must a case blocked for ten budgets; a case idle for less than that must not.
fn main() {
	let mode = std::env::var("HANG_MODE").unwrap_or_default();
	let _ctx = vcore::Ctx::new("SELFTEST", "other");
	vcore::set_case_budget_ms(300);
	vcore::watched(|| format!("self-test {mode}"), || match mode.as_str() {
		"sleep" => std::thread::sleep(std::time::Duration::from_secs(60)),
		"idle" => std::thread::sleep(std::time::Duration::from_millis(1500)),
		_ => {
			let mut x = 0u64;
			loop {
				x = std::hint::black_box(x.wrapping_add(1));
			}
		},
	});
	println!("finished");
}
