//! Small deterministic exhaustive enumerators (simplest-first order, no randomness).

/// All index vectors of the product space `dims[0] × dims[1] × …` in odometer order (last digit fastest).
pub struct Product {
	dims: Vec<usize>,
	cur: Vec<usize>,
	done: bool,
}

impl Product {
	pub fn new(dims: &[usize]) -> Product {
		Product { dims: dims.to_vec(), cur: vec![0; dims.len()], done: dims.iter().any(|d| *d == 0) }
	}
	pub fn size(dims: &[usize]) -> u64 {
		dims.iter().map(|d| *d as u64).product()
	}
}

impl Iterator for Product {
	type Item = Vec<usize>;
	fn next(&mut self) -> Option<Vec<usize>> {
		if self.done {
			return None;
		}
		let out = self.cur.clone();
		let mut i = self.dims.len();
		loop {
			if i == 0 {
				self.done = true;
				break;
			}
			i -= 1;
			self.cur[i] += 1;
			if self.cur[i] < self.dims[i] {
				break;
			}
			self.cur[i] = 0;
		}
		Some(out)
	}
}

/// Decodes the `idx`-th element of the product space (same order as [`Product`]).
pub fn product_nth(dims: &[usize], mut idx: u64) -> Vec<usize> {
	let mut out = vec![0; dims.len()];
	for i in (0..dims.len()).rev() {
		let d = dims[i] as u64;
		out[i] = (idx % d) as usize;
		idx /= d;
	}
	out
}

/// All permutations of `0..n` in lexicographic order.
pub fn permutations(n: usize) -> Vec<Vec<usize>> {
	let mut out = Vec::new();
	let mut cur: Vec<usize> = (0..n).collect();
	loop {
		out.push(cur.clone());
		// next lexicographic permutation
		let mut i = n;
		loop {
			if i < 2 {
				return out;
			}
			i -= 1;
			if cur[i - 1] < cur[i] {
				break;
			}
			if i == 1 {
				return out;
			}
		}
		let mut j = n - 1;
		while cur[j] <= cur[i - 1] {
			j -= 1;
		}
		cur.swap(i - 1, j);
		cur[i..].reverse();
	}
}

/// All subsets of `0..n` as bit masks, ordered by size then value (simplest first).
pub fn subsets_by_size(n: usize) -> Vec<u32> {
	let mut v: Vec<u32> = (0..(1u32 << n)).collect();
	v.sort_by_key(|m| (m.count_ones(), *m));
	v
}

/// All duplicate-free sequences over `0..k` with length `0..=max_len`, shortest first.
pub fn injective_sequences(k: usize, max_len: usize) -> Vec<Vec<usize>> {
	let mut out = vec![Vec::new()];
	let mut frontier = vec![Vec::<usize>::new()];
	for _ in 0..max_len {
		let mut next = Vec::new();
		for s in &frontier {
			for x in 0..k {
				if !s.contains(&x) {
					let mut t = s.clone();
					t.push(x);
					next.push(t);
				}
			}
		}
		out.extend(next.iter().cloned());
		frontier = next;
	}
	out
}

/// Number of strings of length `0..=max_len` over an alphabet of `k` symbols.
pub fn strings_count(k: usize, max_len: usize) -> u64 {
	(0..=max_len).map(|l| (k as u64).pow(l as u32)).sum()
}

/// The `idx`-th string (shortest first, then odometer order) over `alphabet`.
pub fn string_nth<T: Clone>(alphabet: &[T], max_len: usize, mut idx: u64) -> Vec<T> {
	let k = alphabet.len() as u64;
	let mut len = 0usize;
	loop {
		let n = k.pow(len as u32);
		if idx < n || len == max_len {
			break;
		}
		idx -= n;
		len += 1;
	}
	let mut out = Vec::with_capacity(len);
	let mut digits = vec![0usize; len];
	for i in (0..len).rev() {
		digits[i] = (idx % k) as usize;
		idx /= k;
	}
	for d in digits {
		out.push(alphabet[d].clone());
	}
	out
}

#[cfg(test)]
mod tests {
	use super::*;

	#[test]
	fn perms() {
		assert_eq!(permutations(0).len(), 1);
		assert_eq!(permutations(1).len(), 1);
		assert_eq!(permutations(3).len(), 6);
		assert_eq!(permutations(4).len(), 24);
		let p = permutations(4);
		let set: std::collections::BTreeSet<_> = p.iter().cloned().collect();
		assert_eq!(set.len(), 24);
	}

	#[test]
	fn product() {
		assert_eq!(Product::new(&[2, 3]).count(), 6);
		let all: Vec<_> = Product::new(&[2, 3]).collect();
		for (i, v) in all.iter().enumerate() {
			assert_eq!(&product_nth(&[2, 3], i as u64), v);
		}
		assert_eq!(Product::new(&[]).count(), 1);
	}

	#[test]
	fn strings() {
		let a = ['a', 'b'];
		assert_eq!(strings_count(2, 2), 7);
		let all: Vec<String> = (0..7).map(|i| string_nth(&a, 2, i).into_iter().collect()).collect();
		assert_eq!(all, vec!["", "a", "b", "aa", "ab", "ba", "bb"]);
	}

	#[test]
	fn inj() {
		assert_eq!(injective_sequences(4, 4).len(), 65);
		assert_eq!(injective_sequences(5, 5).len(), 326);
	}
}
