//! Shared plumbing of every property check: argument parsing, known-findings triage, replay files,
//! evidence writing, panic capture, per-case watchdog, vacuity floors and small exhaustive enumerators.
//!
//! Exit codes: 0 = property held on everything explored (known findings allowed), 1 = unlisted
//! violation (a `VIOLATION property=<id> replay=<path>` line is printed), 2 = machinery problem
//! (never a verdict).

use std::collections::{BTreeMap, BTreeSet, HashSet};
use std::hash::{Hash, Hasher};
use std::panic::{catch_unwind, AssertUnwindSafe};
use std::path::PathBuf;
use std::sync::atomic::{AtomicBool, AtomicU64, Ordering};
use std::sync::{Mutex, OnceLock};
use std::time::Instant;

pub use serde_json::{json, Value};

pub mod enumerate;

#[derive(Clone, Copy, Debug, PartialEq, Eq)]
pub enum Tier {
	Quick,
	Thorough,
}

impl Tier {
	pub fn name(self) -> &'static str {
		match self {
			Tier::Quick => "quick",
			Tier::Thorough => "thorough",
		}
	}
	/// picks `q` in the quick tier and `t` in the thorough tier
	pub fn pick<T>(self, q: T, t: T) -> T {
		match self {
			Tier::Quick => q,
			Tier::Thorough => t,
		}
	}
}

#[derive(Clone, Debug)]
struct Finding {
	key: String,
	what: String,
}

struct Violation {
	key: String,
	what: String,
	replay: PathBuf,
}

pub struct Ctx {
	pub prop: String,
	pub level: String,
	pub tier: Tier,
	pub seed: u64,
	/// `Some(path)` when invoked with `--replay <file>`
	pub replay: Option<PathBuf>,
	root: PathBuf,
	start: Instant,
	open_findings: Vec<Finding>,
	known_seen: Mutex<BTreeMap<String, (String, u64)>>,
	violations: Mutex<Vec<Violation>>,
	violation_keys: Mutex<BTreeMap<String, u64>>,
	violation_count: AtomicU64,
	floors: Mutex<Vec<(String, u64, u64)>>,
	notes: Mutex<Vec<String>>,
}

const MAX_REPLAYS_PER_KEY: u64 = 3;
const MAX_REPLAYS_TOTAL: usize = 40;

pub fn verif_root() -> PathBuf {
	std::env::var_os("VERIF_ROOT").map(PathBuf::from).unwrap_or_else(|| PathBuf::from("/verif"))
}

impl Ctx {
	/// `level` is the MANIFEST level category this check writes into its evidence.
	pub fn new(prop: &str, level: &str) -> Ctx {
		install_panic_hook();
		let mut tier = match std::env::var("VERIF_TIER").ok().as_deref() {
			Some("thorough") => Tier::Thorough,
			_ => Tier::Quick,
		};
		let mut replay = None;
		let mut args = std::env::args().skip(1);
		while let Some(a) = args.next() {
			match a.as_str() {
				"--tier" => {
					tier = match args.next().as_deref() {
						Some("quick") => Tier::Quick,
						Some("thorough") => Tier::Thorough,
						other => machinery_fail(&format!("bad --tier {other:?}")),
					}
				},
				"--replay" => {
					replay = Some(PathBuf::from(args.next().unwrap_or_else(|| machinery_fail("--replay needs a path"))));
				},
				other => machinery_fail(&format!("unknown argument {other:?}")),
			}
		}
		// anyhow captures a backtrace per error when these are on; error paths are explored millions of
		// times and std serialises captures behind a global lock (still single-threaded here)
		std::env::set_var("RUST_BACKTRACE", "0");
		std::env::set_var("RUST_LIB_BACKTRACE", "0");
		let seed = std::env::var("VERIF_SEED").ok().and_then(|s| s.parse::<i64>().ok()).unwrap_or(0) as u64;
		let root = verif_root();
		let open_findings = load_findings(&root, prop);
		let ctx = Ctx {
			prop: prop.to_owned(),
			level: level.to_owned(),
			tier,
			seed,
			replay,
			root,
			start: Instant::now(),
			open_findings,
			known_seen: Mutex::new(BTreeMap::new()),
			violations: Mutex::new(Vec::new()),
			violation_keys: Mutex::new(BTreeMap::new()),
			violation_count: AtomicU64::new(0),
			floors: Mutex::new(Vec::new()),
			notes: Mutex::new(Vec::new()),
		};
		// old replay artefacts of this property belong to an earlier run
		let dir = ctx.root.join("replays").join(&ctx.prop);
		if ctx.replay.is_none() {
			let _ = std::fs::remove_dir_all(&dir);
		}
		start_watchdog(ctx.prop.clone(), dir);
		ctx
	}

	pub fn quick(&self) -> bool {
		self.tier == Tier::Quick
	}

	pub fn elapsed_s(&self) -> f64 {
		self.start.elapsed().as_secs_f64()
	}

	pub fn note(&self, s: impl Into<String>) {
		self.notes.lock().unwrap().push(s.into());
	}

	/// Is `key` an open known finding for this property?
	pub fn is_known(&self, key: &str) -> bool {
		self.open_findings.iter().any(|f| f.key == key)
	}

	/// Report one structured difference. `key` identifies the *kind and site* of the difference
	/// (indices stripped); if it is listed as an open finding for this property it is recorded and
	/// otherwise ignored, anything else is a violation. `replay` renders the concrete failing case.
	pub fn diff(&self, key: &str, what: &str, replay: impl FnOnce() -> String) {
		if let Some(f) = self.open_findings.iter().find(|f| f.key == key) {
			let mut seen = self.known_seen.lock().unwrap();
			let e = seen.entry(key.to_owned()).or_insert_with(|| (f.what.clone(), 0));
			e.1 += 1;
			return;
		}
		self.violation_count.fetch_add(1, Ordering::Relaxed);
		let n = {
			let mut keys = self.violation_keys.lock().unwrap();
			let e = keys.entry(key.to_owned()).or_insert(0);
			*e += 1;
			*e
		};
		if n > MAX_REPLAYS_PER_KEY {
			return;
		}
		let mut v = self.violations.lock().unwrap();
		if v.len() >= MAX_REPLAYS_TOTAL {
			return;
		}
		let dir = self.root.join("replays").join(&self.prop);
		let _ = std::fs::create_dir_all(&dir);
		let path = dir.join(format!("{:03}-{}.txt", v.len(), sanitize(key)));
		let body = format!("property={}\nkey={}\nwhat={}\n----\n{}\n", self.prop, key, what, replay());
		if std::fs::write(&path, body).is_err() {
			machinery_fail(&format!("cannot write replay file {path:?}"));
		}
		v.push(Violation { key: key.to_owned(), what: what.to_owned(), replay: path });
	}

	pub fn violation_count(&self) -> u64 {
		self.violation_count.load(Ordering::Relaxed)
	}

	/// A vacuity guard: the run must have exercised `name` at least `required` times.
	pub fn floor(&self, name: &str, required: u64, measured: u64) {
		self.floors.lock().unwrap().push((name.to_owned(), required, measured));
	}

	/// Writes the evidence file, prints KNOWN-FINDING / VIOLATION lines and exits.
	pub fn finish(&self, mut coverage: Value, assumptions: &[&str]) -> ! {
		let wall = self.start.elapsed().as_secs_f64();
		let known = std::mem::take(&mut *self.known_seen.lock().unwrap());
		let violations = std::mem::take(&mut *self.violations.lock().unwrap());
		let vkeys = std::mem::take(&mut *self.violation_keys.lock().unwrap());
		let floors = std::mem::take(&mut *self.floors.lock().unwrap());
		let total = self.violation_count.load(Ordering::Relaxed);

		let floors_json: BTreeMap<String, Value> = floors.iter()
			.map(|(n, r, m)| (n.clone(), json!({"required": r, "measured": m})))
			.collect();
		let unmet: Vec<&(String, u64, u64)> = floors.iter().filter(|(_, r, m)| m < r).collect();
		if let Some(obj) = coverage.as_object_mut() {
			obj.insert("floors".into(), json!(floors_json));
			obj.insert("known_findings_seen".into(), json!(known.iter().map(|(k, (_, n))| (k.clone(), json!(n))).collect::<BTreeMap<_, _>>()));
			if !vkeys.is_empty() {
				obj.insert("violation_keys".into(), json!(vkeys));
			}
			let notes = std::mem::take(&mut *self.notes.lock().unwrap());
			if !notes.is_empty() {
				obj.insert("notes".into(), json!(notes));
			}
		}
		let evidence = json!({
			"property_id": self.prop,
			"tier": self.tier.name(),
			"seed": self.seed,
			"level": self.level,
			"coverage": coverage,
			"assumptions": assumptions,
			"wall_s": (wall * 1000.0).round() / 1000.0,
			"violations": total,
		});
		if self.replay.is_none() {
			let dir = self.root.join("evidence");
			let _ = std::fs::create_dir_all(&dir);
			let path = dir.join(format!("{}.json", self.prop));
			let text = serde_json::to_string_pretty(&evidence).unwrap_or_else(|e| machinery_fail(&format!("evidence: {e}")));
			if std::fs::write(&path, text.clone() + "\n").is_err() {
				machinery_fail(&format!("cannot write evidence file {path:?}"));
			}
			// a copy per tier, so that the last thorough run stays on record when the quick tier runs again
			let tiers = dir.join("tiers");
			let _ = std::fs::create_dir_all(&tiers);
			let _ = std::fs::write(tiers.join(format!("{}.{}.json", self.prop, self.tier.name())), text + "\n");
		}
		for (key, (what, n)) in &known {
			println!("KNOWN-FINDING: property={} key={} ({} occurrences) {}", self.prop, key, n, what);
		}
		for v in &violations {
			println!("VIOLATION property={} replay={} key={} {}", self.prop, v.replay.display(), v.key, one_line(&v.what));
		}
		if total > 0 {
			println!("{}: {} unlisted difference(s) over {} key(s)", self.prop, total, vkeys.len());
			std::process::exit(1);
		}
		if !unmet.is_empty() {
			for (n, r, m) in unmet {
				eprintln!("MACHINERY: vacuity floor {n:?} not met: required {r}, measured {m}");
			}
			std::process::exit(2);
		}
		println!("{} {} ok: wall {:.1}s", self.prop, self.tier.name(), wall);
		std::process::exit(0);
	}
}

fn one_line(s: &str) -> String {
	let s: String = s.chars().map(|c| if c == '\n' || c == '\r' { ' ' } else { c }).collect();
	if s.len() > 300 { format!("{}…", &s[..s.char_indices().take_while(|(i, _)| *i < 300).last().map(|(i, _)| i).unwrap_or(0)]) } else { s }
}

fn sanitize(s: &str) -> String {
	let mut out: String = s.chars().map(|c| if c.is_ascii_alphanumeric() || c == '-' || c == '_' || c == '.' { c } else { '_' }).collect();
	out.truncate(80);
	out
}

pub fn machinery_fail(msg: &str) -> ! {
	eprintln!("MACHINERY: {msg}");
	std::process::exit(2);
}

fn load_findings(root: &std::path::Path, prop: &str) -> Vec<Finding> {
	let mut out = load_findings_file(&root.join("known_findings.json"), prop);
	// development aid only (never set by registered commands): a scratch file with further entries
	if let Some(extra) = std::env::var_os("VERIF_FINDINGS_EXTRA") {
		out.extend(load_findings_file(std::path::Path::new(&extra), prop));
	}
	out
}

fn load_findings_file(path: &std::path::Path, prop: &str) -> Vec<Finding> {
	let text = match std::fs::read_to_string(path) {
		Ok(t) => t,
		Err(_) => return Vec::new(),
	};
	let v: Value = serde_json::from_str(&text).unwrap_or_else(|e| machinery_fail(&format!("known_findings.json: {e}")));
	let mut out = Vec::new();
	for e in v.get("findings").and_then(|f| f.as_array()).cloned().unwrap_or_default() {
		let status = e.get("status").and_then(|s| s.as_str()).unwrap_or("");
		if status != "open" {
			continue; // fixed entries suppress nothing
		}
		let props: Vec<&str> = e.get("properties").and_then(|p| p.as_array()).map(|a| a.iter().filter_map(|x| x.as_str()).collect()).unwrap_or_default();
		if !props.contains(&prop) {
			continue;
		}
		let key = e.get("key").and_then(|s| s.as_str()).unwrap_or_else(|| machinery_fail("finding without key")).to_owned();
		let what = e.get("what").and_then(|s| s.as_str()).unwrap_or("").to_owned();
		out.push(Finding { key, what });
	}
	out
}

// ---------------------------------------------------------------------------------------------
// panic capture

thread_local! {
	static LAST_PANIC: std::cell::RefCell<Option<String>> = const { std::cell::RefCell::new(None) };
	static QUIET: std::cell::Cell<bool> = const { std::cell::Cell::new(false) };
}

fn install_panic_hook() {
	static ONCE: OnceLock<()> = OnceLock::new();
	ONCE.get_or_init(|| {
		let default = std::panic::take_hook();
		std::panic::set_hook(Box::new(move |info| {
			if QUIET.with(|q| q.get()) {
				let loc = info.location().map(|l| format!("{}:{}", strip_path(l.file()), l.line())).unwrap_or_else(|| "?".into());
				let msg = if let Some(s) = info.payload().downcast_ref::<&str>() {
					(*s).to_owned()
				} else if let Some(s) = info.payload().downcast_ref::<String>() {
					s.clone()
				} else {
					"<non-string payload>".to_owned()
				};
				LAST_PANIC.with(|p| *p.borrow_mut() = Some(format!("{loc}: {msg}")));
			} else {
				default(info);
			}
		}));
	});
}

fn strip_path(p: &str) -> &str {
	p.strip_prefix("/repo/").unwrap_or(p)
}

/// A panic caught by [`guard`]: `site` is `file:line` (repo-relative), `msg` the panic message.
#[derive(Clone, Debug, PartialEq, Eq)]
pub struct Panic {
	pub site: String,
	pub msg: String,
}

impl Panic {
	/// site without the line number: stable across unrelated edits of the file
	pub fn file(&self) -> &str {
		self.site.rsplit_once(':').map(|(f, _)| f).unwrap_or(&self.site)
	}
}

/// Runs `f`, turning a panic into `Err(Panic)` without printing anything.
pub fn guard<T>(f: impl FnOnce() -> T) -> Result<T, Panic> {
	install_panic_hook();
	let was = QUIET.with(|q| q.replace(true));
	let r = catch_unwind(AssertUnwindSafe(f));
	QUIET.with(|q| q.set(was));
	match r {
		Ok(v) => Ok(v),
		Err(_) => {
			let s = LAST_PANIC.with(|p| p.borrow_mut().take()).unwrap_or_else(|| "?: ?".into());
			let (site, msg) = s.split_once(": ").map(|(a, b)| (a.to_owned(), b.to_owned())).unwrap_or((s.clone(), String::new()));
			Err(Panic { site, msg })
		},
	}
}

// ---------------------------------------------------------------------------------------------
// watchdog: a case that runs longer than its budget is a violation (kind=timeout)

const SLOTS: usize = 256;
struct Slot {
	start_ms: AtomicU64,
	/// CPU time (ms) the worker thread had consumed when the case started, and the clock to read it again
	start_cpu_ms: AtomicU64,
	cpu_clock: AtomicU64,
	desc: Mutex<String>,
}

/// CPU time consumed by the thread owning `clock` (ms); 0 if it cannot be read
fn cpu_ms_of(clock: libc::clockid_t) -> u64 {
	let mut ts = libc::timespec { tv_sec: 0, tv_nsec: 0 };
	// SAFETY: plain syscall writing into a local
	if unsafe { libc::clock_gettime(clock, &mut ts) } != 0 {
		return 0;
	}
	ts.tv_sec as u64 * 1000 + ts.tv_nsec as u64 / 1_000_000
}

fn my_cpu_clock() -> libc::clockid_t {
	let mut clock: libc::clockid_t = 0;
	// SAFETY: pthread_self() is the calling thread; the out-parameter is a local
	if unsafe { libc::pthread_getcpuclockid(libc::pthread_self(), &mut clock) } != 0 {
		return libc::CLOCK_THREAD_CPUTIME_ID;
	}
	clock
}
static SLOT_TABLE: OnceLock<Vec<Slot>> = OnceLock::new();
static NEXT_SLOT: AtomicU64 = AtomicU64::new(0);
static EPOCH: OnceLock<Instant> = OnceLock::new();
static WATCHDOG_BUDGET_MS: AtomicU64 = AtomicU64::new(20_000);
static WATCHDOG_FIRED: AtomicBool = AtomicBool::new(false);

thread_local! {
	static MY_SLOT: usize = (NEXT_SLOT.fetch_add(1, Ordering::Relaxed) as usize) % SLOTS;
}

fn slots() -> &'static Vec<Slot> {
	SLOT_TABLE.get_or_init(|| (0..SLOTS).map(|_| Slot { start_ms: AtomicU64::new(0), start_cpu_ms: AtomicU64::new(0), cpu_clock: AtomicU64::new(0), desc: Mutex::new(String::new()) }).collect())
}

fn now_ms() -> u64 {
	EPOCH.get_or_init(Instant::now).elapsed().as_millis() as u64 + 1
}

pub fn set_case_budget_ms(ms: u64) {
	WATCHDOG_BUDGET_MS.store(ms, Ordering::Relaxed);
}

/// Runs one case (or one chunk of tiny cases) under the watchdog. `desc` must be enough to replay it.
pub fn watched<T>(desc: impl FnOnce() -> String, f: impl FnOnce() -> T) -> T {
	let idx = MY_SLOT.with(|s| *s);
	let slot = &slots()[idx];
	*slot.desc.lock().unwrap() = desc();
	let clock = my_cpu_clock();
	slot.cpu_clock.store(clock as u64, Ordering::SeqCst);
	slot.start_cpu_ms.store(cpu_ms_of(clock), Ordering::SeqCst);
	slot.start_ms.store(now_ms(), Ordering::SeqCst);
	let r = f();
	slot.start_ms.store(0, Ordering::SeqCst);
	r
}

fn start_watchdog(prop: String, replay_dir: PathBuf) {
	let _ = now_ms();
	std::thread::Builder::new().name("watchdog".into()).spawn(move || {
		// per slot: (start of the case it was seen in, CPU time seen last, wall time at which the CPU time last advanced)
		let mut seen: Vec<(u64, u64, u64)> = vec![(0, 0, 0); slots().len()];
		loop {
		std::thread::sleep(std::time::Duration::from_millis(250));
		let budget = WATCHDOG_BUDGET_MS.load(Ordering::Relaxed);
		let now = now_ms();
		for (i, slot) in slots().iter().enumerate() {
			let s = slot.start_ms.load(Ordering::SeqCst);
			if s == 0 || now.saturating_sub(s) <= budget {
				continue;
			}
			// The budget is CPU time of the worker thread, so that a machine busy with other work cannot turn a
			// healthy case into a timeout; ten budgets of wall time during which the thread used no CPU at all is a
			// hang of the blocked kind (a case that is merely starved by other work keeps advancing, however slowly).
			let cpu = cpu_ms_of(slot.cpu_clock.load(Ordering::SeqCst) as libc::clockid_t).saturating_sub(slot.start_cpu_ms.load(Ordering::SeqCst));
			if slot.start_ms.load(Ordering::SeqCst) != s {
				continue; // the case finished meanwhile
			}
			if seen[i].0 != s {
				seen[i] = (s, cpu, s);
			} else if cpu != seen[i].1 {
				seen[i].1 = cpu;
				seen[i].2 = now;
			}
			if (cpu > budget || now.saturating_sub(seen[i].2) > 10 * budget) && !WATCHDOG_FIRED.swap(true, Ordering::SeqCst) {
				let desc = slot.desc.lock().map(|d| d.clone()).unwrap_or_default();
				let _ = std::fs::create_dir_all(&replay_dir);
				let path = replay_dir.join("timeout.txt");
				let _ = std::fs::write(&path, format!("property={prop}\nkey=timeout\nwhat=case exceeded {budget} ms\n----\n{desc}\n"));
				println!("VIOLATION property={} replay={} key=timeout case exceeded {} ms", prop, path.display(), budget);
				std::process::exit(1);
			}
		}
		}
	}).unwrap_or_else(|e| machinery_fail(&format!("cannot start watchdog: {e}")));
}

// ---------------------------------------------------------------------------------------------
// counting helpers

/// deterministic 64-bit hash (SipHash with fixed keys)
pub fn hash64<T: Hash + ?Sized>(t: &T) -> u64 {
	#[allow(deprecated)]
	let mut h = std::hash::SipHasher::new();
	t.hash(&mut h);
	h.finish()
}

/// Counts distinct items by 64-bit hash.
#[derive(Default, Clone)]
pub struct Distinct {
	set: HashSet<u64>,
}

impl Distinct {
	pub fn new() -> Distinct {
		Distinct::default()
	}
	pub fn add<T: Hash + ?Sized>(&mut self, t: &T) -> bool {
		self.set.insert(hash64(t))
	}
	pub fn add_hash(&mut self, h: u64) -> bool {
		self.set.insert(h)
	}
	pub fn len(&self) -> u64 {
		self.set.len() as u64
	}
	pub fn is_empty(&self) -> bool {
		self.set.is_empty()
	}
	pub fn merge(&mut self, other: Distinct) {
		if self.set.len() < other.set.len() {
			let mine = std::mem::replace(&mut self.set, other.set);
			self.set.extend(mine);
		} else {
			self.set.extend(other.set);
		}
	}
}

/// A histogram of named outcomes plus evaluations and distinct counters, mergeable across workers.
#[derive(Default, Clone)]
pub struct Stats {
	pub evaluations: u64,
	pub outcomes: BTreeMap<String, u64>,
	pub distinct: Distinct,
	pub samples: Vec<Value>,
	pub sample_tags: BTreeSet<String>,
}

impl Stats {
	pub fn new() -> Stats {
		Stats::default()
	}
	pub fn eval(&mut self) {
		self.evaluations += 1;
	}
	pub fn outcome(&mut self, name: &str) {
		*self.outcomes.entry(name.to_owned()).or_insert(0) += 1;
	}
	pub fn outcome_n(&mut self, name: &str, n: u64) {
		*self.outcomes.entry(name.to_owned()).or_insert(0) += n;
	}
	pub fn get(&self, name: &str) -> u64 {
		self.outcomes.get(name).copied().unwrap_or(0)
	}
	/// keeps at most one sample per tag and at most 12 samples
	pub fn sample(&mut self, tag: &str, v: impl FnOnce() -> Value) {
		if self.samples.len() < 12 && !self.sample_tags.contains(tag) {
			self.sample_tags.insert(tag.to_owned());
			self.samples.push(v());
		}
	}
	pub fn merge(mut self, other: Stats) -> Stats {
		self.evaluations += other.evaluations;
		for (k, v) in other.outcomes {
			*self.outcomes.entry(k).or_insert(0) += v;
		}
		self.distinct.merge(other.distinct);
		for (tag, s) in other.sample_tags.into_iter().zip(other.samples) {
			if self.samples.len() < 12 && !self.sample_tags.contains(&tag) {
				self.sample_tags.insert(tag);
				self.samples.push(s);
			}
		}
		self
	}
}

pub fn hex(bytes: &[u8]) -> String {
	let mut s = String::with_capacity(bytes.len() * 2);
	for b in bytes {
		s.push_str(&format!("{b:02x}"));
	}
	s
}

pub fn unhex(s: &str) -> Option<Vec<u8>> {
	let s: Vec<u8> = s.bytes().filter(|b| !b.is_ascii_whitespace()).collect();
	if s.len() % 2 != 0 {
		return None;
	}
	s.chunks(2).map(|c| u8::from_str_radix(std::str::from_utf8(c).ok()?, 16).ok()).collect()
}

/// Parses the body (after the `----` line) of a replay file.
pub fn replay_body(path: &std::path::Path) -> String {
	let text = std::fs::read_to_string(path).unwrap_or_else(|e| machinery_fail(&format!("cannot read replay {path:?}: {e}")));
	match text.split_once("\n----\n") {
		Some((_, body)) => body.to_owned(),
		None => text,
	}
}
