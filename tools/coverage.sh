#!/bin/bash
# tools/coverage.sh [ID...] — diagnostic only (decides nothing): builds the checkers with -C instrument-coverage on the
# nightly toolchain (which ships llvm-cov/llvm-profdata) into a scratch target dir, runs the given tier of each check
# against a scratch VERIF_ROOT and prints, per anchored /repo source file, line coverage and writes the uncovered
# lines to /tmp/verif-cov/<ID>.uncovered.txt. Used to find code behind a property that no enumerated case reaches.
set -u
TIER="${TIER:-quick}"
BIN=$(ls -d ~/.rustup/toolchains/nightly-x86_64-unknown-linux-gnu/lib/rustlib/*/bin)
T=/tmp/covtarget; R=/tmp/verif-cov
mkdir -p $R/root
cp /verif/known_findings.json $R/root/; ln -sfn /verif/corpus $R/root/corpus
( cd /verif/harness && CARGO_TARGET_DIR=$T RUSTFLAGS="-C instrument-coverage" cargo +nightly build --release --offline -q -p checks 2>/dev/null ) || { echo build failed; exit 2; }
IDS="${@:-C01 C02 C03 C04 C05 C06 C07 C08 C09 C10 C11 C12 C13 C14 C15 C16 C17 C18 C19 C20}"
for ID in $IDS; do
	b=$(echo $ID | tr A-Z a-z)
	rm -rf $R/prof-$ID; mkdir -p $R/prof-$ID
	( cd $R/root && VERIF_ROOT=$R/root RUST_BACKTRACE=0 LLVM_PROFILE_FILE="$R/prof-$ID/%p-%m.profraw" $T/release/$b --tier $TIER > $R/$ID.run.log 2>&1 )
	echo "$ID run rc=$? profiles=$(ls $R/prof-$ID | wc -l)"
	$BIN/llvm-profdata merge -sparse $R/prof-$ID/*.profraw -o $R/$ID.profdata 2>/dev/null
	rm -rf $R/prof-$ID
	FILES=$(python3 - $ID <<'PY'
import json,sys
for l in open('/verif/properties.jsonl'):
    p=json.loads(l)
    if p['id']==sys.argv[1]: print(' '.join('/repo/'+f for f in p['anchors']['files']))
PY
)
	$BIN/llvm-cov report $T/release/$b -instr-profile=$R/$ID.profdata $FILES 2>/dev/null | awk '/\/|TOTAL/ {printf "   %-62s lines %6s missed %6s cover %8s\n",$1,$8,$9,$10}'
	$BIN/llvm-cov show $T/release/$b -instr-profile=$R/$ID.profdata $FILES -show-line-counts-or-regions=false 2>/dev/null | python3 -c "
import sys,re
cur=None
for l in sys.stdin:
    l=l.rstrip('\n')
    m=re.match(r'^(/repo/\S+):$',l)
    if m: cur=m.group(1); continue
    m=re.match(r'^\s*(\d+)\|\s*0\|(.*)$',l)
    if m and cur: print(f'{cur}:{m.group(1)}: {m.group(2).strip()}')
" > $R/$ID.uncovered.txt
	echo "   uncovered lines: $(wc -l < $R/$ID.uncovered.txt) -> $R/$ID.uncovered.txt"
done
