#!/usr/bin/env python3
# tools/ext2_brief.py <ID> : writes /tmp/ext2-<ID>.md (EXTENDER2_BRIEF with the check's current misses filled in)
import json,sys,glob
pid=sys.argv[1]
metas=[json.load(open(m)) for m in sorted(glob.glob(f'/verif/seeded/{pid}/*/meta.json'))]
miss=[]
for m in metas:
    own=[r for r in m.get('checks_run_against_it',[]) if r['check']==pid]
    if own and own[-1]['exit']!=1:
        miss.append((m['name'],own[-1]['exit'],m.get('what_it_breaks','')[:500],m.get('needs_to_manifest','')[:500]))
if miss:
    t="## Changes the committed quick tier does NOT report today (close these first — the whole family, not the one input)\n\n"
    for n,rc,w,nd in miss:
        t+=f"* `/verif/seeded/{pid}/{n}/` (quick tier exit {rc}{' = the checker itself died with a machinery error; a failure of the real code must become a reported difference, not exit 2' if rc==2 else ''}): {w}\n  Needs: {nd}\n"
    t+="\nRe-scan `/verif/seeded/"+pid+"/*/meta.json` when you start: more results of the current round may have arrived (entries of `checks_run_against_it` with `exit` 0 for your check are misses).\n"
else:
    t="No known miss is open for this check right now (re-scan `/verif/seeded/"+pid+"/*/meta.json` when you start: entries of `checks_run_against_it` with `exit` 0 for your check are misses). Your work list is PATTERNS.md and your own slips.\n"
b=open('/verif/tools/EXTENDER2_BRIEF.md').read().replace('{ID}',pid).replace('{id}',pid.lower()).replace('{NSEEDS}',str(len(metas))).replace('{MISSES}',t)
open(f'/tmp/ext2-{pid}.md','w').write(b)
print(pid,len(metas),'seeds',len(miss),'misses')
