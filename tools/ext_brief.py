#!/usr/bin/env python3
# tools/ext_brief.py <ID> : writes /tmp/ext-<ID>/BRIEF.md (extender brief for one check, with the seeded changes the
# quick tier missed listed as first targets)
import json,sys,os,glob
pid=sys.argv[1]
b=open('/verif/tools/EXTENDER_BRIEF.md').read().replace('{ID}',pid).replace('{id}',pid.lower())
miss=[]
for m in sorted(glob.glob('/verif/seeded/*/*/meta.json')):
    j=json.load(open(m))
    for r in j.get('checks_run_against_it',[]):
        if r['check']==pid and r['exit']==0 and (j['property']==pid or pid in sys.argv[2:]):
            miss.append(f"* `{os.path.dirname(m)}` (property {j['property']}): {j.get('what_it_breaks','')[:500]} — NEEDS: {j.get('needs_to_manifest','')[:400]}")
extra=""
if miss:
    extra="\n## Known misses — close these first\n\nThe quick tier of this check exits 0 on the following confirmed property-breaking changes (patch.diff, demo.rs and meta.json are in the directory). Generalise: do not add just the one input of the demonstration, add the *kind* of input (the alphabet symbol / the interaction) so that neighbouring slips are caught too. Verify with `MUTANT_SUITE=1 /verif/tools/mutant_run.sh "+pid+" <dir>/patch.diff` (must exit 1 afterwards).\n\n"+"\n".join(miss)+"\n"
os.makedirs(f"/tmp/ext-{pid}",exist_ok=True)
open(f"/tmp/ext-{pid}/BRIEF.md","w").write(b+extra)
print(pid,len(miss),"misses")
