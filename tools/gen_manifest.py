#!/usr/bin/env python3
"""Regenerates /verif/MANIFEST.json from the table below (single source of truth)."""
import json, os
ROOT = os.path.dirname(os.path.dirname(os.path.abspath(__file__)))

TRUST = "rustc; the harness's reference model (cross-checked against the real code in both directions); known_findings.json lists the genuine defects that are reported but not failed on"

# id -> (category, technique, level text, design ref, note)
CHECKS = {
 "C01": ("exploration",
         "bounded exhaustive enumeration of class files (assembler encodings × instruction shapes × pool/attribute orders + javac corpus) through the real reader, compared fact-by-fact with an independent strict JVMS parser",
         "Every class of explicitly enumerated spaces (384 instruction samples × 3 forms × 3 pool orders; every instruction sequence of length ≤3/4 over the 29-symbol decoding-arm alphabet with every branch target; 3^8 per-site form product; 720 pool permutations; rotations/padding/two-slot insertions of a large pool; attribute orders and contents of 6 kitchen-sink variants; every class-file version 45.3..67.0 incl. preview minors; boundary Utf8 strings in every role; 357 javac-17 corpus classes; thorough: all of java.base) is read by the real duke::read_class, projected into an encoding-free model and compared fact-by-fact with what an independent strict parser reads from the same bytes and with the model the assembler started from (three-way; oracle self-check failure is exit 2).",
         "DESIGN.md §2 C01", TRUST + "; cfmodel (parser/assembler pair, self-checked on java.base)"),
 "C02": ("model_checking",
         "bounded exhaustive exploration of the writer's widening fix-point: threshold windows of method layouts (every jump opcode class × direction × distance around ±32767/32768, cascades of 2-3 jumps, switch alignments, code-length limit) plus the shared class suite and corpus, each written by the real duke::write_class and re-read by an independent strict parser",
         "A state is a (method shape, widened-jump set) reached by the writer; a transition is one execution of the real write_class on a tree produced by the real reader. For every tree of the C01 spaces (suite, shape sweep, corpus; thorough: java.base and length-4 shapes) and of assembler-built threshold windows (single far jumps for 18 opcodes × 2 directions × distances around the i16 limits with 1/2/3-byte padding; cascades where widening one jump pushes another over the limit, nested/disjoint/crossing; switches at every alignment with far arms; exception ranges, line numbers and local ranges on moving instructions; code length landing on 65534..65537; ldc 254..257; locals 255/256; iinc ±127..129; pools filled to 65535) the output must pass the strict parser and equal the projection of the tree given to the writer, modulo the goto_w trampoline the statement allows; a clean error only where the class is unrepresentable; floors prove forward/backward trampolines, cascades with ≥2 widenings, exact ±32767/32768 boundaries and clean overflow errors occurred.",
         "DESIGN.md §2 C02", TRUST + "; cfmodel parser/assembler pair"),
 "C03": ("model_checking",
         "explicit-state BFS (stateright) over insertion histories of the real Mappings object + exhaustive line-sequence enumeration through the real reader",
         "Every insertion history (every order of inserting the classes/fields/methods/parameters/comments of a small universe, 2..4 namespaces, missing-name patterns, comment alphabet) is a state; on every state the real writer, reader and writer again run and are compared with an independent reference reader/model: round trip, text states exactly the content, all histories of one content give identical bytes, fixed point. Plus every sequence of <=L lines over a 9-line alphabet through the real reader against the reference reading (no merge/loss/re-parenting).",
         "DESIGN.md §2 C03", TRUST + "; stateright's BFS exhaustiveness"),
 "C04": ("model_checking",
         "explicit-state BFS over (mapping set, applied-diff count) with the real apply_to as transition function in lock-step with a reference apply; all-pairs diff→apply (→ .tinydiff text → read_file → apply) on the reached state set; full truth table of apply_diff_option",
         "States are two-namespace mapping sets reached from three initial sets by applying every single-slot diff of the action alphabet (None/Add/Remove/Edit with matching and mismatching old values at class, field, method, parameter and comment level, present and absent targets; parent+child two-slot diffs) with the REAL MappingsDiff::apply_to, to depth 2 (thorough 3). Every transition is compared with a reference apply written from the statement: exact change, untouched entries identical, every inconsistent combination refused. On the reached set every ordered pair (A,B) goes through the real diff() and apply_to, and through the .tinydiff text form; apply_diff_option's 4×3 table is complete.",
         "DESIGN.md §2 C04", TRUST),
 "C05": ("model_checking",
         "exhaustive enumeration of version directories (graph shapes × node labellings × naming × listing orders on tmpfs) through the real VersionGraph, compared with a reference fold of diffs along every path",
         "A state is one directory on disk: every rooted DAG shape on ≤3 (thorough 4) versions × every assignment of a mapping state from a pool closed under single edits × plain/split (a~b) names × controlled read_dir listing orders (all permutations for ≤5 files), plus every single malformation (no root, two roots, cycle, unreachable version, unknown name, mismatching diff). The real /repo/src/version_graph.rs (compiled through a #[path] shim) resolves each directory; versions(), get() for every plain and split name and apply_diffs() for every version must equal the reference reading, identically for every listing order; malformed directories must be refused.",
         "DESIGN.md §2 C05", TRUST + "; tmpfs listing order calibrated and re-observed at run time"),
 "C06": ("exploration",
         "exhaustive enumeration of mapping tables × descriptor-grammar strings × super-type graphs × member queries through the real ARemapper/BRemapper",
         "Every descriptor the JVMS grammar derives with ≤3 components over 13 atoms (and every string ≤5 over the descriptor alphabet for the failure paths), every state of 7 class slots (absent / renamed / identity / colliding), 2 and 3 namespaces with every (from,to) direction, every super-type DAG on 4 classes with ordered super lists ≤2, members declared in every subset of classes with partial name rows: every query is asked of remappers built by the real remapper_a/remapper_b and compared with a reference lookup written from the statement (shape preservation, nearest declaring super type in declaration order, identity fallback, X→Y→X identity on injective sets).",
         "DESIGN.md §2 C06", TRUST),
 "C07": ("exploration",
         "exhaustive position × reference-kind matrix of one-position classes (588 cells × 17 remappers) plus kitchen-sink, corpus and mixed jars through the real dukebox::remap::remap, compared with a reference renaming that asks the same remapper object at every reference-carrying position",
         "For each of 94 reference-carrying positions (declarations, super types, every referencing instruction, handles, bootstrap arguments, method types, dynamic constants, exception tables, stack-map types in every frame kind, annotation types/enums/class literals/nested/arrays, type annotations, InnerClasses/EnclosingMethod/nest/permitted records, record components, local variable descriptors) × 10 reference kinds (mapped, unmapped, array, package-moved, inner class, member declared in owner, inherited inside / outside the jar, unmapped member) a one-position class is put in a jar, remapped by the real code with 17 remappers (table remappers and the real remapper_b with the jar's super-class provider), written, reopened with zip and parsed strictly. Differences are attributed to dukebox's traversal (remap:), to duke's writer (writer:) or to the reader; entry names, byte-equality of non-class entries and well-formedness are judged on the jar. Signatures and names the statement does not list are information only.",
         "DESIGN.md §2 C07", TRUST + "; the zip crate; cfmodel"),
 "C08": ("model_checking",
         "explicit-state BFS over the Cayley graph of namespace permutations with the real Mappings::reorder as transition function, lock-step against a reference reorder",
         "States are (initial mapping set, permutation so far, set produced by the real code); actions are the generators of S_N (N=2..4). Every transition rebuilds a real Mappings, calls the real reorder and is compared with the reference (rows permuted, entries re-keyed, descriptors translated old-first→new-first, comments and parameter indices untouched); path independence, inverse and identity laws are checked on every state; missing new-first names and re-key collisions must be refused.",
         "DESIGN.md §2 C08", TRUST),
 "C09": ("exploration",
         "exhaustive enumeration of pairs of mapping sets through the real Mappings::merge, judged by a reference join and the projection law",
         "Every pair (A,B) from a generator in which each key at each level is in only A / only B / both, names present or absent per side, comments none/A/B/equal/different, conflicting descriptors, parameter indices and first namespaces: the real merge result must have the key union, column placement and comment choice of the reference, both projections must return A and B exactly, and the stated error cases must be refused.",
         "DESIGN.md §2 C09", TRUST),
 "C10": ("exploration",
         "full truth-table enumeration of mapping sets / diffs through the real remove_dummy and insert_dummy_and_contract_inner_names",
         "remove_dummy: every one-class mapping set over the placeholder alphabet (C_/f_/m_/p_ prefixes as prefix, infix and absent; <init>/<clinit>; unmapped package) × comments × children; insert_dummy_and_contract_inner_names: every diff with each of 6 name actions × 5 comment actions at each of 4 levels for top-level and inner class keys. Each case runs the real function twice (result + idempotence) against the documented rules applied bottom-up.",
         "DESIGN.md §2 C10", TRUST),
 "C11": ("model_checking",
         "explicit-state BFS with two actions (extend, contract) over mapping sets, real functions as transition function, lock-step against a reference extension",
         "States are mapping sets over every subset of 7 class keys (nesting depth 4, packages, orphan inner classes) with target names absent/simple/already extended, N=2 and 3; actions extend:<ns>/contract:<ns> call the real extend_inner_class_names / contract_inner_class_names to depth 3; every transition is compared with the reference; contract∘extend = id on simple names; missing outer classes must be refused; duke's split/join helpers are swept exhaustively over short names.",
         "DESIGN.md §2 C11", TRUST),
 "C12": ("exploration",
         "exhaustive enumeration of two-namespace mapping sets (nesting, orphans, comment alphabet, insertion orders) through the real Enigma writer and reader, stream and directory",
         "Every mapping set of several completely enumerated universes (nesting to depth 3, orphan inner classes, unnamed classes, packages, parameters with comments, 13-comment alphabet incl. blank lines, leading spaces and #) is written by the real write_all / enigma_dir::write and read back by read_into / enigma_dir::read on tmpfs in three insertion orders; result must equal the set, text must equal an independent reference reading, every class in exactly one file, output identical across insertion orders.",
         "DESIGN.md §2 C12", TRUST),
 "C13": ("exploration",
         "exhaustive enumeration of pairs of member orders (all pairs of duplicate-free sequences over a k-symbol alphabet, for fields, methods and interfaces), all subsets of a jar-entry menu and single-difference class contents through the real dukebox::merge::merge",
         "Member-order space: all 65² (thorough 326²) pairs of duplicate-free sequences of length ≤k over k symbols as the field / method / interface lists of a class on the two sides: every member exactly once, one-sided ones carry the side annotation, shared ones none, both relative orders preserved whenever compatible. Entry space: every subset of a 14-item (thorough 20) entry menu (one-sided / identical / differing classes, resources, directories, manifests, signature files, bundled server libraries) in two entry orders and two jar representations: exactly-once, drops as stated, identical classes byte-identical, one-sided classes marked. Content space: 41 single-difference aspects of a differing class; the rest of a merged class must come from one of the sides (judged through duke's own read/write so its losses cancel).",
         "DESIGN.md §2 C13", TRUST + "; the zip crate; cfmodel"),
 "C14": ("exploration",
         "exhaustive enumeration of nests tables (sets of ≤3, thorough ≤4, entries over a 22-kind entry menu × 6 classes) against a fixture jar and mapping sets through the real nest_jar / apply_nests_to_mappings / undo_nests_to_mappings / remap_nests / Nests::read",
         "Universe: four classes in the jar (two with calamus C_12 and pre-nested A__D names) and two not; every nests table of ≤3 (thorough ≤4) entries over type ∈ {inner, local, anonymous} × enclosing method ∈ {none, present, absent} × inner name ∈ {derived, custom, positive number, 0, 1LocX, 1X} × every enclosing class (chains to depth 5, missing enclosing and nested classes), also through the text form. nest_jar must rename exactly the applicable entries by the rule of their kind, transitively, rewrite every reference (fixture classes refer to every universe class at ~30 positions; compared with a reference renaming after strict parsing), add InnerClasses (+EnclosingMethod) and create missing enclosing classes; apply renames sources and descriptors the same way, undo∘apply = id; for tables whose entries all apply, jar class names = mappings source names; remap_nests keeps every nest in the target namespace. Where the statement is silent every allowed outcome is enumerated and accepted.",
         "DESIGN.md §2 C14", TRUST + "; cfmodel; the zip crate"),
 "C15": ("exploration",
         "exhaustive product enumeration of bridge-pattern jars (hierarchy × flags × call sets × per-position signature relations × mapping states) through the real specialized_methods code (compiled from /repo/src via a #[path] shim), against the statement's predicate and outcome",
         "Jars of generated classes over a depth-3 hierarchy (parents inside the main jar, in a library jar, or nowhere; optional interface) with one candidate method in every combination of {synthetic, bridge flag, private/static/final} × 12 call sets (none, one target, same twice, two targets, indy only, array owner, …) × 19 signature relations per position (equal, erased to Object / in-jar ancestor / non-ancestor, primitive mismatch, arity ±1, void vs value) × mapping states (bridge named directly / only in a super type one or two levels up / nowhere; delegate entry named, unnamed, absent; class absent; identity and renaming official→intermediary sets): get_specialized_methods must report exactly the pairs the statement's predicate gives, and add_specialized_methods_to_mappings must give the delegate, inside the bridge's class, the name the mappings give the bridge through inheritance, every other entry unchanged (full mapping-set equality). Where the statement is silent both outcomes are accepted and counted.",
         "DESIGN.md §2 C15", TRUST + "; fbrshim's thin wrappers around the #[path]-included module; cfmodel assembler"),
 "C16": ("fault_enumeration",
         "complete enumeration of stated fault sets over valid seeds (every field-map entry × boundary values, truncation at every byte, pairs of faults within a structure, hand-built adversaries, all short line sequences and descriptor strings) with every case run in a sandboxed child process (rlimits, 8 MiB stack, counting allocator, CPU watchdog)",
         "Seeds: generated kitchen-sink and module classes plus corpus classes, and Tiny v2 / tinydiff / Enigma / nests texts. Faults, each set enumerated completely: (a) every entry of the strict parser's field map (tags, counts, lengths, indices, offsets, opcodes, switch bounds) set to each width-appropriate value of 13 boundary values; (b) truncation at every byte position; (c, thorough) all pairs of structural-field faults within one structure; (d) adversaries: self-referential and cyclic bootstrap arguments, chains of 30000, element-value nesting 10^5, 10^5 brackets, tableswitch over the whole int range, ranges and frame offsets past 65535, counts promising 2^32 elements, code_length 0/65536, every instruction cut short byte by byte; (e) every sequence of ≤3 lines over 20-23 line shapes per text parser, 38 token replacements in the seeds, every string ≤5 (thorough ≤6) over the descriptor alphabet. Verdict per case ∈ {ok, err}; a panic, signal (stack overflow, abort), CPU timeout or allocation beyond 64×input+64 MiB is a violation keyed by call site; whatever read_class accepts goes through write_class. No sampling: the statement's 'random byte edits' are replaced by these complete sets.",
         "DESIGN.md §2 C16", TRUST + "; the faultbox child runner (re-executed checker binary), its counting allocator and stack-overflow probe; cfmodel's field map"),
 "C17": ("model_checking",
         "explicit-state BFS (stateright) over visitor decision sets (deviation-bounded: interest flags off, members declined, visit_code→None) per class, and over concatenated class streams × visitor kinds, with the real read_class_multi / ClassFile::accept as transition function",
         "Masks graph: a state is (class, set of deviating visitor answers); deviations are each of the 51 interest flags over five levels, declining the class, one field / method / record component, or visit_code()=None for one method; all sets with ≤2 (thorough ≤3) deviations plus 9 all-off corners, for kitchen sinks in 3 attribute orders and the 357-class corpus. Every state runs the real reader on the class followed by junk bytes, and replays the full tree into the same visitor: received items must equal the full read filtered by the answers, in order; items after a declined one intact; cursor exactly at the class end; read result == replay result. Streams graph: concatenations of 1..3 classes × 9 visitor kinds per read: after the k-th read the cursor sits at the k-th boundary and class k was delivered.",
         "DESIGN.md §2 C17", TRUST + "; stateright's BFS exhaustiveness; cfmodel; hook wrappers MaskedField / MaskedRecordComponent (forwarding only)"),
 "C18": ("exploration",
         "exhaustive enumeration of all strings up to a length bound over the descriptor and name alphabets through the real parsers/predicates against an independent JVMS recogniser",
         "All 3.2M strings of length ≤6 (thorough ≤7) over BDLa/;[()V.$ through field/method/return parse: accepted exactly when in the JVMS language, structure equal to the reference structure, write∘parse and parse∘write identities (dimensions 1,2,254,255,256,257 explicit); all strings ≤6 over a.;[/<>$ plus <init>/<clinit> neighbours through the seven name predicates and TryFroms; split/join inverse laws on all short names.",
         "DESIGN.md §2 C18", TRUST),
 "C20": ("exploration",
         "bounded exhaustive enumeration of class files and of raw class values through the real raw_class_file read/write/length, compared byte-for-byte with the input and with an independent JVMS reference encoder",
         "Files: every class of the shared suite, the shape sweep (all instruction sequences of length ≤3, thorough ≤4), stripped variants, the 357-class javac corpus (thorough: java.base) is read by the real ClassFile::read and written back: output must equal the input byte for byte and length() the byte count. Values: for each of the 29 AttributeInfo variants, 17 CpInfo variants, 7 frame kinds × 10 verification types, 13 element-value tags (nesting ≤2) and the module tables, every instance with 0/1/2 elements per vector inside a minimal class, in three pool layouts: read(write(v)) == v, length() exact, bytes equal to an independent reference encoder's JVMS bytes (accepted by the strict parser; re-read by duke). Differences are located with the strict parser's field map and keyed by kind and site.",
         "DESIGN.md §2 C20", TRUST + "; cfmodel strict parser; the reference encoder in c20/refenc.rs"),
 "C19": ("exploration",
         "deviation-bounded exhaustive enumeration of POM universes served through an in-memory Downloader to the real resolver, compared with a reference resolver written from Maven's documented rules",
         "Every dependency graph over artifacts a<b<c<d × versions {1,2} with ≤2 ordered dependencies per POM, and every 1- and 2-deviation (thorough 3) variant over scopes, optional, managed versions/scopes in own/parent/imported BOM, classifier/type, parents providing group/version/dependencies, second repository, root order and scopes, XML renderings: the real get_maven_dependencies must return the reference's breadth-first duplicate-free list (nearest wins, declaration-order ties, loser subtrees discarded); Display/parse round trips of all generated coordinates.",
         "DESIGN.md §2 C19", TRUST),
}

NOT_YET = {}

def main():
    props = [json.loads(l) for l in open(os.path.join(ROOT, "properties.jsonl"))]
    checks = []
    na = []
    for p in props:
        pid = p["id"]
        if pid in CHECKS:
            cat, tech, text, ref, note = CHECKS[pid]
            checks.append({
                "property_id": pid,
                "quick_cmd": f"./check {pid} --tier quick",
                "thorough_cmd": f"./check {pid} --tier thorough",
                "evidence_file": f"/verif/evidence/{pid}.json",
                "replay_cmd_template": f"./check {pid} --replay {{path}}",
                "engine": "harness/checks/src/bin/%s.rs" % pid.lower(),
                "level_claimed": {"category": cat, "text": text, "design_ref": ref},
                "level_note": note,
                "technique": tech,
            })
        else:
            na.append({"property_id": pid, "reason": NOT_YET.get(pid, "check not built yet in this round; the property is decidable by bounded exhaustive exploration (see DESIGN.md) and is left unclaimed rather than claimed weakly")})
    m = {
        "version": 1,
        # a warm-up only: ./check builds the one binary it needs itself, so one checker that does not compile must not keep the others from running
        "setup_cmd": "cd /verif/harness && (CARGO_NET_OFFLINE=true cargo build --release --offline -p checks --keep-going || true)",
        "hooks": {
            "guard": "cargo feature `verif` of crate duke (off by default)",
            "enable": "the harness depends on /repo/duke by path with features=[\"verif\"]; nothing else is changed",
            "baseline_off_cmd": "cd /repo && cargo nextest run --workspace --no-fail-fast --test-threads 8 --offline || cargo test --workspace --no-fail-fast --offline",
            "source_commits": ["202f4bb", "cb1b4a4"],
            "add_only": True,
        },
        "engines": [
            {"name": "vcore", "path": "harness/vcore", "kind_free_text": "evidence/known-finding/replay plumbing, panic capture, watchdog, exhaustive enumerators"},
            {"name": "mapmodel", "path": "harness/mapmodel", "kind_free_text": "reference model of mapping sets, diffs, Tiny v2 / tinydiff text"},
            {"name": "checks", "path": "harness/checks", "kind_free_text": "one explorer binary per property", "serves_properties": sorted(CHECKS)},
        ],
        "checks": checks,
        "not_applicable": na,
        "notes": "All checks explore the real code (path dependencies on /repo) exhaustively within stated bounds; no sampling. See DESIGN.md.",
    }
    json.dump(m, open(os.path.join(ROOT, "MANIFEST.json"), "w"), indent=1)
    print("checks:", len(checks), "not_applicable:", len(na))

if __name__ == "__main__":
    main()
