#!/usr/bin/env python3
"""Regenerates /verif/MANIFEST.json from the table below (single source of truth)."""
import json, os
ROOT = os.path.dirname(os.path.dirname(os.path.abspath(__file__)))

TRUST = "rustc; the harness's reference model (cross-checked against the real code in both directions); known_findings.json lists the genuine defects that are reported but not failed on"

# id -> (category, technique, level text, design ref, note)
CHECKS = {
 "C03": ("model_checking",
         "explicit-state BFS (stateright) over insertion histories of the real Mappings object + exhaustive line-sequence enumeration through the real reader",
         "Every insertion history (every order of inserting the classes/fields/methods/parameters/comments of a small universe, 2..4 namespaces, missing-name patterns, comment alphabet) is a state; on every state the real writer, reader and writer again run and are compared with an independent reference reader/model: round trip, text states exactly the content, all histories of one content give identical bytes, fixed point. Plus every sequence of <=L lines over a 9-line alphabet through the real reader against the reference reading (no merge/loss/re-parenting).",
         "DESIGN.md §2 C03", TRUST + "; stateright's BFS exhaustiveness"),
}

NOT_YET = {}

def main():
    props = [json.loads(l) for l in open(os.path.join(ROOT, "properties.jsonl"))]
    checks = []
    na = []
    for p in props:
        pid = p["id"]
        if pid in CHECKS:
            cat, tech, text, ref, note = CHECKS[pid]
            checks.append({
                "property_id": pid,
                "quick_cmd": f"./check {pid} --tier quick",
                "thorough_cmd": f"./check {pid} --tier thorough",
                "evidence_file": f"/verif/evidence/{pid}.json",
                "replay_cmd_template": f"./check {pid} --replay {{path}}",
                "engine": "harness/checks/src/bin/%s.rs" % pid.lower(),
                "level_claimed": {"category": cat, "text": text, "design_ref": ref},
                "level_note": note,
                "technique": tech,
            })
        else:
            na.append({"property_id": pid, "reason": NOT_YET.get(pid, "check not built yet in this round; the property is decidable by bounded exhaustive exploration (see DESIGN.md) and is left unclaimed rather than claimed weakly")})
    m = {
        "version": 1,
        "setup_cmd": "cd /verif/harness && CARGO_NET_OFFLINE=true cargo build --release --offline -p checks",
        "hooks": {
            "guard": "cargo feature `verif` of crate duke (off by default)",
            "enable": "the harness depends on /repo/duke by path with features=[\"verif\"]; nothing else is changed",
            "baseline_off_cmd": "cd /repo && cargo nextest run --workspace --no-fail-fast --test-threads 8 --offline || cargo test --workspace --no-fail-fast --offline",
            "source_commits": [],
            "add_only": True,
        },
        "engines": [
            {"name": "vcore", "path": "harness/vcore", "kind_free_text": "evidence/known-finding/replay plumbing, panic capture, watchdog, exhaustive enumerators"},
            {"name": "mapmodel", "path": "harness/mapmodel", "kind_free_text": "reference model of mapping sets, diffs, Tiny v2 / tinydiff text"},
            {"name": "checks", "path": "harness/checks", "kind_free_text": "one explorer binary per property", "serves_properties": sorted(CHECKS)},
        ],
        "checks": checks,
        "not_applicable": na,
        "notes": "All checks explore the real code (path dependencies on /repo) exhaustively within stated bounds; no sampling. See DESIGN.md.",
    }
    json.dump(m, open(os.path.join(ROOT, "MANIFEST.json"), "w"), indent=1)
    print("checks:", len(checks), "not_applicable:", len(na))

if __name__ == "__main__":
    main()
