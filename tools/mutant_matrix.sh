#!/bin/bash
# tools/mutant_matrix.sh [ID...] — runs every /verif/mutants/<ID>/*.patch through mutant_run.sh (quick tier)
# and writes /verif/mutants/RESULTS.tsv: id, patch, checker rc (1 = caught), suite summary.
cd "$(dirname "$0")/.."
IDS="${@:-$(ls mutants | grep -E '^C[0-9]+$')}"
OUT=mutants/RESULTS.tsv
touch $OUT
for id in $IDS; do
	for p in mutants/$id/*.patch; do
		[ -f "$p" ] || continue
		log=$(MUTANT_SUITE=1 MUTANT_LINES=6 tools/mutant_run.sh $id $p quick 2>&1)
		rc=$(echo "$log" | grep -o 'MUTANT-RC=[0-9]*' | tail -1 | cut -d= -f2)
		suite=$(echo "$log" | grep -E 'Summary|test result' | head -1 | sed 's/^ *//')
		first=$(echo "$log" | grep -m1 '^VIOLATION' | cut -c1-160)
		grep -v -P "^$id\t$(basename $p)\t" $OUT > $OUT.tmp; mv $OUT.tmp $OUT
		printf "%s\t%s\t%s\t%s\t%s\n" "$id" "$(basename $p)" "${rc:-?}" "$suite" "$first" >> $OUT
	done
done
sort -o $OUT $OUT
