#!/bin/bash
# tools/mutant_run.sh <ID> <patch-file> [tier]
# Runs check <ID> against a scratch copy of /repo (HEAD + working-tree changes are NOT included; HEAD only)
# with <patch-file> applied, without touching /repo or /verif. Prints the checker output and "MUTANT-RC=<rc>".
# Safe to run concurrently with other work. Scratch lives under /tmp/verif-mut/<ID>-$$ and is removed.
set -u
ID="${1:?id}"; PATCH="$(readlink -f "${2:?patch}")"; TIER="${3:-quick}"
BIN="$(echo "$ID" | tr 'A-Z' 'a-z')"
S="/tmp/verif-mut/$ID-$$"
mkdir -p "$S"
trap 'git -C /repo worktree remove --force "$S/repo" >/dev/null 2>&1; rm -rf "$S"' EXIT
git -C /repo worktree add --detach "$S/repo" "${MUTANT_BASE:-HEAD}" >/dev/null 2>&1 || { echo "cannot create worktree"; exit 2; }
if ! git -C "$S/repo" apply "$PATCH"; then echo "MUTANT: patch does not apply"; exit 2; fi
if [ "${MUTANT_SUITE:-0}" = 1 ]; then
	# the repository's own suite must still pass with the change applied
	( cd "$S/repo" && CARGO_TARGET_DIR="/tmp/verif-mut/target-suite-$ID" cargo nextest run --workspace --no-fail-fast --offline 2>&1 | tail -3 )
fi
mkdir -p "$S/verif"
if [ "${MUTANT_HEAD:-0}" = 1 ]; then
	# the committed machinery (used while checkers are being edited in the working tree)
	git -C /verif archive HEAD harness known_findings.json | tar -x -C "$S/verif"
	# git archive gives the files their commit time: older than a cached build of another commit in the shared target
	# directory, which cargo would then take for fresh
	find "$S/verif/harness" -type f -exec touch {} +
else
	rsync -a --exclude target /verif/harness "$S/verif/"
	cp /verif/known_findings.json "$S/verif/" 2>/dev/null
fi
[ -d /verif/corpus ] && ln -s /verif/corpus "$S/verif/corpus"
sed -i "s|/repo/|$S/repo/|g" "$S/verif/harness/Cargo.toml"
grep -rl '"/repo/' "$S/verif/harness" --include=*.rs --include=*.toml 2>/dev/null | xargs -r sed -i "s|\"/repo/|\"$S/repo/|g"
export CARGO_TARGET_DIR="/tmp/verif-mut/target-$ID"
export CARGO_NET_OFFLINE=true VERIF_ROOT="$S/verif"
cd "$S/verif/harness"
if ! cargo build --release --offline -q -p checks --bin "$BIN" 2>"$S/build.log"; then
	echo "MUTANT: build failed"; grep -E "^error" -A8 "$S/build.log" | head -40; echo "MUTANT-RC=2"; exit 2
fi
# (output goes through a file: `| head` would close the pipe early and make the checker die on a failed println)
"$CARGO_TARGET_DIR/release/$BIN" --tier "$TIER" > "$S/out.log" 2>&1
RC=$?
cut -c1-400 "$S/out.log" | head -${MUTANT_LINES:-15}
echo "MUTANT-RC=$RC"
exit $RC
