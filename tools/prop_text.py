#!/usr/bin/env python3
# prints the text of one property (what a blind seeding sub-agent is given)
import json,sys
for l in open('/verif/properties.jsonl'):
    p=json.loads(l)
    if p['id']==sys.argv[1]:
        print(f"Property {p['id']}: {p['title']}\n\nStatement: {p['statement']}\n\nQuantified over: {p['quantifier']['text']}\n\nWhy the existing tests cannot settle it: {p['why_tests_cant']}\n\nAnchored in files: {', '.join(p['anchors']['files'])}\nMechanisms: "+"; ".join(f"{m['name']} ({m['where']})" for m in p['anchors']['mechanism'])+"\nObserved at: "+"; ".join(p['anchors']['observe_at']))
