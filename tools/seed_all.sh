#!/bin/bash
# tools/seed_all.sh <ID> [extra check ids...] — confirms every change in /tmp/seed/<ID>/out with tools/seed_batch.sh (committed harness)
ID="$1"; shift
for d in /tmp/seed/$ID/out/*/; do
	n="$(basename "$d")"
	[ -f "$d/meta.json" ] || continue
	/verif/tools/seed_batch.sh "$ID" "$n" "$@" 2>&1 | tail -1
done
