#!/usr/bin/env python3
# tools/seed_bases.py : records in every seeded/<ID>/<name>/meta.json the newest /repo commit the patch applies to
# ("applies_to": "HEAD" or a commit id with the subject of the repair that replaced the edited code). A change whose code
# was replaced by a later repair is run with MUTANT_BASE=<that commit>; ported counterparts live in mutants/.
import json,glob,subprocess,os
def sh(*a,**k): return subprocess.run(a,capture_output=True,text=True,**k)
commits=sh('git','-C','/repo','rev-list','HEAD').stdout.split()
W='/tmp/seed-bases-wt'
sh('git','-C','/repo','worktree','remove','--force',W)
for m in sorted(glob.glob('/verif/seeded/*/*/meta.json')):
    d=os.path.dirname(m); p=d+'/patch.diff'; j=json.load(open(m))
    if sh('git','-C','/repo','apply','--check',p).returncode==0:
        j['applies_to']='HEAD'
    else:
        found=None
        sh('git','-C','/repo','worktree','add','--detach',W,'HEAD')
        for c in commits[1:]:
            sh('git','-C',W,'checkout','-q','--detach',c)
            if sh('git','-C',W,'apply','--check',p).returncode==0: found=c; break
        sh('git','-C','/repo','worktree','remove','--force',W)
        nxt=commits[commits.index(found)-1] if found else None
        j['applies_to']={'commit':found[:7] if found else None,
          'replaced_by':sh('git','-C','/repo','log','-1','--format=%h %s',nxt).stdout.strip()[:200] if nxt else None}
        print(d,j['applies_to'])
    json.dump(j,open(m,'w'),indent=1)
