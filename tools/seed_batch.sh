#!/bin/bash
# tools/seed_batch.sh <ID> <name> [extra check ids...] — confirms /tmp/seed/<ID>/out/<name> with tools/seed_verify.sh, taking
# the demo location and command from the seeder's meta.json (demo_place_at / demo_command).
ID="$1"; NAME="$2"; shift 2
OUT=/tmp/seed/$ID/out/$NAME
read -r DEST CMD < <(python3 -c "
import json;m=json.load(open('$OUT/meta.json'));print(m['demo_place_at'], m['demo_command'])")
TEST="$(basename "$DEST" .rs)"
CRATE="$(echo "$DEST" | cut -d/ -f1)"
if [[ "$DEST" == src/* ]]; then
	export SEED_MAINRS_LINE="#[cfg(test)] mod $TEST;"
	export SEED_TEST_CMD="$CMD"
	CRATE=feather-build-rs
fi
MUTANT_HEAD="${MUTANT_HEAD:-1}" /verif/tools/seed_verify.sh "$ID" "$OUT" "$DEST" "$CRATE" "$TEST" "$ID" "$@"
