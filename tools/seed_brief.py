#!/usr/bin/env python3
# tools/seed_brief.py <ID> [N] : writes /tmp/seed/<ID>/BRIEF.md (the seeder brief with the property text appended and
# one-line summaries of the changes already kept for this property, so that a new round attacks something else)
import json,sys,os,glob,subprocess
pid=sys.argv[1]; n=sys.argv[2] if len(sys.argv)>2 else "2"
W=f"/tmp/seed/{pid}"
brief=open('/verif/tools/SEEDER_BRIEF.md').read()
avoid=[]
for m in sorted(glob.glob(f'/verif/seeded/{pid}/*/meta.json')):
    j=json.load(open(m)); avoid.append(f"   * `{j.get('name')}` ({', '.join(j.get('files_changed',[]))}): {j.get('what_it_breaks','')[:260]}")
av=""
if avoid:
    av="\nEarlier rounds already produced the following changes for this property — do something **different** (other code sites, other clauses):\n"+"\n".join(avoid)+"\n"
text=subprocess.run(['python3','/verif/tools/prop_text.py',pid],capture_output=True,text=True).stdout
out=brief.replace('{W}',W).replace('{N}',n).replace('{AVOID}',av)+"\n---\n\n# The property\n\n"+text
open(f"{W}/BRIEF.md","w").write(out)
print(f"{W}/BRIEF.md", len(out))
