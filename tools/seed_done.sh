#!/bin/bash
# tools/seed_done.sh <ID>... : removes the scratch worktrees (and build output) of tools/seed_prep.sh
for ID in "$@"; do
	git -C /repo worktree remove --force /tmp/seed/$ID >/dev/null 2>&1; rm -rf /tmp/seed/$ID /tmp/verif-mut/target-$ID /tmp/verif-mut/target-suite-$ID
done
git -C /repo worktree prune
