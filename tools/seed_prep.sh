#!/bin/bash
# tools/seed_prep.sh <ID>... : creates scratch worktrees /tmp/seed/<ID> of /repo HEAD (with a warm target dir copied
# from /repo/target) for blind seeding sub-agents; tools/seed_done.sh removes them again.
for ID in "$@"; do
	W=/tmp/seed/$ID
	[ -d "$W" ] && { echo "$W exists"; continue; }
	git -C /repo worktree add --detach "$W" HEAD >/dev/null 2>&1 || { echo "cannot add $W"; continue; }
	[ -d /repo/target ] && cp -r /repo/target "$W/target"
	mkdir -p "$W/out"
	echo "$W ready"
done
