#!/usr/bin/env python3
# tools/seed_recheck.py <ID> <name> <history line> [check ids...] — re-runs the registered quick check(s) against a kept
# seeded change (scratch worktree via tools/mutant_run.sh) after a check was strengthened, keeps the first run in
# "history" and replaces "checks_run_against_it" by the new result.
import json,subprocess,sys,re
pid,name,hist=sys.argv[1:4]; checks=sys.argv[4:] or [pid]
d=f"/verif/seeded/{pid}/{name}"
m=json.load(open(f"{d}/meta.json"))
old={r['check']:r for r in m.get('checks_run_against_it',[])}
res=[]
for c in checks:
    out=subprocess.run(['/verif/tools/mutant_run.sh',c,f"{d}/patch.diff",'quick'],capture_output=True,text=True,env={**__import__('os').environ,'MUTANT_LINES':'4'}).stdout
    open(f"{d}/check_{c}.log","w").write(out)
    rc=re.findall(r'MUTANT-RC=(\d+)',out); rc=int(rc[-1]) if rc else 2
    first=next((re.sub(r'replay=\S+ ','',l)[:300] for l in out.splitlines() if l.startswith('VIOLATION')),"")
    res.append({"check":c,"tier":"quick","exit":rc,"first_violation":first})
    h=m.setdefault('history',[])
    if c in old and old[c]['exit']!=rc:
        h.append(f"first run: {c} quick exit {old[c]['exit']}" + (" (MISSED)" if old[c]['exit']==0 else ""))
        h.append(hist)
        h.append(f"after strengthening: {c} quick exit {rc}" + (f" ({first[:160]})" if first else ""))
for c,r in old.items():
    if c not in checks: res.append(r)
m['checks_run_against_it']=res
json.dump(m,open(f"{d}/meta.json","w"),indent=1)
print(name,[(r['check'],r['exit']) for r in res])
