#!/bin/bash
# tools/seed_verify.sh <ID> <seed-out-dir> <demo-dest-relative-to-repo> <crate> <test-name> [check ids...]
# Confirms a seeded change in the scratch worktree /tmp/seed/<ID> (suite green with it, demonstration passes
# without / fails with it), runs the registered check(s) against a scratch copy with the change applied
# (tools/mutant_run.sh; /repo itself is never touched), and stores the result under /verif/seeded/<ID>/<name>/.
set -u
ID="$1"; OUT="$(readlink -f "$2")"; DEST="$3"; CRATE="$4"; TEST="$5"; shift 5
CHECKS="${@:-$ID}"
NAME="$(basename "$OUT")"
W="/tmp/seed/$ID"
V="/verif/seeded/$ID/$NAME"
mkdir -p "$V"
cd "$W" || exit 2
git checkout -q -- . ; git clean -fdq -e out -e target >/dev/null 2>&1
git apply --check "$OUT/patch.diff" || { echo "patch does not apply"; exit 2; }
place_demo() {
	mkdir -p "$(dirname "$W/$DEST")"; cp "$OUT/demo.rs" "$W/$DEST"
	# optional: SEED_MAINRS_LINE = a `#[cfg(test)] mod ...;` line the demo needs in src/main.rs (unit-test demos of the
	# binary crate); SEED_TEST_CMD = the exact demo command when it is not `cargo test -p <crate> --test <name>`
	[ -n "${SEED_MAINRS_LINE:-}" ] && echo "$SEED_MAINRS_LINE" >> "$W/src/main.rs"
	for extra in ${SEED_EXTRA_FILES:-}; do mkdir -p "$W/$(dirname "${extra#*:}")"; cp "$OUT/${extra%%:*}" "$W/${extra#*:}"; done
}
clean_tree() { git checkout -q -- . ; git clean -fdq -e out -e target >/dev/null 2>&1; }
TEST_CMD="${SEED_TEST_CMD:-cargo test -p $CRATE --test $TEST --offline}"
place_demo
$TEST_CMD > "$V/demo_without.log" 2>&1; RC_WITHOUT=$?
clean_tree
git apply "$OUT/patch.diff"
# the repository's own suite, unedited (the demonstration is not in the tree for this run)
cargo nextest run --workspace --no-fail-fast --offline > "$V/suite_with.log" 2>&1; RC_SUITE=$?
SUITE="$(grep -E 'Summary' "$V/suite_with.log" | tail -1 | sed 's/^ *//')"
place_demo
$TEST_CMD > "$V/demo_with.log" 2>&1; RC_WITH=$?
clean_tree
cp "$OUT/patch.diff" "$V/patch.diff"; cp "$OUT/demo.rs" "$V/demo.rs"; cp "$OUT/demo.md" "$V/demo.md" 2>/dev/null
RESULTS=""
for c in $CHECKS; do
	log="$(MUTANT_LINES=4 /verif/tools/mutant_run.sh "$c" "$OUT/patch.diff" quick 2>&1)"
	rc="$(echo "$log" | grep -o 'MUTANT-RC=[0-9]*' | tail -1 | cut -d= -f2)"
	first="$(echo "$log" | grep -m1 '^VIOLATION' | sed 's/replay=[^ ]* //' | cut -c1-300)"
	echo "$log" > "$V/check_$c.log"
	RESULTS="$RESULTS{\"check\":\"$c\",\"tier\":\"quick\",\"exit\":${rc:-2},\"first_violation\":$(python3 -c 'import json,sys;print(json.dumps(sys.argv[1]))' "$first")},"
done
python3 - "$OUT/meta.json" "$V/meta.json" "$RC_WITHOUT" "$RC_SUITE" "$SUITE" "$RC_WITH" "[${RESULTS%,}]" "$DEST" "$CRATE" "$TEST" <<'PY'
import json,sys
src,dst,rc_wo,rc_suite,suite,rc_w,results,dest,crate,test=sys.argv[1:]
m=json.load(open(src))
import os
m["demo"]={"place_at":dest,"command":os.environ.get("SEED_TEST_CMD") or f"cargo test -p {crate} --test {test} --offline"}
if os.environ.get("SEED_MAINRS_LINE"): m["demo"]["line_appended_to_src_main_rs"]=os.environ["SEED_MAINRS_LINE"]
m["confirmed"]={"where":"scratch worktree of /repo HEAD (tools/seed_verify.sh); /repo itself untouched",
 "demo_without_change_exit":int(rc_wo),"repository_suite_with_change_exit":int(rc_suite),"repository_suite_with_change":suite,
 "demo_with_change_exit":int(rc_w),
 "ok": int(rc_wo)==0 and int(rc_suite)==0 and int(rc_w)!=0}
m["checks_run_against_it"]=json.loads(results)
m["origin"]="written by a fresh sub-agent that saw only the property text and its own scratch worktree"
json.dump(m,open(dst,"w"),indent=1)
print(json.dumps({"name":m.get("name"),"confirmed":m["confirmed"]["ok"],"checks":[(r["check"],r["exit"]) for r in m["checks_run_against_it"]]}))
PY
